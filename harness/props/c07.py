"""C07 -- prediction metrics and run analysis (DESIGN.md section 4, C07)."""

from __future__ import annotations

import math
import statistics
from fractions import Fraction

import common
from common import cbool, clist, cnat, copt, cq, cz, fjson, fparse, frac_of_float
from framework import TranslateError  # noqa: F401

PID = "C07"
PROPS_FILE = "Props/C07.v"
GEN_FILES = ["Gen/C07_agg.v"]
MODEL_FILES = ["Model/C07_metrics.v"]
ALLOWED_AXIOMS: list[str] = []
CASE_HEADER = "From Coq Require Import ZArith QArith.\nFrom LK Require Import Lib.QLib Gen.C07_agg Model.C07_metrics.\nOpen Scope Q_scope."
TRUSTED = [
    "Coq 8.16.1 kernel + vm_compute (no native_compute); Print Assumptions of every theorem in Props/C07.v: closed under the global context",
    "translator harness/translate/c07.py + pyq.py (Python ast -> Gallina for RMSE/MAE measure_list, compute_list_data, extract_list_metric, global_aggregate and RunAnalysisResult.list_metrics/list_summary), pandas contracts: Series - and * propagate NaN, sum/mean/count skip NaN",
    "hand-written model of PredictMetric.align_scores and RunAnalysis.measure (Model/C07_metrics.v), tied by the correspondence cases evaluated inside Coq on exact rationals (tolerance 2^-40 relative for float64 results)",
    "pandas / numpy / ItemListCollection internals are exercised, not verified",
]
ASSUMPTIONS = [
    "item lists have distinct item ids (as produced by LensKit pipelines)",
    "scores and ratings are finite or NaN",
]
RULE = ("structured generator: 1-7 output lists (keys of 1-3 fields in arbitrary, mostly unsorted order, duplicates allowed), "
        "test collection keyed by the same or a projected key schema, per-item scores/ratings in quarter steps with NaN and "
        "absent items on either side and on BOTH sides (NaN score with absent / NaN rating, under every disposition pair), 1-5 "
        "metrics (RMSE/MAE with each missing-data disposition, plain function, decomposed-only, global-only) with optional labels "
        "and defaults; the result frames are read key by key (index tuples), ungrouped and grouped summaries; non-trivial = at "
        "least two lists with test data, at least one ignored pair or absent test list, and a prediction metric present; "
        "distinct = by hash of the case")

TOL = "tol64"


def translate():
    from translate import c07 as t
    from translate.pyq import TranslateError as TE
    try:
        return t.translate(common.SRC)
    except TE as e:
        raise TranslateError(str(e))


# ---------------------------------------------------------------------------------------------
# generator
# ---------------------------------------------------------------------------------------------

FIELDS = ["user_id", "seq", "part"]


def gen_value(rng, nan_odds):
    if rng.chance(nan_odds, 10):
        return None
    return fjson(Fraction(rng.randint(2, 20), 4))


def gen_case(rng, malformed=False):
    nof = rng.weighted([(1, 4), (2, 4), (3, 2)])
    ofields = FIELDS[:nof] if rng.chance(1, 2) else rng.shuffle(FIELDS)[:nof]
    if malformed and nof < 3 and rng.chance(1, 2):
        tfields = [rng.choice([f for f in FIELDS if f not in ofields])]
    elif nof >= 2 and rng.chance(1, 2):
        tfields = rng.shuffle(ofields)[:rng.randint(1, nof - 1)]     # a proper projection, fields in any order
    else:
        tfields = list(ofields) if rng.chance(2, 3) else rng.shuffle(ofields)
    nlists = rng.weighted([(1, 1), (2, 2), (3, 3), (4, 3), (5, 2), (7, 1)])
    # "paired": every item has both values or NEITHER (NaN score with an absent or NaN rating, a NaN rating of an
    # unscored item): nothing is missing on one side, so no disposition pair may raise and no such item is counted
    style = rng.weighted([("clean", 3), ("ignore-heavy", 5), ("sparse", 2), ("paired", 3)])
    nan_odds = {"clean": 0, "ignore-heavy": 3, "sparse": 5, "paired": 4}[style]
    outputs, test = [], []
    keyvals = list(range(1, 5))
    for _ in range(nlists):
        key = [rng.choice(keyvals) for _ in ofields]
        n = rng.weighted([(0, 1), (1, 2), (2, 2), (3, 3), (5, 2)])
        ids = rng.sample(list(range(10, 22)), n)
        outputs.append({"key": key, "items": [[i, gen_value(rng, nan_odds)] for i in ids]})
    if len(outputs) > 1 and rng.chance(1, 6):
        # ascending / descending key order are orders too
        outputs.sort(key=lambda o: o["key"], reverse=rng.chance(1, 2))
    # test lists for most projected keys
    seen = set()
    for o in outputs:
        try:
            pk = tuple(o["key"][ofields.index(f)] for f in tfields)
        except ValueError:
            pk = tuple(rng.choice(keyvals) for _ in tfields)
        if pk in seen and not rng.chance(1, 5):
            continue
        if rng.chance(1, 5):
            continue  # no test data for this output
        seen.add(pk)
        out_ids = [i for i, _ in o["items"]]
        if style == "paired":
            items = []
            for i, sv in o["items"]:
                if sv is not None:
                    items.append([i, gen_value(rng, 0)])
                elif rng.chance(1, 2):
                    items.append([i, None])                      # NaN score, NaN rating
                # else: NaN score, no rating at all
            for i in rng.sample([i for i in range(22, 28)], rng.randint(0, 2)):
                items.append([i, None])                          # unscored item whose rating is NaN
            test.append({"key": list(pk), "items": items if rng.chance(1, 2) else rng.shuffle(items)})
            continue
        if style == "clean":
            ids = list(out_ids)
            keep_order = rng.chance(1, 2)
        else:
            ids = [i for i in out_ids if rng.chance(3, 4)] + rng.sample([i for i in range(10, 26) if i not in out_ids], rng.randint(0, 2))
        ids = ids if (style == "clean" and keep_order) else rng.shuffle(ids)
        test.append({"key": list(pk), "items": [[i, gen_value(rng, 1 if style != "clean" else 0)] for i in ids]})
    if rng.chance(1, 6):
        test.append({"key": [9 for _ in tfields], "items": [[10, "3/1"]]})
    metrics = []
    nm = rng.randint(1, 5)
    for j in range(nm):
        kind = rng.weighted([("rmse", 4), ("mae", 4), ("fun", 2), ("deconly", 1), ("global", 1)])
        if style in ("clean", "paired") or malformed:
            ms, mt = rng.choice(["error", "ignore"]), rng.choice(["error", "ignore"])
            if style == "paired" and rng.chance(1, 2):
                ms, mt = "error", "error"                         # the default policy
        else:
            ms, mt = "ignore", "ignore"
        metrics.append({
            "kind": kind, "ms": ms, "mt": mt, "label": f"m{j}" if rng.chance(1, 2) or any(m["kind"] == kind for m in metrics) else None,
            "default": fjson(Fraction(rng.randint(0, 12), 2)) if rng.chance(1, 3) else None,
        })
    prelude = None
    if rng.chance(2, 5):
        # an earlier measure() on the SAME RunAnalysis object: two lists, the second one with a missing score
        # (raises part-way under an 'error' disposition) or a complete one (succeeds); its outcome is ignored,
        # the run that follows must be unaffected by it
        kv = [rng.choice(keyvals) for _ in ofields]
        kv2 = [rng.choice(keyvals) for _ in ofields]
        raising = rng.chance(2, 3)
        p_out = [{"key": kv, "items": [[30, "2/1"], [31, "7/2"]]},
                 {"key": kv2, "items": [[30, "5/2"], [32, None if raising else "3/1"]]}]
        try:
            p_tst = [{"key": [o["key"][ofields.index(f)] for f in tfields], "items": [[30, "4/1"], [31, "1/1"], [32, "9/2"]]} for o in p_out]
        except ValueError:
            p_tst = []
        prelude = {"outputs": p_out, "test": p_tst, "raising": raising}
    return {"ofields": ofields, "tfields": tfields, "outputs": outputs, "test": test, "metrics": metrics,
            "prelude": prelude,
            "dtype": rng.choice(["f8", "f4"]),
            "group_by": rng.choice(ofields) if rng.chance(1, 2) else None,
            "style": style + ("/malformed" if malformed else "")}


def gen_cases(rng, tier):
    n = 400 if tier == "quick" else 6000
    out = []
    for k in range(n):
        r = rng.fork(k)
        out.append(gen_case(r, malformed=(k % 8 == 7)))
    return out


# ---------------------------------------------------------------------------------------------
# implementation driver
# ---------------------------------------------------------------------------------------------

_ready = False


def _setup():
    global _ready, np, pd, ItemList, ItemListCollection, RunAnalysis, RMSE, MAE, DecOnly, GlobalOnly, hits_fn
    if _ready:
        return
    common.use_repo()
    import numpy as np
    import pandas as pd
    from lenskit.data import ItemList, ItemListCollection
    from lenskit.metrics import MAE, RMSE, RunAnalysis
    from lenskit.metrics._base import DecomposedMetric, GlobalMetric

    def hits_fn(out, test):
        t = set(test.ids().tolist())
        return float(sum(1 for i in out.ids().tolist() if i in t))

    class DecOnly(DecomposedMetric):
        def compute_list_data(self, output, test):
            return (hits_fn(output, test), float(len(output)))

        def extract_list_metric(self, metric):
            return None

        def global_aggregate(self, values):
            return float(sum(a for a, _ in values) + sum(b for _, b in values))

    class GlobalOnly(GlobalMetric):
        def measure_run(self, output, test):
            return float(len(output) + 2 * len(test))

    _ready = True


def _ilist(items, field, dtype="f8"):
    ids = [i for i, _ in items]
    vals = [float("nan") if v is None else float(fparse(v)) for _, v in items]
    return ItemList(item_ids=np.array(ids, dtype=np.int64), **{field: np.array(vals, dtype=np.dtype(dtype))})


def _snapshot(coll, field):
    return [[None if (v != v) else float(v) for v in np.asarray(il.field(field), dtype=float).tolist()] for _, il in coll]


def _metric(m):
    if m["kind"] == "rmse":
        return RMSE(missing_scores=m["ms"], missing_truth=m["mt"])
    if m["kind"] == "mae":
        return MAE(missing_scores=m["ms"], missing_truth=m["mt"])
    if m["kind"] == "fun":
        return hits_fn
    if m["kind"] == "deconly":
        return DecOnly()
    return GlobalOnly()


def _num(x):
    return fjson(frac_of_float(x))


def _index(df):
    """index tuples of a result frame as lists of ints (one per key field), in frame order"""
    return [[int(x) for x in (k if isinstance(k, tuple) else (k,))] for k in df.index.tolist()]


def by_output(case, index, rows):
    """rows of a result frame re-ordered to the order of the case's output lists, matched by KEY (the k-th list
    stored under a key takes the k-th frame row reported under that key); None when the frame's keys are not
    exactly the output keys"""
    if len(index) != len(rows):
        return None
    pools: dict = {}
    for k, r in zip(index, rows):
        pools.setdefault(tuple(k), []).append(r)
    out = []
    for o in case["outputs"]:
        q = pools.get(tuple(o["key"]))
        if not q:
            return None
        out.append(q.pop(0))
    return None if any(pools.values()) else out


def run_impl(case):
    _setup()
    outs = ItemListCollection.empty(case["ofields"])
    for o in case["outputs"]:
        outs.add(_ilist(o["items"], "scores", case.get("dtype", "f8")), *o["key"])
    tst = ItemListCollection.empty(case["tfields"])
    for t in case["test"]:
        tst.add(_ilist(t["items"], "rating", case.get("dtype", "f8")), *t["key"])
    ra = RunAnalysis()
    labels = []
    for m in case["metrics"]:
        d = None if m["default"] is None else float(fparse(m["default"]))
        ra.add_metric(_metric(m), m["label"], d)
        labels.append(ra.metrics[-1].label)
    obs = {"labels": labels}
    if case.get("prelude"):
        pre = case["prelude"]
        po = ItemListCollection.empty(case["ofields"])
        for o in pre["outputs"]:
            po.add(_ilist(o["items"], "scores", case.get("dtype", "f8")), *o["key"])
        pt = ItemListCollection.empty(case["tfields"])
        for t in pre["test"]:
            pt.add(_ilist(t["items"], "rating", case.get("dtype", "f8")), *t["key"])
        try:
            ra.measure(po, pt)
            obs["prelude"] = "ok"
        except Exception as e:   # its outcome is irrelevant; what matters is the next run on the same object
            obs["prelude"] = type(e).__name__
    before = (_snapshot(outs, "score"), _snapshot(tst, "rating"))
    try:
        res = ra.measure(outs, tst)
    except ValueError as e:
        return {**obs, "error": 1, "msg": str(e)[:100]}
    except TypeError as e:
        return {**obs, "error": 2, "msg": str(e)[:100]}
    raw = res.list_metrics(fill_missing=False)
    filled = res.list_metrics()
    obs["error"] = 0
    obs["inputs_unchanged"] = before == (_snapshot(outs, "score"), _snapshot(tst, "rating"))
    res2 = ra.measure(outs, tst)   # a second reading of the same lists must give the same table
    raw2 = res2.list_metrics(fill_missing=False)
    a1, a2 = raw.to_numpy(dtype=float), raw2.to_numpy(dtype=float)
    g1, g2 = res.global_metrics().to_numpy(dtype=float), res2.global_metrics().to_numpy(dtype=float)
    obs["second_measure_equal"] = bool(a1.shape == a2.shape and np.array_equal(a1, a2, equal_nan=True)
                                       and g1.shape == g2.shape and np.array_equal(g1, g2, equal_nan=True)
                                       and _index(raw) == _index(raw2))
    obs["columns"] = list(raw.columns)
    # the frames as they are: index tuples (the output keys the rows are reported under) and rows, in frame order;
    # the oracle and the Coq term match them with the output lists KEY BY KEY, never by position alone
    obs["index_names"] = [None if x is None else str(x) for x in raw.index.names]
    obs["index"] = _index(raw)
    obs["raw"] = [[_num(v) for v in row] for row in raw.to_numpy(dtype=float).tolist()]
    obs["filled_index"] = _index(filled)
    obs["filled"] = [[_num(v) for v in row] for row in filled.to_numpy(dtype=float).tolist()]
    g = res.global_metrics()
    obs["global_labels"] = list(g.index)
    obs["globals"] = [_num(v) for v in g.to_numpy(dtype=float).tolist()]
    if len(raw.columns):
        s = res.list_summary()
        obs["summary_cols"] = list(s.columns)
        obs["summary"] = [[_num(v) for v in row] for row in s.to_numpy(dtype=float).tolist()]
        obs["summary_index"] = list(s.index)
        gb = case.get("group_by")
        if gb is not None:
            # summary per value of one key field: [key value, metric label] -> statistics
            gs = res.list_summary(gb)
            obs["grouped_cols"] = list(gs.columns)
            obs["grouped"] = [[int(ix[0]), str(ix[1]), [_num(v) for v in row]]
                              for ix, row in zip(gs.index.tolist(), gs.to_numpy(dtype=float).tolist())]
    else:
        obs["summary"], obs["summary_cols"], obs["summary_index"] = [], [], []
    # the metric's own per-list values, for the oracle
    direct = []
    for key, out in outs:
        tl = tst.lookup_projected(key)
        rowv = []
        for m in case["metrics"]:
            if m["kind"] in ("rmse", "mae", "fun"):
                if tl is None:
                    rowv.append("absent")
                else:
                    mm = _metric(m)
                    v = mm.measure_list(out, tl) if hasattr(mm, "measure_list") else mm(out, tl)
                    rowv.append(_num(v))
            elif m["kind"] == "deconly":
                rowv.append("absent" if tl is None else None)
        direct.append(rowv)
    obs["direct"] = direct
    return obs


# ---------------------------------------------------------------------------------------------
# model side
# ---------------------------------------------------------------------------------------------


def c_ilist(items):
    return clist(items, lambda iv: f"({cz(iv[0])}, {copt(None if iv[1] is None else fparse(iv[1]), cq)})")


def c_coll(coll):
    return clist(coll, lambda e: f"({clist(e['key'], cz)}, {c_ilist(e['items'])})")


def c_metric(m):
    d = "None" if m["default"] is None else f"(Some {cq(fparse(m['default']))})"
    disp = {"error": "DError", "ignore": "DIgnore"}
    k = m["kind"]
    if k in ("rmse", "mae"):
        return f"({k}_metric {disp[m['ms']]} {disp[m['mt']]} {d})"          # ListMetric.default is None
    dd = d if m["default"] is not None else "(Some 0)"                       # _wrap_metric: 0.0
    return {"fun": f"(fun_metric {dd})", "deconly": f"(deconly_metric {dd})", "global": f"(global_metric {dd})"}[k]


def c_tbl(rows):
    return clist(rows, lambda r: clist(r, lambda v: copt(None if v is None else fparse(v), cq)))


def coq_term(case, obs):
    TOL = "tol32" if case.get("dtype", "f8") == "f4" else "tol64"   # float32 lists are summed in float32
    allf = sorted(set(case["ofields"]) | set(case["tfields"]))
    fid = {f: i for i, f in enumerate(allf)}
    of = clist([fid[f] for f in case["ofields"]], cnat)
    tf = clist([fid[f] for f in case["tfields"]], cnat)
    ms = clist(case["metrics"], c_metric)
    m = f"(measure {of} {tf} {ms} outs {c_coll(case['test'])})"
    oc = c_coll(case["outputs"])
    if obs["error"]:
        return f"(let outs := {oc} in agree_analysis_keyed {TOL} outs {m} {cnat(obs['error'])} [] [] [] [])"
    if obs.get("filled_index", obs["index"]) != obs["index"] or obs["index_names"] != list(case["ofields"]):
        return "false"
    # the frame in frame order with its index: matched key by key inside Coq (Model: agree_keyed)
    t1 = (f"(let outs := {oc} in agree_analysis_keyed {TOL} outs {m} 0%nat {clist(obs['index'], lambda k: clist(k, cz))} "
          f"{c_tbl(obs['raw'])} {c_tbl(obs['filled'])} {clist(obs['globals'], lambda v: copt(None if v is None else fparse(v), cq))})")
    ncol = len(obs["columns"])
    cols = [[r[k] for r in obs["filled"]] for k in range(ncol)]
    order = {"mean": 0, "median": 1, "std": 2}
    if ncol == 0:
        return t1
    if obs["summary_cols"] != ["mean", "median", "std"] or obs["summary_index"] != obs["columns"]:
        return "false"
    t2 = f"agree_summary {TOL} {c_tbl(cols)} {c_tbl(obs['summary'])}"
    return f"{t1} && ({t2})"


# ---------------------------------------------------------------------------------------------
# the property as a predicate on implementation output (independent of the Coq model)
# ---------------------------------------------------------------------------------------------


def _close(a, b, rel=1e-9):
    if a is None or b is None:
        return a is None and b is None
    return abs(a - b) <= rel * max(1.0, abs(b))


def _pairs(out, tl):
    t = {i: v for i, v in tl["items"]}
    return [(fparse(s), fparse(t[i])) for i, s in out["items"] if s is not None and t.get(i) is not None]


def _defn(kind, pairs):
    if not pairs:
        return None
    if kind == "rmse":
        return math.sqrt(sum((p - t) ** 2 for p, t in pairs) / len(pairs))
    return float(sum(abs(p - t) for p, t in pairs) / len(pairs))


def _policy_error(m, out, tl):
    o = {i: v for i, v in out["items"]}
    t = {i: v for i, v in tl["items"]}
    ids = set(o) | set(t)
    miss_s = any(o.get(i) is None and t.get(i) is not None for i in ids)
    miss_t = any(t.get(i) is None and o.get(i) is not None for i in ids)
    return (m["ms"] == "error" and miss_s) or (m["mt"] == "error" and miss_t)


def oracle(case, obs):
    v = []
    rel = 1e-5 if case.get("dtype", "f8") == "f4" else 1e-9

    def _close(a, b, rel=rel):
        if a is None or b is None:
            return a is None and b is None
        return abs(a - b) <= rel * max(1.0, abs(b))

    of, tf = case["ofields"], case["tfields"]
    if any(f not in of for f in tf):
        if obs["error"] != 2:
            v.append(("projection-missing-field", "test key field absent from output keys did not raise TypeError"))
        return v
    tmap = {}
    for t in case["test"]:
        tmap[tuple(t["key"])] = t
    tests = [tmap.get(tuple(o["key"][of.index(f)] for f in tf)) for o in case["outputs"]]
    pm = [m for m in case["metrics"] if m["kind"] in ("rmse", "mae")]
    must_raise = any(tl is not None and _policy_error(m, o, tl) for o, tl in zip(case["outputs"], tests) for m in pm)
    if must_raise:
        if obs["error"] != 1:
            v.append(("error-policy-not-raised", "a pair missing one side under the 'error' disposition did not raise"))
        return v
    if obs["error"]:
        v.append(("spurious-error", f"measure raised although the policies allow every list: {obs.get('msg')}"))
        return v
    if not obs.get("inputs_unchanged", True):
        v.append(("inputs-mutated", "measure() changed the scores or ratings of the lists it was given"))
    if not obs.get("second_measure_equal", True):
        v.append(("second-measure-differs", "measuring the same collections a second time gave a different per-list table or different run-level values"))
    tm = [m for m in case["metrics"] if m["kind"] != "global"]
    # the frame is read KEY BY KEY: row r below is the row reported under the key of output list r
    okeys = [o["key"] for o in case["outputs"]]
    if obs.get("index_names") != list(of):
        v.append(("index-names", f"the per-list frame's index is named {obs.get('index_names')}, the output key fields are {of}"))
    raw = by_output(case, obs["index"], obs["raw"])
    filled = by_output(case, obs.get("filled_index", obs["index"]), obs["filled"])
    if raw is None or filled is None:
        v.append(("index-keys", f"the per-list frame is indexed by {obs['index']}, the output keys are {okeys}"))
        return v
    for r, (o, tl) in enumerate(zip(case["outputs"], tests)):
        at = f"output key {dict(zip(of, o['key']))}: "
        for c, m in enumerate(tm):
            cellv = raw[r][c]
            cell = None if cellv is None else float(fparse(cellv))
            if tl is None:
                if cell is not None:
                    v.append((f"value-without-test:{m['kind']}", at + "a per-list value was reported for an output with no test list"))
                continue
            d = obs["direct"][r][c]
            if m["kind"] in ("rmse", "mae"):
                want = _defn(m["kind"], _pairs(o, tl))
                if not _close(cell, want):
                    v.append((f"list-value:{m['kind']}", at + f"per-list {m['kind']} {cell} differs from its definition over both-present pairs {want}"))
                dv = None if d in (None, "absent") else float(fparse(d))
                if not _close(cell, dv):
                    v.append((f"list-vs-measure_list:{m['kind']}", at + f"table cell {cell} differs from the metric's own measure_list {dv}"))
            elif m["kind"] == "fun":
                t = {i for i, _ in tl["items"]}
                want = float(sum(1 for i, _ in o["items"] if i in t))
                if not _close(cell, want):
                    v.append(("list-value:fun", at + f"function metric cell {cell} != {want}"))
            elif m["kind"] == "deconly":
                if cell is not None:
                    v.append(("list-value:deconly", "a decomposed-only metric without per-list value produced a cell"))
            # filled view
            fv = filled[r][c]
            fcell = None if fv is None else float(fparse(fv))
            dflt = m["default"]
            if dflt is None and m["kind"] not in ("rmse", "mae"):
                dflt = "0/1"
            want_f = cell if cell is not None else (None if dflt is None else float(fparse(dflt)))
            if not _close(fcell, want_f):
                v.append(("fill", f"filled cell {fcell} != {want_f} (raw {cell}, default {dflt})"))
    # rows without test data: filled view
    for r, tl in enumerate(tests):
        if tl is None:
            for c, m in enumerate(tm):
                dflt = m["default"]
                if dflt is None and m["kind"] not in ("rmse", "mae"):
                    dflt = "0/1"
                fv = filled[r][c]
                fcell = None if fv is None else float(fparse(fv))
                if not _close(fcell, None if dflt is None else float(fparse(dflt))):
                    v.append(("fill", f"row without test data: filled cell {fcell}, default {dflt}"))
    # pooled values
    gm = [m for m in case["metrics"] if m["kind"] in ("rmse", "mae", "deconly", "global")]
    for gi, m in enumerate(gm):
        gv = obs["globals"][gi]
        g = None if gv is None else float(fparse(gv))
        if m["kind"] in ("rmse", "mae"):
            pooled = [p for o, tl in zip(case["outputs"], tests) if tl is not None for p in _pairs(o, tl)]
            want = _defn(m["kind"], pooled)
            if not _close(g, want):
                v.append((f"pooled:{m['kind']}", f"run-level {m['kind']} {g} differs from the formula over pooled pairs {want}"))
    # summary statistics of the filled table
    for c, m in enumerate(tm):
        col = [float(fparse(r[c])) for r in obs["filled"] if r[c] is not None]
        want = [statistics.fmean(col) if col else None,
                statistics.median(col) if col else None,
                statistics.stdev(col) if len(col) > 1 else None]
        got = [None if x is None else float(fparse(x)) for x in obs["summary"][c]]
        if not all(_close(a, b, max(rel, 1e-7)) for a, b in zip(got, want)):
            v.append(("summary", f"summary {got} != statistics of the filled column {want}"))
    # summary per value of one key field: the statistics of the filled cells of the lists whose key has that value
    gb = case.get("group_by")
    if gb is not None and obs.get("grouped") is not None:
        if obs.get("grouped_cols") != ["mean", "median", "std"]:
            v.append(("grouped-summary", f"grouped summary has columns {obs.get('grouped_cols')}"))
        else:
            got = {(g, lbl): st for g, lbl, st in obs["grouped"]}
            gi = of.index(gb)
            for c, m in enumerate(tm):
                groups: dict = {}
                for o, row in zip(case["outputs"], filled):
                    groups.setdefault(o["key"][gi], []).append(row[c])
                for gval, cells in sorted(groups.items()):
                    col = [float(fparse(x)) for x in cells if x is not None]
                    want = [statistics.fmean(col) if col else None,
                            statistics.median(col) if col else None,
                            statistics.stdev(col) if len(col) > 1 else None]
                    st = got.pop((gval, obs["columns"][c]), None)    # a group with no value at all may be left out
                    have = [None, None, None] if st is None else [None if x is None else float(fparse(x)) for x in st]
                    if not all(_close(a, b, max(rel, 1e-7)) for a, b in zip(have, want)):
                        v.append(("grouped-summary", f"{gb}={gval}, {m['kind']}: summary {have} != statistics of the group's filled cells {want}"))
            if got:
                v.append(("grouped-summary", f"grouped summary has rows {sorted(got)} that belong to no output key / metric"))
    # dedupe by key
    seen, out = set(), []
    for k, w in v:
        if k not in seen:
            seen.add(k)
            out.append((k, w))
    return out


def nontrivial(case, obs):
    if obs.get("error"):
        return False
    with_test = sum(1 for r in obs["direct"] if "absent" not in r)
    has_pred = any(m["kind"] in ("rmse", "mae") for m in case["metrics"])
    ignored = any(v is None for o in case["outputs"] for _, v in o["items"]) or with_test < len(case["outputs"])
    return with_test >= 2 and has_pred and ignored


def counters(case, obs):
    yield "style=" + case["style"]
    yield "dtype=" + case.get("dtype", "f8")
    yield "prelude=" + str(obs.get("prelude", "none"))
    yield f"error={obs['error']}"
    yield f"lists={len(case['outputs'])}"
    yield f"key-fields={len(case['ofields'])}"
    ks = [tuple(o["key"]) for o in case["outputs"]]
    if len(ks) > 1:
        yield "key-order=" + ("sorted" if ks == sorted(ks) else "unsorted")
    if len(set(ks)) < len(ks):
        yield "duplicate-output-keys"
    tmap = {}
    for o in case["outputs"]:
        for t in case["test"]:
            if all(f in case["ofields"] for f in case["tfields"]) and t["key"] == [o["key"][case["ofields"].index(f)] for f in case["tfields"]]:
                tv = dict((i, x) for i, x in t["items"])
                if any(x is None and tv.get(i) is None for i, x in o["items"]):
                    tmap[tuple(o["key"])] = True
    if tmap:
        yield "item-missing-on-both-sides"
        if not obs["error"] and any(m["kind"] in ("rmse", "mae") and m["ms"] == "error" and m["mt"] == "error" for m in case["metrics"]):
            yield "item-missing-on-both-sides:error/error-measured"
    if not obs["error"] and obs.get("grouped") is not None:
        yield "grouped-summary"
    for m in case["metrics"]:
        yield "metric=" + m["kind"]
    if not obs["error"]:
        yield "absent-test-rows=" + str(min(3, sum(1 for r in obs["direct"] if "absent" in r)))
        if any(not o["items"] for o in case["outputs"]):
            yield "has-empty-output-list"
        if case["outputs"] and not case["outputs"][-1]["items"]:
            yield "last-list-empty"


def sample(case, obs):
    return {"case": case, "observation": {k: obs.get(k) for k in ("error", "columns", "raw", "filled", "globals", "summary")}}


_shrunk = 0


def shrink(case, fails):
    global _shrunk
    _shrunk += 1
    if _shrunk > 5:          # cap the cost of a run in which many cases fail
        return case
    c = dict(case)
    c["outputs"] = common.shrink_list(case["outputs"], lambda xs: bool(xs) and fails({**c, "outputs": xs}), 40)
    c["metrics"] = common.shrink_list(case["metrics"], lambda xs: bool(xs) and fails({**c, "metrics": xs}), 20)
    c["test"] = common.shrink_list(case["test"], lambda xs: fails({**c, "test": xs}), 40)
    return c
