"""C03 -- standard pipelines return exactly the top-n unseen candidates, best first (DESIGN.md section 4, C03)."""

from __future__ import annotations

import math
from fractions import Fraction

import common
from common import cbool, clist, copt, cq, cz, fjson, fparse, frac_of_float
from framework import TranslateError  # noqa: F401

PID = "C03"
PROPS_FILE = "Props/C03.v"
GEN_FILES = ["Gen/C03_len.v", "Gen/C03_wiring.v"]
MODEL_FILES = ["Model/C03_pipeline.v", "Model/C03_graph.v"]
ALLOWED_AXIOMS: list[str] = []
CASE_HEADER = ("From Coq Require Import ZArith QArith.\n"
               "From LK Require Import Lib.QLib Lib.PyInt Lib.TopN Gen.C03_len Model.C03_pipeline Model.C03_graph Gen.C03_wiring.\nOpen Scope Z_scope.")
TRUSTED = [
    "Coq 8.16.1 kernel + vm_compute (no native_compute); Print Assumptions of every theorem in Props/C03.v: closed under the global context",
    "translator harness/translate/c03.py (+ pyq.py helpers): Python ast -> Gallina (Lib/PyInt.v combinators) for TopNRanker.__call__'s length "
    "resolution and the branch structure of stats.argtopn; the NaN-mask recursion and the partition / full-sort branch bodies of argtopn are "
    "matched textually (any edit there fails closed)",
    "translator of pipeline/common.py (same file): RecPipelineBuilder.build and predict_pipeline are executed on an abstract builder for every "
    "combination of their flags into Gen/C03_wiring.v (node, component, parameter <- node); unknown statements, node names, parameters, component "
    "expressions or conditions fail closed; RecPipelineBuilder.__init__ / scorer / ranker / predicts_ratings and topn_pipeline are matched textually; "
    "a prediction transform is walked but not modelled; the generated wiring is also compared in Coq with the connections every built pipeline "
    "object reports (node_input_connections, config.aliases, config.default)",
    "hand-written model of RecQuery.create, UserTrainingHistoryLookup, UnratedTrainingItemsCandidateSelector, the generic wiring interpreter "
    "(Model/C03_graph.v), train() = replace the held data (Model/C03_pipeline.v: after), several objects in one process = each decided by its own "
    "events (own / after_in: no component instance is shared between pipeline objects) "
    "and FallbackScorer (Model/C03_pipeline.v), tied by correspondence cases evaluated "
    "inside Coq: candidates, looked-up history and fallback merge compared exactly, the (candidates, scorer output, ranking) triple of one "
    "run_all handed to the verified checker rec_ok_b; floats converted to exact rationals, no tolerance",
    "library contracts not verified: numpy argsort/argpartition (only their result is checked, per case), pandas reindex, the pipeline runner "
    "(C02), Vocabulary order = sorted identifiers (C01), scorers return the items they were given in the same order (C04), ItemList.__getitem__ "
    "with an integer position array returns the rows at those positions in that order whatever the list's flags / fields (its result is "
    "checked, per case, for every representation of a supplied candidate list; the translator fails closed when __getitem__ re-binds its "
    "selector to anything but an array conversion of itself)",
]
ASSUMPTIONS = [
    "item vocabulary has no repeated identifier; caller-supplied candidate lists are duplicate-free (property quantifier)",
    "scores are finite or NaN",
    "configured length 0 and run-time length 0 are outside the claim (the model still follows the code there: 0 configured = unlimited, 0 at run time = empty)",
]
RULE = ("structured generator: datasets of 2-10 users x 3-15 items (users with empty / partial / full histories, items nobody rated, integer or "
        "string identifiers), a scorer (PopScorer x3 modes, BiasScorer, KnownRatingScorer x2, ItemKNNScorer x2, synthetic hash scorer with ties "
        "and 0-75% NaN, float32 or float64) in topn_pipeline / RecPipelineBuilder / predict_pipeline with or without rating prediction and "
        "fallback, a query (bare id, RecQuery(id), RecQuery(id, training row) -- all three are run --, occasionally None or a history item list) "
        "for a known / unknown / empty / full-history user, candidates absent or supplied (distinct, may contain unknown and seen items), "
        "configured n and run-time n in {None, -1, 1..20}; malformed stream: scorer without score field, predict_pipeline without items, "
        "run-time n = 0.  Every case is additionally run with several nodes requested from ONE run (rating-predictor then recommender, the "
        "reverse, and run_all() of every node) and with every component node on its own: each requested output must satisfy the property against "
        "the scoring model's own output, and every node must hold after a run what it produces on its own (no consumer alters a shared output).  Life cycle: 2 of 5 pipelines have an earlier life -- the SAME object was trained on 1-2 other data sets over the same identifier universe (users / items kept, dropped, new; other histories) and asked for every user of both data sets, then trained on the case's data; all observations (history, candidates, every query form, predictions) are compared with the case's data alone.  The scoring model and the fallback model are also called on their own (the component object, the query with the user's current training row, the candidate items) and the pipeline's scorer output and every prediction for an item without a primary score are compared with that, item by item; pipelines with a fallback get NaN-heavy primaries and supplied candidates mixing seen, unseen and unknown items.  Catalogue size: every run adds two medium (hundreds to thousands of items) and two large catalogues (>= 10^4 items, and at or above every "
        "integer constant <= 30000 that stats.argtopn / TopNRanker / the candidate selector compare a length with -- read from the source under test), "
        "candidates from the selector or a supplied list of that size, requested lengths from 1 over N/16 to beyond N, scoring models that can score "
        "fewer than n, about n, or many more than n of the candidates (synthetic scorer with a NaN share up to 4095/4096, KnownRatingScorer, ItemKNN; "
        "a dense model on the large catalogue is checked by the oracle alone).  Representation of supplied candidates: identifier list / unordered "
        "ItemList, NumPy array, ItemList flagged ordered, with a rank field, with stale scores of another model, or shaped like the output of an "
        "earlier recommendation stage (ordered, ranked, that stage's scores best-first) -- the same form goes to run_all and to lenskit.recommend / "
        "predict.  Several pipelines in one process: 1 of 3 pipelines has 1-2 OTHER standard pipelines (topn_pipeline / RecPipelineBuilder / "
        "predict_pipeline, own scorer) built and trained on their own data (same identifier universe, usually a smaller catalogue) before the case's "
        "pipeline is built or after it has been trained; all objects stay alive, every one is asked only after all have been trained, and each must "
        "answer from its own training data (candidates of every asked user compared exactly, in Python and against `own k <process history>` in Coq).  "
        "non-trivial = no error, >= 3 candidates, a non-empty ranking that leaves out at least one candidate; distinct = by hash of the case")


def translate():
    from translate import c03 as t
    from translate.pyq import TranslateError as TE
    try:
        return t.translate(common.SRC)
    except TE as e:
        raise TranslateError(str(e))


# ---------------------------------------------------------------------------------------------
# generator
# ---------------------------------------------------------------------------------------------

N_VALUES = [None, -1] + list(range(1, 21))


def gen_n(rng):
    return rng.weighted([(None, 5), (-1, 3), (1, 2), (2, 3), (3, 3), (5, 2), (8, 2), (12, 1), (20, 1), (rng.randint(1, 20), 3)])


def gen_dataset(rng):
    nu, ni = rng.randint(2, 10), rng.randint(3, 15)
    users = sorted(rng.sample(list(range(1, 31)), nu))
    items = sorted(rng.sample(list(range(1, 41)), ni))
    dens = rng.choice([1, 2, 3, 5, 7])
    ratings = []
    for u in users:
        cls = rng.weighted([("some", 7), ("empty", 2), ("full", 1)])
        for i in items:
            if cls == "full" or (cls == "some" and rng.chance(dens, 8)):
                ratings.append([u, i, fjson(Fraction(rng.randint(1, 10), 2))])
    if len(ratings) < 3:
        ratings = [[users[0], items[0], "4/1"], [users[0], items[1], "5/2"], [users[1], items[0], "3/1"]]
    return {"users": users, "items": items, "ratings": ratings, "strids": rng.chance(1, 4)}


def gen_scorer(rng, allow_bad=False):
    k = rng.weighted([("pop", 3), ("bias", 3), ("known", 2), ("iknn", 2), ("synth", 8)])
    if k == "pop":
        return {"kind": "pop", "score": rng.choice(["quantile", "rank", "count"])}
    if k == "bias":
        return {"kind": "bias", "damping": rng.choice([0, 5])}
    if k == "known":
        return {"kind": "known", "score": rng.choice([None, "indicator"])}
    if k == "iknn":
        return {"kind": "iknn", "k": rng.randint(1, 5), "feedback": rng.choice(["explicit", "implicit"])}
    return {"kind": "synth", "seed": rng.below(1000), "levels": rng.choice([1, 2, 3, 4, 8]), "nan_num": rng.choice([0, 0, 1, 3, 6]),
            "mode": rng.choice(["item", "user", "hist"]), "f32": rng.chance(1, 3), "scores": not (allow_bad and rng.chance(1, 2))}


def gen_pipe(rng, malformed):
    kind = rng.weighted([("topn", 5), ("builder", 3), ("predict", 2)])
    p = {"kind": kind, "cfg_n": gen_n(rng), "scorer": gen_scorer(rng, allow_bad=malformed), "fallback": None}
    if kind == "topn":
        p["predicts"] = rng.choice([False, True, "raw"])
    elif kind == "builder":
        p["predicts"] = rng.choice([False, "custom", "raw"])
        if p["predicts"] == "custom":
            p["fallback"] = gen_scorer(rng) if rng.chance(2, 3) else {"kind": "bias", "damping": 0}
    else:
        p["predicts"] = rng.choice([True, False, "custom"])
        if p["predicts"] == "custom":
            p["fallback"] = gen_scorer(rng)
    if p["predicts"] in (True, "custom") and p["scorer"].get("scores", True) and rng.chance(1, 2):
        # rating prediction with a fallback: a primary that leaves many gaps, so the merge is exercised item by item
        p["scorer"] = rng.weighted([
            ({"kind": "synth", "seed": rng.below(1000), "levels": rng.choice([2, 4, 8]), "nan_num": rng.choice([3, 5, 6, 7]),
              "mode": rng.choice(["item", "user", "hist"]), "f32": rng.chance(1, 3), "scores": True}, 4),
            ({"kind": "known", "score": rng.choice([None, "indicator"])}, 1),
            ({"kind": "iknn", "k": rng.randint(1, 3), "feedback": "explicit"}, 1)])
    return p


def gen_query(rng, ds, malformed):
    users, items = ds["users"], ds["items"]
    rated = {}
    for u, i, _ in ds["ratings"]:
        rated.setdefault(u, []).append(i)
    cls = rng.weighted([("known", 6), ("unknown", 2), ("empty", 2), ("full", 1)])
    pool = {
        "known": [u for u in users if 0 < len(rated.get(u, [])) < len(items)],
        "empty": [u for u in users if not rated.get(u)],
        "full": [u for u in users if len(rated.get(u, [])) == len(items)],
        "unknown": [u for u in range(1, 35) if u not in users],
    }[cls] or users
    u = rng.choice(pool)
    form = rng.weighted([("id", 10), ("none", 1), ("items", 1)]) if not malformed else rng.choice(["id", "none", "items"])
    q = {"form": form, "user": u}
    if form == "items":
        q["hist"] = sorted(rng.subset(items + [77], 1, 3))
    return q


def gen_items(rng, ds, q, often=False):
    if rng.chance(1, 4 if often else 2):
        return None
    items = ds["items"]
    pool = items + [i for i in range(41, 46)]       # 41..45 are never in the vocabulary
    k = rng.randint(0, min(len(pool), 12))
    return rng.sample(pool, k)


def gen_prior(rng, ds):
    """The earlier life of the pipeline object: 1-2 phases, each = train() on other data over the same
    identifier universe (users / items of `ds` kept, dropped or new; histories drawn afresh), then queries
    for the users of both data sets and a few unknown ones.  The case itself then trains the SAME object
    on `ds` and everything is compared against `ds` alone."""
    phases = []
    for _ in range(rng.weighted([(1, 3), (2, 1)])):
        users = [u for u in ds["users"] if rng.chance(3, 4)]
        users += rng.sample([u for u in range(1, 31) if u not in ds["users"]], rng.randint(0, 2))
        items = [i for i in ds["items"] if rng.chance(3, 4)]
        items += rng.sample([i for i in range(1, 41) if i not in ds["items"]], rng.randint(0, 3))
        if len(users) < 2:
            users = list(ds["users"][:2])
        if len(items) < 3:
            items = list(ds["items"][:3])
        users, items = sorted(set(users)), sorted(set(items))
        dens = rng.choice([2, 3, 5, 7])
        ratings = []
        for u in users:
            cls = rng.weighted([("some", 7), ("empty", 2), ("full", 1)])
            for i in items:
                if cls == "full" or (cls == "some" and rng.chance(dens, 8)):
                    ratings.append([u, i, fjson(Fraction(rng.randint(1, 10), 2))])
        if len(ratings) < 3:
            ratings = [[users[0], items[0], "4/1"], [users[0], items[1], "5/2"], [users[1], items[0], "3/1"]]
        both = sorted(set(users) | set(ds["users"]))
        asked = rng.shuffle(both + rng.sample([u for u in range(1, 35) if u not in both], 2))[:14]
        phases.append({"ds": {"users": users, "items": items, "ratings": ratings, "strids": ds["strids"]}, "users": asked})
    return phases


ITEM_FORMS = ("ids", "array", "ordered", "ranked", "scored", "prev")


def gen_items_form(rng):
    """How a supplied candidate list reaches the pipeline: identifiers only (a list / an unordered ItemList), a NumPy array,
    an ItemList flagged ordered, one carrying a rank field, one carrying (stale) scores of some other model, or what an earlier
    recommendation stage returns (ordered, ranks, that stage's scores in non-increasing order)."""
    return rng.weighted([("ids", 5), ("array", 1), ("ordered", 3), ("ranked", 2), ("scored", 1), ("prev", 3)])


def gen_siblings(rng, ds):
    """Other standard pipelines alive in the same process: each is built with the standard helpers and trained on its own
    data (same identifier universe, often a SMALLER catalogue, other histories) either before the case's pipeline is built or
    after it has been trained; every object is asked only after all of them have been trained."""
    sibs = []
    for _ in range(rng.weighted([(1, 3), (2, 1)])):
        keep = rng.choice([1, 2, 3])
        users = [u for u in ds["users"] if rng.chance(3, 4)]
        users += rng.sample([u for u in range(1, 31) if u not in ds["users"]], rng.randint(0, 2))
        items = [i for i in ds["items"] if rng.chance(keep, 4)]
        items += rng.sample([i for i in range(1, 41) if i not in ds["items"]], rng.randint(0, 2))
        if len(users) < 2:
            users = list(ds["users"][:2])
        if len(items) < 3:
            items = list(ds["items"][:3])
        users, items = sorted(set(users)), sorted(set(items))
        dens = rng.choice([2, 3, 5])
        ratings = []
        for u in users:
            for i in items:
                if rng.chance(dens, 8):
                    ratings.append([u, i, fjson(Fraction(rng.randint(1, 10), 2))])
        if len(ratings) < 3:
            ratings = [[users[0], items[0], "4/1"], [users[0], items[1], "5/2"], [users[1], items[0], "3/1"]]
        scorer = rng.weighted([({"kind": "pop", "score": "count"}, 1), ({"kind": "bias", "damping": 0}, 1),
                               ({"kind": "synth", "seed": rng.below(1000), "levels": 4, "nan_num": rng.choice([0, 2]), "mode": "item",
                                 "f32": False, "scores": True}, 3)])
        both = sorted(set(users) | set(ds["users"]))
        asked = rng.shuffle(both + rng.sample([u for u in range(1, 35) if u not in both], 1))[:6]
        sibs.append({"when": rng.choice(["before", "after", "after"]), "kind": rng.weighted([("topn", 3), ("builder", 2), ("predict", 1)]),
                     "scorer": scorer, "ds": {"users": users, "items": items, "ratings": ratings, "strids": ds["strids"]}, "users": asked})
    return sibs


def size_thresholds():
    """catalogue sizes at which the ranking path changes its behaviour, read from the source under test"""
    try:
        from translate import c03 as t
        return t.size_constants(common.SRC)
    except Exception:  # noqa: BLE001
        return []


def gen_big_cases(rng, tier):
    """Catalogue SIZE as a dimension: per run two (thorough: four) medium (hundreds to thousands of items) and as many large catalogues (>= 10^4 items,
    and at or above every size threshold <= 30000 found in the ranking path of the source), candidates from the selector (so the
    ranker sees nearly the whole catalogue) or a supplied list of that size; requested lengths from 1 to beyond the catalogue;
    scoring models that can score only a handful of the candidates (fewer than n, about n, more than n) or most of them."""
    ths = [t for t in size_thresholds() if t <= 30000]
    med, big = [t for t in ths if t < 5000], [t for t in ths if t >= 5000]
    sizes = []
    for k in range(2 if tier == "quick" else 4):
        m = rng.choice(med) if med else rng.randint(400, 2000)
        b = max(big) if big else 10000
        sizes += [("medium", m + rng.randint(0, max(m // 4, 8))), ("large", b + rng.randint(0, b // 4))]
    out = []
    for d, (cls, N) in enumerate(sizes):
        r = rng.fork(("big", d))
        items = list(range(1, N + 1))
        users = [1, 2, 3, 4]
        ratings = []
        for u, cnt in ((1, r.randint(1, 12)), (2, 0), (3, r.randint(20, 60)), (4, r.randint(1, 4))):
            for i in sorted(r.sample(items[: 4 * N // 5], cnt)):
                ratings.append([u, i, fjson(Fraction(r.randint(1, 10), 2))])
        ds = {"users": users, "items": items, "ratings": ratings, "strids": False, "size": cls}
        ns = [None, -1, 1, 2, 3, 5, 10, 20, 50, 100, max(N // 16 - 1, 1), N // 16, N // 16 + 1, N // 2, N + 5]
        for pi in range(3):
            dense = cls == "medium" and pi == 2 or cls == "large" and pi == 2 and r.chance(1, 2)
            if dense:
                scorer = r.weighted([({"kind": "synth", "seed": r.below(1000), "levels": r.choice([2, 8]), "nan_num": r.choice([0, 3]), "nan_den": 8,
                                       "mode": "item", "f32": r.chance(1, 3), "scores": True}, 3),
                                     ({"kind": "pop", "score": r.choice(["quantile", "rank", "count"])}, 1), ({"kind": "bias", "damping": 0}, 1)])
            else:
                den = 4096
                scorer = r.weighted([({"kind": "synth", "seed": r.below(1000), "levels": r.choice([1, 3, 8]), "nan_num": den - r.choice([1, 3, 10, 40, 160, 600]),
                                       "nan_den": den, "mode": r.choice(["item", "user"]), "f32": r.chance(1, 3), "scores": True}, 5),
                                     ({"kind": "known", "score": None}, 1), ({"kind": "iknn", "k": r.randint(1, 3), "feedback": "explicit"}, 1)])
            kind = r.weighted([("topn", 3), ("builder", 2)])
            pipe = {"kind": kind, "cfg_n": r.choice(ns), "scorer": scorer, "fallback": None,
                    "predicts": r.weighted([(False, 4), ("raw", 1)])}
            for qi in range(2):
                u = r.weighted([(1, 3), (4, 2), (2, 1), (3, 1), (17, 1)])
                items_sup = None
                if r.chance(1, 5):
                    # the whole catalogue in another order (rotated, a few transpositions) with two unknown items put in
                    k = r.randint(1, N - 1)
                    items_sup = items[k:] + items[:k]
                    for _ in range(r.randint(0, 6)):
                        a, b = r.below(N), r.below(N)
                        items_sup[a], items_sup[b] = items_sup[b], items_sup[a]
                    for x in (N + 7, N + 9):
                        items_sup.insert(r.below(N), x)
                out.append({"ds": ds, "pipe": pipe, "query": {"form": "id", "user": u}, "items": items_sup,
                            "items_form": gen_items_form(r) if items_sup is not None else "ids",
                            "run_n": r.choice(ns), "style": "valid"})
    return out


def gen_cases(rng, tier):
    nds = 70 if tier == "quick" else 500
    out = []
    for d in range(nds):
        r = rng.fork(d)
        ds = gen_dataset(r)
        for pi in range(3):
            malformed = (d * 3 + pi) % 9 == 8
            pipe = gen_pipe(r, malformed)
            if not malformed and r.chance(2, 5):
                pipe["prior"] = gen_prior(r.fork(("prior", pi)), ds)
            rs = r.fork(("siblings", pi))
            if not malformed and rs.chance(1, 3):
                pipe["siblings"] = gen_siblings(rs, ds)
            for qi in range(3):
                q = gen_query(r, ds, malformed)
                items = gen_items(r, ds, q, often=pipe["predicts"] in (True, "custom"))
                if pipe["kind"] == "predict" and items is None and not (malformed and r.chance(1, 3)):
                    items = r.sample(ds["items"] + [41, 42], r.randint(1, min(8, len(ds["items"]))))
                run_n = gen_n(r)
                if malformed and r.chance(1, 4):
                    run_n = 0
                form = gen_items_form(r.fork(("items-form", pi, qi))) if items is not None else "ids"
                out.append({"ds": ds, "pipe": pipe, "query": q, "items": items, "items_form": form, "run_n": run_n,
                            "style": "malformed" if malformed else "valid"})
    return gen_big_cases(rng.fork("catalogue-size"), tier) + out


# ---------------------------------------------------------------------------------------------
# implementation driver
# ---------------------------------------------------------------------------------------------

_ready = False
_cache: dict = {}


def _setup():
    global _ready, np, pd, L
    if _ready:
        return
    common.use_repo()
    import types

    import structlog
    structlog.configure(wrapper_class=structlog.make_filtering_bound_logger(50), logger_factory=structlog.ReturnLoggerFactory())

    import numpy as np
    import pandas as pd
    L = types.SimpleNamespace()
    from lenskit.basic import BiasScorer, PopScorer
    from lenskit.basic.history import KnownRatingScorer
    from lenskit.data import DatasetBuilder, ItemList, RecQuery
    from lenskit.knn import ItemKNNScorer
    from lenskit.operations import predict, recommend, score
    from lenskit.pipeline import PipelineError, RecPipelineBuilder, predict_pipeline, topn_pipeline

    import c03_synth
    for k, v in dict(locals()).items():
        setattr(L, k, v)
    _ready = True


def _iid(ds, i):
    return f"i{i:03d}" if ds["strids"] else i


def _uid(ds, u):
    return f"u{u:03d}" if ds["strids"] else u


def _back(ds, x):
    x = x.item() if hasattr(x, "item") else x
    return int(x[1:]) if ds["strids"] else int(x)


def _dataset(ds):
    b = L.DatasetBuilder()
    b.add_entities("user", [_uid(ds, u) for u in ds["users"]])
    b.add_entities("item", [_iid(ds, i) for i in ds["items"]])
    df = pd.DataFrame({
        "user_id": [_uid(ds, u) for u, _, _ in ds["ratings"]],
        "item_id": [_iid(ds, i) for _, i, _ in ds["ratings"]],
        "rating": [float(fparse(r)) for _, _, r in ds["ratings"]],
    })
    b.add_interactions("rating", df, entities=["user", "item"], missing="error", default=True)
    return b.build()


def _scorer(s):
    k = s["kind"]
    if k == "pop":
        return L.PopScorer(score=s["score"])
    if k == "bias":
        return L.BiasScorer(damping=s["damping"])
    if k == "known":
        return L.KnownRatingScorer(score=s["score"])
    if k == "iknn":
        return L.ItemKNNScorer(k=s["k"], min_nbrs=1, feedback=s["feedback"])
    return L.c03_synth.SynthScorer(seed=s["seed"], levels=s["levels"], nan_num=s["nan_num"], nan_den=s.get("nan_den", 8), mode=s["mode"], f32=s["f32"], scores=s["scores"])


def _build_sibling(sb):
    sc = _scorer(sb["scorer"])
    if sb["kind"] == "topn":
        pipe = L.topn_pipeline(sc)
    elif sb["kind"] == "builder":
        b = L.RecPipelineBuilder()
        b.scorer(sc)
        pipe = b.build()
    else:
        pipe = L.predict_pipeline(sc, fallback=False)
    pipe.train(_dataset(sb["ds"]))
    return pipe


def _pipeline(case):
    key = common.digest([case["ds"], case["pipe"]])
    if key in _cache:
        return _cache[key]
    if len(_cache) > 64:
        _cache.clear()
    ds = _dataset(case["ds"])
    p = case["pipe"]
    sibs = p.get("siblings") or []
    # other standard pipelines of this process that exist before this one is built
    sib_objs = {k: _build_sibling(sb) for k, sb in enumerate(sibs) if sb["when"] == "before"}
    sc = _scorer(p["scorer"])
    prior_obs = []
    if p["kind"] == "topn":
        pipe = L.topn_pipeline(sc, predicts_ratings=p["predicts"], n=p["cfg_n"])
    elif p["kind"] == "builder":
        b = L.RecPipelineBuilder()
        b.scorer(sc)
        b.ranker(n=p["cfg_n"])
        if p["predicts"] == "raw":
            b.predicts_ratings()
        elif p["predicts"] == "custom":
            b.predicts_ratings(fallback=_scorer(p["fallback"]))
        pipe = b.build()
    else:
        fb = p["predicts"] if p["predicts"] in (True, False) else _scorer(p["fallback"])
        pipe = L.predict_pipeline(sc, fallback=fb)
    # the earlier life of this very object: train on other data, answer queries, then train again
    for ph in p.get("prior") or []:
        pds = ph["ds"]
        pipe.train(_dataset(pds))
        ent = {}
        for k, u in enumerate(ph["users"]):
            uid = _uid(pds, u)
            q = uid if k % 2 == 0 else L.RecQuery(user_id=uid)
            try:
                if p["kind"] == "predict":
                    r = L.predict(pipe, q, [_iid(pds, i) for i in pds["items"]])
                else:
                    r = L.recommend(pipe, q)
                ent[str(u)] = [_back(pds, x) for x in r.ids()]
            except Exception as e:  # noqa: BLE001
                ent[str(u)] = _err(e)
        prior_obs.append(ent)
    pipe.train(ds)
    # ... and those built and trained afterwards; then every one of them is asked (all objects stay alive)
    for k, sb in enumerate(sibs):
        if sb["when"] != "before":
            sib_objs[k] = _build_sibling(sb)
    sib_obs = []
    for k, sb in enumerate(sibs):
        sds, ent = sb["ds"], {}
        for u in sb["users"]:
            try:
                if sb["kind"] == "predict":
                    r = L.predict(sib_objs[k], _uid(sds, u), [_iid(sds, i) for i in sds["items"]])
                    ent[str(u)] = {"pred": [_back(sds, x) for x in r.ids()]}
                else:
                    st = sib_objs[k].run_all("recommender", query=_uid(sds, u))
                    ent[str(u)] = {"cand": [_back(sds, x) for x in st["candidates"].ids()],
                                   "rec": [_back(sds, x) for x in st["recommender"].ids()]}
            except Exception as e:  # noqa: BLE001
                ent[str(u)] = {"err": _err(e)}
        sib_obs.append(ent)
    _cache[key] = (ds, pipe, prior_obs, sib_obs, sib_objs)
    return _cache[key]


def _num(x):
    x = float(x)
    if math.isinf(x):
        raise ValueError("infinite score (outside the stated assumptions)")
    return fjson(frac_of_float(x))


def _il(case, il):
    """ids (as Z) and scores (exact rationals, NaN -> None; None when there is no score field)."""
    ds = case["ds"]
    ids = [_back(ds, x) for x in il.ids()]
    s = il.scores()
    return {"ids": ids, "scores": None if s is None else [_num(v) for v in s.tolist()]}


def _query(case, form, dsobj):
    ds, q = case["ds"], case["query"]
    if form == "none":
        return None
    if form == "items":
        return L.ItemList(item_ids=[_iid(ds, i) for i in q["hist"]], rating=[((i % 9) + 1) / 2.0 for i in q["hist"]])
    u = _uid(ds, q["user"])
    if form == "id":
        return u
    if form == "qid":
        return L.RecQuery(user_id=u)
    if form == "qhist":
        return L.RecQuery(user_id=u, user_items=dsobj.user_row(u))
    raise AssertionError(form)


def _items(case, api=False):
    """the caller-supplied candidate list in the representation the case asks for (`api`: as handed to lenskit.recommend /
    predict, which also take bare identifier lists and arrays; otherwise as the `items` input of a pipeline run)"""
    if case["items"] is None:
        return None
    ids = [_iid(case["ds"], i) for i in case["items"]]
    form = case.get("items_form", "ids")
    k = len(ids)
    if form == "ids":
        return ids if api else L.ItemList(item_ids=ids)
    if form == "array":
        arr = np.array(ids) if ids else np.array([], dtype="U4" if case["ds"]["strids"] else np.int64)
        return arr if api else L.ItemList(item_ids=arr)
    if form == "ordered":
        return L.ItemList(item_ids=ids, ordered=True)
    if form == "ranked":
        return L.ItemList(item_ids=ids, rank=np.arange(1, k + 1, dtype=np.int32))
    stale = [((i * 7) % 5) / 2.0 + 1.0 for i in case["items"]]       # scores some other model gave, unrelated to this pipeline's
    if form == "scored":
        return L.ItemList(item_ids=ids, scores=np.array(stale, dtype=np.float64))
    if form == "prev":                                              # the output of an earlier stage: best first by ITS scores, ranked
        return L.ItemList(item_ids=ids, scores=np.array(sorted(stale, reverse=True), dtype=np.float64), ordered=True)
    raise AssertionError(form)


def _err(e):
    name = type(e).__name__
    msg = str(e)
    if isinstance(e, RuntimeError) and "no scores" in msg:
        return "ENoScores"
    if isinstance(e, L.PipelineError):
        return "EPipeline"
    if isinstance(e, TypeError):
        return "EType"
    return "E:" + name + ":" + msg[:80]


def has_rec(case):
    return case["pipe"]["kind"] != "predict"


def has_pred(case):
    p = case["pipe"]
    return p["kind"] == "predict" or p["predicts"] is not False


def has_fallback(case):
    p = case["pipe"]
    return p["predicts"] in (True, "custom")


def run_impl(case):
    _setup()
    dsobj, pipe, prior_obs, sib_obs, _ = _pipeline(case)
    obs = {"vocab": [_back(case["ds"], x) for x in dsobj.items.ids()], "prior": prior_obs, "siblings": sib_obs}
    form = case["query"]["form"]
    n = case["run_n"]

    def kwargs(f):
        kw = {"query": _query(case, f, dsobj)}
        it = _items(case)
        if it is not None:
            kw["items"] = it
        return kw

    # one run of everything: candidate list, scorer output, ranking, predictions
    nodes = (["recommender"] if has_rec(case) else []) + (["rating-predictor"] if has_pred(case) else [])
    st = {}
    errs = {}
    for node in nodes:
        kw = kwargs(form)
        if has_rec(case):
            kw["n"] = n
        try:
            s = pipe.run_all(node, **kw)
            for k in s.keys():
                st.setdefault((node, k), s[k])
            st[(node, node)] = s[node]
        except Exception as e:  # noqa: BLE001
            errs[node] = _err(e)
            kw.pop("n", None)
            try:                                 # what the run had computed up to the scorer
                s = pipe.run_all("scorer", **kw)
                for k in s.keys():
                    st.setdefault((node, k), s[k])
            except Exception:  # noqa: BLE001
                pass
    obs["errors"] = errs

    def node_val(name, prefer):
        for node in prefer:
            if (node, name) in st:
                return st[(node, name)]
        return None

    pref = nodes
    hq = node_val("history-lookup", pref)
    obs["hist_run"] = hq is not None            # False: no component asked for the looked-up query in this run
    obs["hist"] = None if hq is None or hq.user_items is None else [_back(case["ds"], x) for x in hq.user_items.ids()]
    cand = node_val("candidates", pref) if has_rec(case) else node_val("items", pref)
    obs["cand"] = None if cand is None else [_back(case["ds"], x) for x in cand.ids()]
    sc = node_val("scorer", pref)
    obs["scored"] = None if sc is None else _il(case, sc)
    if has_rec(case) and "recommender" not in errs:
        out = st[("recommender", "recommender")]
        obs["out"] = _il(case, out)
        obs["ordered"] = bool(out.ordered)
    if has_pred(case) and "rating-predictor" not in errs:
        obs["pred"] = _il(case, st[("rating-predictor", "rating-predictor")])
        fb = st.get(("rating-predictor", "fallback-predictor"))
        obs["fb"] = None if fb is None else _il(case, fb)
        # the scorer output of the prediction run (the same computation as the recommender's)
        obs["pred_primary"] = _il(case, st[("rating-predictor", "scorer")])

    # ---- every component node on its own (a run that requests only that node: no consumer has seen its
    # output), and several nodes requested from ONE run in both orders / all nodes: what each node holds
    # after such a run must be what the node produces on its own, and every requested output must be right
    def canon(v):
        if isinstance(v, L.ItemList):
            return {"t": "il", **_il(case, v)}
        if isinstance(v, L.RecQuery):
            return {"t": "q", "user": None if v.user_id is None else str(v.user_id),
                    "hist": None if v.user_items is None else [_back(case["ds"], x) for x in v.user_items.ids()]}
        return None

    def full_kw():
        kw = kwargs(form)
        if has_rec(case):
            kw["n"] = n
        return kw

    def snapshot(state):
        out = {}
        for k in state.keys():
            if k in ("query", "items", "n"):
                continue
            c = canon(state[k])
            if c is not None:
                out[k] = c
        return out

    orders = [[x] for x in nodes]
    if len(nodes) == 2:
        orders += [["rating-predictor", "recommender"], ["recommender", "rating-predictor"]]
    if case["items"] is not None and form != "none":
        orders.append([])                                  # run_all(): every node (needs every input: supplied items and a query)
    multi, names = [], set()
    for order in orders:
        ent = {"order": ",".join(order) or "all"}
        try:
            s = pipe.run_all(*order, **full_kw())
            ent["nodes"] = snapshot(s)
            names.update(ent["nodes"])
            for node in nodes:
                if node in order or not order:
                    v = s[node]
                    ent[node] = _il(case, v)
                    if node == "recommender":
                        ent["ordered"] = bool(v.ordered)
        except Exception as e:  # noqa: BLE001
            ent["err"] = _err(e)
        multi.append(ent)
    obs["multi"] = multi
    names.update(k for (_, k) in st if k not in ("query", "items", "n"))
    solo = {}
    for name in sorted(names):
        try:
            s = pipe.run_all(name, **full_kw())
            c = canon(s[name])
            if c is not None:
                solo[name] = c
        except Exception:  # noqa: BLE001
            pass
    obs["solo"] = solo
    if "scorer" in solo:
        # the scoring model's own output: taken from the run in which nothing but the scorer has seen it
        obs["scored"] = {"ids": solo["scorer"]["ids"], "scores": solo["scorer"]["scores"]}

    # ---- the scoring model and the fallback model on their own: the component object the pipeline holds,
    # called directly with the query as the property describes it (identifier + the user's row of the CURRENT
    # training data) and the candidate items as the property describes them -- no pipeline wiring involved
    direct = {}
    want = _expected_candidates(case)
    if not (case["pipe"]["kind"] == "predict" and case["items"] is None):
        for name in ("scorer", "fallback-predictor"):
            node = pipe.node(name, missing="none")
            comp = getattr(node, "component", None)
            if comp is None:
                continue
            try:
                if form == "none":
                    dq = L.RecQuery()
                elif form == "items":
                    dq = L.RecQuery(user_items=_query(case, "items", dsobj))
                else:
                    dq = _query(case, "qhist", dsobj)
                ids = [_iid(case["ds"], i) for i in want]
                direct[name] = _il(case, comp(query=dq, items=L.ItemList(item_ids=ids)))
            except Exception as e:  # noqa: BLE001
                direct[name] = {"err": _err(e)}
    obs["direct"] = direct

    # ---- the wiring of the built pipeline as its public interface reports it
    wiring = {"nodes": {}, "alias": {}}
    for node in pipe.nodes():
        conns = pipe.node_input_connections(node.name)
        wiring["nodes"][node.name] = sorted([k, v.name] for k, v in conns.items())
    for al in ("recommender", "rating-predictor"):
        nd = pipe.node(al, missing="none")
        if nd is not None:
            wiring["alias"][al] = nd.name
    wiring["default"] = getattr(pipe.config, "default", None)
    obs["wiring"] = wiring

    # the public entry points, for each form of the query
    forms = [form] + (["qid", "qhist"] if form == "id" else [])
    api = {}
    for f in forms:
        ent = {}
        if has_rec(case):
            try:
                r = L.recommend(pipe, _query(case, f, dsobj), n, _items(case, api=True))
                ent["rec"] = _il(case, r)
                ent["ordered"] = bool(r.ordered)
            except Exception as e:  # noqa: BLE001
                ent["rec_err"] = _err(e)
        if has_pred(case):
            try:
                it = _items(case, api=True)
                if it is None:
                    r = pipe.run("rating-predictor", query=_query(case, f, dsobj))
                else:
                    r = L.predict(pipe, _query(case, f, dsobj), it)
                ent["pred"] = _il(case, r)
            except Exception as e:  # noqa: BLE001
                ent["pred_err"] = _err(e)
        api[f] = ent
    obs["api"] = api
    return obs


# ---------------------------------------------------------------------------------------------
# model side
# ---------------------------------------------------------------------------------------------


def c_score(v):
    # `None` with its implicit argument left to unification costs time quadratic in the length of the list (a 10^4-row score
    # column took minutes to elaborate); with the type written out it is linear
    return "(@None Q)" if v is None else copt(fparse(v), cq)


def c_rows(il):
    sc = il["scores"] if il["scores"] is not None else [None] * len(il["ids"])
    return clist(list(zip(il["ids"], sc)), lambda p: f"({cz(p[0])}, {c_score(p[1])})")


def c_scores(sc):
    """a score column; long ones with runs of missing scores are written run by run (`nones k`)"""
    if len(sc) <= 64:
        return clist(sc, c_score)
    segs, run, lit = [], 0, []

    def flush_lit():
        if lit:
            segs.append(clist(lit, c_score))
            lit.clear()
    for x in list(sc) + ["end"]:
        if x is None:
            run += 1
            continue
        if run >= 8:
            flush_lit()
            segs.append(f"nones {run}")
        else:
            lit.extend([None] * run)
        run = 0
        if x != "end":
            lit.append(x)
    flush_lit()
    return "(" + " ++ ".join(segs) + ")" if segs else "[]"


def c_zlist(l):
    """an identifier list; in a long one runs of consecutive integers are written as ranges"""
    if len(l) <= 64:
        return clist(l, cz)
    segs, lit, i = [], [], 0
    while i < len(l):
        j = i
        while j + 1 < len(l) and l[j + 1] == l[j] + 1:
            j += 1
        if j - i + 1 >= 8:
            if lit:
                segs.append(clist(lit, cz))
                lit = []
            segs.append(f"zrange {cz(l[i])} {j - i + 1}")
        else:
            lit.extend(l[i:j + 1])
        i = j + 1
    if lit:
        segs.append(clist(lit, cz))
    return "(" + " ++ ".join(segs) + ")"


def c_ilist(il, ids=None):
    s = "None" if il["scores"] is None else "(Some " + c_scores(il["scores"]) + ")"
    return f"({ids or clist(il['ids'], cz)}, {s})"


def c_dataset(ds):
    rows = {u: [] for u in ds["users"]}
    for u, i, r in ds["ratings"]:
        rows[u].append((i, r))
    rs = clist(sorted(rows), lambda u: f"({cz(u)}, {clist(sorted(rows[u]), lambda p: f'({cz(p[0])}, {c_score(p[1])})')})")
    return f"{{| ds_items := {c_zlist(sorted(ds['items']))}; ds_rows := {rs} |}}"


def c_qinput(q):
    if q["form"] == "none":
        return "QNone"
    if q["form"] == "items":
        return "(QItems " + clist(q["hist"], lambda i: f"({cz(i)}, None)") + ")"
    return f"(QId {cz(q['user'])})"


def c_pyv(n):
    return copt(n, cz)


def c_events(case):
    """the life of the pipeline object up to the observed run: earlier train() calls with the queries answered in
    between, then train() on the case's data set"""
    p = case["pipe"]
    evs = []
    for ph in p.get("prior") or []:
        evs.append(f"Train {c_dataset(ph['ds'])}")
        sup = copt(sorted(ph["ds"]["items"]) if p["kind"] == "predict" else None, lambda l: clist(l, cz))
        evs += [f"Ask (QId {cz(u)}) {sup}" for u in ph["users"]]
    evs.append(f"Train {c_dataset(case['ds'])}")
    return evs


def c_world(case):
    """the process history: which pipeline object (0 = the case's, k + 1 = sibling k) each train() / query happened to"""
    sibs = case["pipe"].get("siblings") or []
    w = [f"({k + 1}%nat, Train {c_dataset(sb['ds'])})" for k, sb in enumerate(sibs) if sb["when"] == "before"]
    w += [f"(0%nat, {e})" for e in c_events(case)]
    w += [f"({k + 1}%nat, Train {c_dataset(sb['ds'])})" for k, sb in enumerate(sibs) if sb["when"] != "before"]
    return "[" + "; ".join(w) + "]"


COQ_COST = 500_000          # model-side steps (row comparisons) spent on the rankings of one case; a single ranking beyond it is left to the oracle alone


W_NAMES = {"query": "Nquery", "items": "Nitems", "n": "Nn", "history-lookup": "Nlookup", "candidate-selector": "Ncandsel",
           "candidates": "Ncandidates", "scorer": "Nscorer", "fallback-predictor": "Nfallback", "rating-merger": "Nmerger",
           "ranker": "Nranker", "recommender": "Nrecommender", "rating-predictor": "Npredictor"}
W_PARAMS = {"query": "Pquery", "items": "Pitems", "n": "Pn", "primary": "Pprimary", "backup": "Pbackup", "fallback": "Pfallback"}


def c_wiring(case, w):
    """the connections the built pipeline object reports against the wiring regenerated from pipeline/common.py"""
    p = case["pipe"]
    if p["kind"] == "predict":
        gen = f"(predict_wiring {cbool(p['predicts'] is not False)})"
    else:
        gen = f"(rec_wiring {cbool(p['predicts'] is not False)} {cbool(has_fallback(case))})"
    try:
        ins = [W_NAMES[k] for k, e in w["nodes"].items() if not e and k in ("query", "items", "n")]
        comps = [f"({W_NAMES[k]}, {clist(e, lambda x: f'({W_PARAMS[x[0]]}, {W_NAMES[x[1]]})')})" for k, e in w["nodes"].items()
                 if not (not e and k in ("query", "items", "n"))]
        al = [f"({W_NAMES[a]}, {W_NAMES[t]})" for a, t in w["alias"].items() if a != t]
        dflt = f"(w_default {gen})" if w.get("default") is None else copt(w["default"], lambda x: W_NAMES[x])   # not reported: not compared
    except KeyError:
        return "false"                                    # a node or parameter the model of the standard pipelines does not know
    return f"agree_wiring {gen} [{'; '.join(ins)}] [{'; '.join(comps)}] [{'; '.join(al)}] {dflt}"


def coq_term(case, obs):
    if obs["cand"] is None or obs["scored"] is None:
        # the run stopped before the scorer (predict_pipeline without items): nothing to compare
        return None
    p = case["pipe"]
    if p["kind"] == "predict" and case["items"] is None:
        return None
    nv = sum(1 for x in (obs["scored"]["scores"] or []) if x is not None)

    def rank_cost(out):         # steps of one agree_rank: insertion sort of the scored rows, order / membership / omission tests of the checker
        k = len(out["ids"])
        return nv * nv + k * k + k * len(obs["cand"]) + 2 * nv * k
    budget = [COQ_COST]
    if "out" in obs and rank_cost(obs["out"]) > budget[0]:
        return None             # a long list with most of it scored: the quadratic model-side sort / membership tests are not worth it
    parts = []
    # long values are bound once (the catalogue-size cases carry lists of >= 10^4 rows); a list that IS the candidate list, element by
    # element, is written by that name
    supplied = "(Some o_cand)" if case["items"] == obs["cand"] else copt(case["items"], lambda l: clist(l, cz))
    binds = [("o_w", "list wevent", c_world(case)), ("o_cand", "list Z", c_zlist(obs["cand"])),
             ("o_sc", "ilist", c_ilist(obs["scored"], ids="o_cand" if obs["scored"]["ids"] == obs["cand"] else None)),
             ("o_rows", "scored", "rows o_sc")]

    def il(v):                  # an observed item list; the scorer's own output by name when it is that very value
        return "o_sc" if (v["ids"], v["scores"]) == (obs["scored"]["ids"], obs["scored"]["scores"]) else c_ilist(v)

    c_hist = "(Some " + copt(obs["hist"], lambda l: clist(l, cz)) + ")" if obs["hist_run"] else "None"
    parts.append(f"agree_front_in 0 o_w {c_qinput(case['query'])} {supplied} {c_hist} o_cand (fst o_sc)")
    for k, (sb, ent) in enumerate(zip(p.get("siblings") or [], obs.get("siblings") or [])):
        for u in sb["users"]:
            got = ent.get(str(u), {})
            if "cand" in got:       # every other object answers from its own data, too
                parts.append(f"agree_front_in {k + 1} o_w (QId {cz(u)}) None None {clist(got['cand'], cz)} {clist(got['cand'], cz)}")
    if "wiring" in obs:
        parts.append(c_wiring(case, obs["wiring"]))
    cfg, run = c_pyv(p["cfg_n"]), c_pyv(case["run_n"])
    if has_rec(case):
        if "recommender" in obs["errors"]:
            e = obs["errors"]["recommender"]
            if e not in ("ENoScores", "EType", "EPipeline"):
                return "false"
            items = "None" if obs["scored"]["scores"] is None else "(Some o_rows)"
            parts.append(f"agree_err {items} {cfg} {run} {e}")
        elif obs["scored"]["scores"] is None:
            parts.append("false")
        else:
            budget[0] -= rank_cost(obs["out"])
            parts.append(f"agree_rank {cfg} {run} o_cand o_rows {c_rows(obs['out'])} {cbool(obs['ordered'])}")
    if has_pred(case) and "rating-predictor" not in obs["errors"]:
        parts.append(f"agree_pred {cbool(has_fallback(case))} {il(obs['pred_primary'])} "
                     f"{copt(obs['fb'], c_ilist)} {c_ilist(obs['pred'])}")
        parts.append(f"ilist_eqb {il(obs['pred_primary'])} o_sc")
        parts.append(f"agree_backup_items o_cand {copt(obs['fb'], c_ilist)}")
    elif has_pred(case):
        parts.append("false")
    # several nodes requested from one run: each requested output against the model, with the scorer's own output
    for ent in obs.get("multi", []):
        if "err" in ent or obs["scored"]["scores"] is None:
            continue
        if "recommender" in ent and rank_cost(ent["recommender"]) <= budget[0]:        # (as many of the multi-node runs as the cost cap allows)
            budget[0] -= rank_cost(ent["recommender"])
            parts.append(f"agree_rank {cfg} {run} o_cand o_rows {c_rows(ent['recommender'])} {cbool(ent['ordered'])}")
        if "rating-predictor" in ent:
            fbv = ent["nodes"].get("fallback-predictor")
            parts.append(f"agree_pred {cbool(has_fallback(case))} o_sc {copt(fbv, c_ilist)} {c_ilist(ent['rating-predictor'])}")
            parts.append(f"agree_backup_items o_cand {copt(fbv, c_ilist)}")
        sv = ent["nodes"].get("scorer")
        if sv is not None:
            parts.append(f"ilist_eqb {il(sv)} o_sc")       # the scorer's output is a value: nobody alters it
    body = " && ".join(f"({x})" for x in parts)
    for name, ty, val in reversed(binds):
        body = f"let {name} : {ty} := {val} in {body}"
    return body


# ---------------------------------------------------------------------------------------------
# the property as a predicate on implementation output (independent of the Coq model)
# ---------------------------------------------------------------------------------------------


def _expected_candidates(case):
    ds, q = case["ds"], case["query"]
    if case["items"] is not None:
        return list(case["items"])
    if q["form"] == "none":
        hist = None
    elif q["form"] == "items":
        hist = set(q["hist"])
    elif q["user"] in ds["users"]:
        hist = {i for u, i, _ in ds["ratings"] if u == q["user"]}
    else:
        hist = None
    return [i for i in sorted(ds["items"]) if hist is None or i not in hist]


def _n_eff(case):
    n = case["run_n"]
    if n is None:
        n = case["pipe"]["cfg_n"] or -1
    return n


def _rows(il):
    sc = il["scores"] if il["scores"] is not None else [None] * len(il["ids"])
    return list(zip(il["ids"], [None if s is None else fparse(s) for s in sc]))


def _check_ranking(v, tag, case, cand, scored, out, ordered):
    smap = dict(_rows(scored))
    rows = _rows(out)
    ids = [i for i, _ in rows]
    cset, idset = set(cand), set(ids)
    n = _n_eff(case)
    if not ordered:
        v.append((f"{tag}:not-ordered", "the recommendation list is not flagged as ordered"))
    if any(i not in cset for i in ids):
        v.append((f"{tag}:non-candidate", f"list contains {[i for i in ids if i not in cset][:20]} which are not candidates {_short(cand)}"))
    if len(set(ids)) != len(ids):
        v.append((f"{tag}:duplicate", f"duplicate items in {ids}"))
    if any(s is None for _, s in rows):
        v.append((f"{tag}:unscored", "list contains an item without a score"))
    vals = [s for _, s in rows if s is not None]
    if any(a < b for a, b in zip(vals, vals[1:])):
        v.append((f"{tag}:order", f"scores are not non-increasing: {[float(x) for x in vals][:40]}"))
    if any(i not in smap or smap[i] != s for i, s in rows):
        v.append((f"{tag}:scores-differ", "a listed score is not the score the scoring model returned for that item in the same run"))
    scorable = [i for i in cand if smap.get(i) is not None]
    want = len(scorable) if n < 0 else min(n, len(scorable))
    if len(rows) != want:
        v.append((f"{tag}:length", f"length {len(rows)} but min(n={n}, scorable={len(scorable)}) = {want} "
                                   f"(configured {case['pipe']['cfg_n']}, run-time {case['run_n']}; {len(cand)} candidates)"))
    if vals:
        low = min(vals)
        better = [i for i in scorable if i not in idset and smap[i] > low]
        if better:
            v.append((f"{tag}:omitted-better", f"candidates {better[:20]} score above an included item but were left out"))


def oracle(case, obs):
    v = []
    if case["run_n"] == 0 or case["pipe"]["cfg_n"] == 0:
        return v                                             # outside the claim
    p = case["pipe"]
    bad_scorer = p["scorer"]["kind"] == "synth" and not p["scorer"]["scores"]
    if p["kind"] == "predict" and case["items"] is None:
        if "rating-predictor" not in obs["errors"]:
            v.append(("predict-without-items", "predict_pipeline ran without an item list"))
        return v
    cand = obs["cand"]
    if cand is None:
        v.append(("no-candidates", f"the run failed before the candidates were fixed: {obs['errors']}"))
        return v
    want_cand = _expected_candidates(case)
    if obs["vocab"] != sorted(case["ds"]["items"]):
        v.append(("vocabulary", "item vocabulary is not the training items"))
    if cand != want_cand:
        if case["items"] is not None:
            v.append(("candidates:supplied", f"candidates {_short(cand)} are not exactly the supplied list {_short(want_cand)} "
                                             f"(handed over as: {case.get('items_form', 'ids')})"))
        else:
            v.append(("candidates:unseen", f"candidates {_short(cand)} are not the training items minus the history {_short(want_cand)}"))
    if obs.get("hist_run"):
        q = case["query"]
        if q["form"] == "items":
            want_hist = list(q["hist"])
        elif q["form"] == "id" and q["user"] in case["ds"]["users"]:
            want_hist = sorted(i for u, i, _ in case["ds"]["ratings"] if u == q["user"])
        else:
            want_hist = None
        got = obs["hist"] if obs["hist"] is None or q["form"] == "items" else sorted(obs["hist"])
        if got != want_hist:
            v.append(("history:not-current", f"the history the pipeline works with {obs['hist']} is not the user's row of the current training data {want_hist}"))
    if obs["scored"] is not None and obs["scored"]["ids"] != cand:
        v.append(("scorer-items", "the scorer did not return the candidate items in order"))
    direct = obs.get("direct", {})
    dsc = direct.get("scorer")
    if dsc is not None and "ids" in dsc and obs["scored"] is not None and not bad_scorer and dsc != obs["scored"]:
        v.append(("scores:not-the-models", f"the pipeline's scorer output {_brief(obs['scored'])} is not what the scoring model itself returns for this "
                                            f"user (with the history of the current training data) and the candidates {_brief(dsc)}"))
    if has_rec(case):
        if bad_scorer:
            if obs["errors"].get("recommender") != "ENoScores":
                v.append(("no-scores-not-raised", "ranking a list without scores did not raise"))
        elif "recommender" in obs["errors"]:
            v.append(("rec-error", f"recommender raised {obs['errors']['recommender']}"))
        else:
            _check_ranking(v, "rec", case, cand, obs["scored"], obs["out"], obs["ordered"])
            a0 = obs["api"][case["query"]["form"]]
            if a0.get("rec") != obs["out"] or a0.get("ordered") is not True:
                v.append(("api-vs-run", f"lenskit.recommend returned {a0.get('rec', a0.get('rec_err'))}, the pipeline run {obs['out']}"))
            for f, ent in obs["api"].items():
                if f != case["query"]["form"] and (ent.get("rec") != a0.get("rec") or ent.get("ordered") != a0.get("ordered")):
                    v.append((f"query-form:{f}:rec", f"query form {f} gives {ent.get('rec', ent.get('rec_err'))}, the bare identifier {a0.get('rec')}"))
    if has_pred(case):
        if "rating-predictor" in obs["errors"]:
            v.append(("pred-error", f"rating-predictor raised {obs['errors']['rating-predictor']}"))
        else:
            prim = _rows(obs["scored"])
            pred = _rows(obs["pred"])
            fb = None if obs["fb"] is None else dict(_rows(obs["fb"]))
            if has_fallback(case):
                if obs["scored"]["scores"] is None:
                    want = None if obs["fb"] is None else _rows(obs["fb"])
                else:
                    need = any(s is None for _, s in prim)
                    if need and fb is None:
                        v.append(("fallback-not-consulted", "primary scores are missing but the fallback was not run"))
                        want = prim
                    else:
                        want = [(i, s if s is not None else (fb or {}).get(i)) for i, s in prim]
            else:
                want = prim
            if want is not None and pred != want:
                v.append(("predict-merge", f"predictions {[(i, None if s is None else float(s)) for i, s in pred]} are not primary-else-fallback "
                                           f"{[(i, None if s is None else float(s)) for i, s in want]}"))
            if [i for i, _ in pred] != cand:
                v.append(("predict-items", "predictions are not for exactly the candidate items in order"))
            dfb = direct.get("fallback-predictor")
            if has_fallback(case) and obs["fb"] is not None and obs["fb"]["ids"] != cand:
                v.append(("fallback-items", f"the fallback model was asked about {obs['fb']['ids']}, not about the candidate items {cand}"))
            if has_fallback(case) and dfb is not None and "ids" in dfb and obs["scored"]["scores"] is not None and cand == want_cand:
                fmap = dict(_rows(dfb))
                pmap = dict(pred)
                seen_items = {i for u, i, _ in case["ds"]["ratings"] if u == case["query"].get("user")} if case["query"]["form"] == "id" else set(case["query"].get("hist", []))
                for i, sp in prim:
                    if sp is None and pmap.get(i) != fmap.get(i):
                        cls = "unknown" if i not in case["ds"]["items"] else "seen" if i in seen_items else "unseen"
                        v.append((f"predict:fallback-score:{cls}", f"item {i} ({cls}) has no primary score; the fallback model on its own scores it "
                                  f"{None if fmap.get(i) is None else float(fmap[i])} but the prediction is {None if pmap.get(i) is None else float(pmap[i])}"))
                        break
            a0 = obs["api"][case["query"]["form"]]
            if a0.get("pred") != obs["pred"]:
                v.append(("api-vs-run:pred", "lenskit.predict differs from the pipeline run"))
            for f, ent in obs["api"].items():
                if f != case["query"]["form"] and ent.get("pred") != a0.get("pred"):
                    v.append((f"query-form:{f}:pred", f"query form {f} predicts differently from the bare identifier"))
    _check_prior(v, case, obs)
    _check_siblings(v, case, obs)
    _check_multi(v, case, obs, cand, bad_scorer)
    seen, out = set(), []
    for k, w in v:
        if k not in seen:
            seen.add(k)
            out.append((k, w))
    return out


def _check_prior(v, case, obs):
    """Answers given while the object was trained on earlier data: only items of THAT data, none the user had seen there."""
    p = case["pipe"]
    if p["kind"] == "predict":
        return
    for k, (ph, ent) in enumerate(zip(p.get("prior") or [], obs.get("prior") or [])):
        pds = ph["ds"]
        for u in ph["users"]:
            got = ent.get(str(u))
            if not isinstance(got, list):
                continue
            seen = {i for a, i, _ in pds["ratings"] if a == u}
            bad = [i for i in got if i not in pds["items"] or i in seen]
            if bad:
                v.append((f"prior[{k}]:non-candidate", f"while trained on the earlier data set #{k}, user {u} was recommended {bad}: not unseen items of that data"))
                return


def _check_siblings(v, case, obs):
    """The other standard pipelines alive in the process (trained before / after this one): each answers from ITS data."""
    for k, (sb, ent) in enumerate(zip(case["pipe"].get("siblings") or [], obs.get("siblings") or [])):
        sds = sb["ds"]
        for u in sb["users"]:
            got = ent.get(str(u)) or {}
            seen = {i for a, i, _ in sds["ratings"] if a == u} if u in sds["users"] else set()
            want = [i for i in sorted(sds["items"]) if i not in seen]
            tag = f"sibling[{sb['when']}]"
            if "err" in got:
                v.append((f"{tag}:error", f"a pipeline trained {sb['when']} this one raised {got['err']} for user {u}"))
            elif "cand" in got and got["cand"] != want:
                v.append((f"{tag}:candidates", f"pipeline #{k + 1} (built and trained {sb['when']} the case's pipeline, on its own data) gives user {u} the candidates "
                                               f"{_short(got['cand'])}, not its training items minus the history {_short(want)}"))
            elif "rec" in got and any(i not in want for i in got["rec"]):
                v.append((f"{tag}:non-candidate", f"pipeline #{k + 1} recommends {[i for i in got['rec'] if i not in want]} to user {u}: not unseen items of its data"))
            elif "pred" in got and got["pred"] != list(sds["items"]):
                v.append((f"{tag}:predict-items", f"pipeline #{k + 1} predicts for {got['pred']}, asked about {sds['items']}"))
            else:
                continue
            return


def _short(l):
    return str(l) if len(l) <= 40 else f"{l[:20]} ... ({len(l)} items)"


def _check_multi(v, case, obs, cand, bad_scorer):
    """Several nodes requested from one run (both orders, and all nodes): every requested output obeys the
    property with respect to the scoring model's own output, and no node's output is altered by a consumer."""
    solo = obs.get("solo", {})
    a0 = obs["api"][case["query"]["form"]]
    for ent in obs.get("multi", []):
        order = ent["order"]
        if "err" in ent:
            if not bad_scorer:
                v.append((f"multi[{order}]:error", f"a run requesting [{order}] raised {ent['err']}"))
            continue
        for name, val in ent["nodes"].items():
            if name in solo and val != solo[name]:
                v.append((f"shared-output-altered:{name}",
                          f"after one run requesting [{order}] node '{name}' holds {_brief(val)} but the node on its own produces {_brief(solo[name])}: "
                          f"a consumer altered an output that other components also read"))
        fbv = ent["nodes"].get("fallback-predictor")
        if fbv is not None and has_fallback(case) and fbv["ids"] != cand:
            v.append((f"multi[{order}]:fallback-items", f"in a run requesting [{order}] the fallback model was asked about {fbv['ids']}, not about the candidate items {cand}"))
        if "recommender" in ent and obs["scored"] is not None and obs["scored"]["scores"] is not None:
            _check_ranking(v, f"multi[{order}]:rec", case, cand, obs["scored"], ent["recommender"], ent["ordered"])
            if "rec" in a0 and ent["recommender"] != a0["rec"]:
                v.append((f"multi[{order}]:rec:differs", f"recommendations from a run requesting [{order}] {_brief(ent['recommender'])} differ from lenskit.recommend {_brief(a0['rec'])}"))
        if "rating-predictor" in ent and "pred" in a0 and ent["rating-predictor"] != a0["pred"]:
            v.append((f"multi[{order}]:pred:differs", f"predictions from a run requesting [{order}] differ from lenskit.predict"))


def _brief(il):
    if "ids" not in il:
        return str(il)[:200]
    sc = il["scores"] or [None] * len(il["ids"])
    return str([(i, None if x is None else round(float(fparse(x)), 4)) for i, x in zip(il["ids"], sc)])[:300]


def nontrivial(case, obs):
    if obs["errors"] or "out" not in obs or obs["cand"] is None:
        return False
    return len(obs["cand"]) >= 3 and 1 <= len(obs["out"]["ids"]) < len(obs["cand"])


def counters(case, obs):
    p = case["pipe"]
    yield "style=" + case["style"]
    yield "scorer=" + p["scorer"]["kind"]
    yield f"pipe={p['kind']}/predicts={p['predicts']}"
    yield "query=" + case["query"]["form"]
    ds = case["ds"]
    u = case["query"]["user"]
    if case["query"]["form"] == "id":
        nh = sum(1 for a, _, _ in ds["ratings"] if a == u)
        yield "user=" + ("unknown" if u not in ds["users"] else "empty" if nh == 0 else "full" if nh == len(ds["items"]) else "known")
    yield "ids=" + ("str" if ds["strids"] else "int")
    if case["items"] is None:
        yield "candidates=selector"
    else:
        its = set(case["items"])
        seen = {i for a, i, _ in ds["ratings"] if a == u}
        yield "candidates=supplied" + ("+unknown" if its - set(ds["items"]) else "") + ("+seen" if its & seen else "") + ("/empty" if not its else "")
    yield "cfg_n=" + ("None" if p["cfg_n"] is None else "-1" if p["cfg_n"] < 0 else "pos")
    yield "run_n=" + ("None" if case["run_n"] is None else "-1" if case["run_n"] < 0 else "0" if case["run_n"] == 0 else "pos")
    for k, e in obs["errors"].items():
        yield f"error={k}:{e}"
    if "out" in obs and obs["scored"] and obs["scored"]["scores"] is not None:
        sc = obs["scored"]["scores"]
        nv = sum(1 for s in sc if s is not None)
        n = _n_eff(case)
        yield "plan=" + ("empty" if n == 0 else "partition" if 0 <= n < nv else "full-sort")
        yield "nan=" + ("none" if nv == len(sc) else "all" if nv == 0 else "some")
        vals = sorted((fparse(s) for s in sc if s is not None), reverse=True)
        k = len(obs["out"]["ids"])
        if 0 < k < len(vals) and vals[k - 1] == vals[k]:
            yield "tie-at-cut"
        if len(set(vals)) < len(vals):
            yield "ties"
    yield "life=" + ("fresh" if not p.get("prior") else f"retrained-x{len(p['prior'])}")
    ni = len(ds["items"])
    yield "catalogue=" + ("<=15" if ni <= 15 else "medium(400-5000)" if ni < 5000 else "large(>=5000)")
    if ni > 15:
        for t in size_thresholds():
            yield f"catalogue-vs-source-threshold-{t}=" + ("at-or-above" if ni >= t else "below")
        if "out" in obs and obs["scored"] and obs["scored"]["scores"] is not None and _n_eff(case) > 0:
            nv_ = sum(1 for x in obs["scored"]["scores"] if x is not None)
            yield "long-list:scorable-vs-n=" + ("fewer" if nv_ < _n_eff(case) else "equal" if nv_ == _n_eff(case) else "more")
    if case["items"] is not None:
        yield "candidates-handed-over-as=" + case.get("items_form", "ids")
    for sb in p.get("siblings") or []:
        yield f"other-pipeline-alive=trained-{sb['when']}" + ("/smaller-catalogue" if set(ds["items"]) - set(sb["ds"]["items"]) else "")
    if p.get("prior") and case["query"]["form"] == "id":
        h_now = sorted(i for a, i, _ in ds["ratings"] if a == u) if u in ds["users"] else None
        for ph in p["prior"]:
            h_then = sorted(i for a, i, _ in ph["ds"]["ratings"] if a == u) if u in ph["ds"]["users"] else None
            if u in ph["users"] and h_then != h_now:
                yield "retrained:user-asked-before-with-other-history"
                break
    if "pred" in obs and has_fallback(case) and obs["scored"] and obs["scored"]["scores"] is not None:
        seen = {i for a, i, _ in ds["ratings"] if a == u} if case["query"]["form"] == "id" else set()
        for g in sorted({("unknown" if i not in ds["items"] else "seen" if i in seen else "unseen")
                         for i, sc_ in zip(obs["scored"]["ids"], obs["scored"]["scores"]) if sc_ is None}):
            yield "pred-gap=" + g
    if "pred" in obs:
        yield "fallback=" + ("absent" if not has_fallback(case) else "lazy-skipped" if obs["fb"] is None else "consulted")


def sample(case, obs):
    big = len(case["ds"]["items"]) > 100
    return {"case": {"pipe": {k: v for k, v in case["pipe"].items() if k not in ("prior", "siblings")}, "prior_phases": len(case["pipe"].get("prior") or []),
                     "other_pipelines_alive": len(case["pipe"].get("siblings") or []), "items_form": case.get("items_form", "ids"),
                     **{k: (case[k] if not (big and k == "items" and case[k]) else f"<{len(case[k])} items>") for k in ("query", "items", "run_n")}},
            "dataset": {"users": len(case["ds"]["users"]), "items": len(case["ds"]["items"]), "ratings": len(case["ds"]["ratings"])},
            "observation": {k: (obs.get(k) if not big else (_short(obs[k]) if isinstance(obs.get(k), list) else
                                                           {"n_ids": len(obs[k]["ids"])} if isinstance(obs.get(k), dict) and "ids" in obs[k] else obs.get(k)))
                            for k in ("errors", "cand", "out")}}


_SHRUNK = [0]


def shrink(case, fails0):
    if _SHRUNK[0] >= 5:                      # cost cap: at most five failing keys are minimised per run
        return case
    _SHRUNK[0] += 1

    def fails(c):
        # every candidate is judged on freshly built pipeline objects: objects kept from earlier attempts (and whatever a defect
        # lets them share with later ones) must not decide whether a smaller case "still fails"
        _cache.clear()
        return fails0(c)
    try:
        return _shrink(case, fails)
    finally:
        _cache.clear()                       # ... nor what the replayed observation of the result looks like


def _shrink(case, fails):
    c = dict(case)
    pipe = dict(c["pipe"])
    if len(c["ds"]["items"]) > 100:          # catalogue-size cases: the size is the point and every run costs seconds -- only the ratings, briefly
        ds = dict(c["ds"])
        ds["ratings"] = common.shrink_list(ds["ratings"], lambda xs: fails({**c, "ds": {**ds, "ratings": xs}}), 6)
        c["ds"] = ds
        return c
    if pipe.get("siblings"):                 # the other pipelines of the process: fewer of them, fewer queries
        sb = common.shrink_list(pipe["siblings"], lambda xs: fails({**c, "pipe": {**pipe, "siblings": xs}}), 4)
        sb = [dict(x) for x in sb]
        for k in range(len(sb)):
            def with_sib_users(us, k=k):
                return {**c, "pipe": {**pipe, "siblings": sb[:k] + [{**sb[k], "users": us}] + sb[k + 1:]}}
            sb[k]["users"] = common.shrink_list(sb[k]["users"], lambda us: fails(with_sib_users(us)), 8)
        if sb:
            pipe["siblings"] = sb
        else:
            pipe.pop("siblings")
        c["pipe"] = pipe
    if pipe.get("prior"):                    # the earlier life: fewer phases, fewer queries
        pr = common.shrink_list(pipe["prior"], lambda xs: fails({**c, "pipe": {**pipe, "prior": xs}}), 4)
        pr = [dict(ph) for ph in pr]
        for k in range(len(pr)):
            def with_users(us, k=k):
                return {**c, "pipe": {**pipe, "prior": pr[:k] + [{**pr[k], "users": us}] + pr[k + 1:]}}
            pr[k]["users"] = common.shrink_list(pr[k]["users"], lambda us: fails(with_users(us)), 12)
        if pr:
            pipe["prior"] = pr
        else:
            pipe.pop("prior")
        c["pipe"] = pipe
    ds = dict(case["ds"])
    rs = common.shrink_list(ds["ratings"], lambda xs: len(xs) >= 1 and fails({**c, "ds": {**ds, "ratings": xs}}), 40)
    ds["ratings"] = rs
    c["ds"] = ds
    if c["items"]:
        c["items"] = common.shrink_list(c["items"], lambda xs: fails({**c, "items": xs}), 20)
    return c
