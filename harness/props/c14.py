"""C14 -- built pipelines and datasets are immutable; derived objects never alter them
(DESIGN.md section 4, C14)."""

from __future__ import annotations

import json

import common
from framework import TranslateError  # noqa: F401

PID = "C14"
PROPS_FILE = "Props/C14.v"
GEN_FILES = ["Gen/C14_alias.v"]
MODEL_FILES = ["Model/C14_heap.v"]
ALLOWED_AXIOMS: list[str] = []
BASE_HEADER = ("From Coq Require Import String List.\nFrom LK Require Import Lib.StrDict Gen.C14_alias Model.C14_heap.\n"
               "Import ListNotations.\nOpen Scope string_scope.")
# the case files share one table of string constants, appended to the header as the case terms are made (see share_strings)
CASE_HEADER = BASE_HEADER
SHARD = 8
SEARCH_CASES = 400
TRUSTED = [
    "Coq 8.16.1 kernel + vm_compute (no native_compute); Print Assumptions of every theorem in Props/C14.v: closed under the global context",
    "alias-table extractor harness/translate/c14.py (how from_pipeline, build_config/build, Pipeline.__init__, clone/from_config, connect, clear_inputs, "
    "DatasetBuilder.__init__ and build_container obtain the mutable dictionaries of their source: Share / Shallow / Copy; how connect / clear_inputs / node resolve "
    "the name, node object or alias they are handed; the set of statements that bind a wiring dictionary) and the four syntactic scans (node objects reached from a PipelineBuilder's node table; ItemList parameters of "
    "component calls; parameters holding a built Dataset / DataContainer / Pipeline or the document describing one -- PipelineConfig, DataSchema, the argument of "
    "from_config, also after model_validate / cast -- anywhere in lenskit; methods of a built Dataset / DataContainer / Pipeline writing through the parts that "
    "describe it) -- regenerated and re-proved on every run",
    "hand-written heap model (Model/C14_heap.v): which object holds which reference and which operation writes through which; the CONTENT a dataset builder "
    "writes into its own schema/tables after each call is taken from the builder itself (the subject is aliasing, not schema logic)",
    "correspondence: random histories against real objects, every built pipeline and dataset re-observed after every step and compared with the model inside Coq "
    "(observations written as differences, trace_ok_d; PipelineBuilder.from_config as the model's from_config_ops applied to the document the pipeline showed before the call)",
    "Arrow tables, nodes and ItemList objects are treated as immutable values; that shipped components leave their ItemList inputs unchanged is checked by the "
    "oracle (full observable state -- content, vocabulary identity and content, numbers per missing mode, data-frame forms -- of every ItemList argument of "
    "every component call before and after, candidates handed over in every representation of an item list), not proved",
]
ASSUMPTIONS = [
    "a pipeline is trained only if its trainable component instances are not shared with another pipeline (Pipeline.modify documents that unmodified "
    "instances are reused; instances handed to a builder by the caller are shared by every pipeline built from it)",
    "Pipeline.config and Dataset.schema are not edited by the caller (documented as read-only views)",
]
RULE = ("histories of 8-30 operations over both families: dataset builder (entity classes, entities, interactions with new attributes and repeats, relationship "
        "classes, scalar/list/vector attributes, time and row filters, clear) -> build -> derive a builder from the dataset / keep using the producing builder / "
        "split (records, users, temporal) ; pipeline builder over every KIND of component -- importable functions, Component subclasses by class + settings and by "
        "instance, plain callable objects (neither; with state given by the caller, without and with train()) --, literal values wired straight to inputs and "
        "re-wired afterwards (literal nodes left behind that nothing refers to), named literal nodes never wired -> build -> modify() and rewire / "
        "replace / add / alias / clear / change default -- every operation naming its node by node name, by node object or by an alias string, input sources "
        "looked up by name or through an alias, the derived builder edited straight after modify() --, clone() then train the clone on other data and run it, "
        "the pipeline's OWN configuration object handed back (Pipeline.from_config(p.config); PipelineBuilder.from_config(p.config) then edit / build; from its "
        "JSON form; PipelineConfig.model_validate), train, run, keep using the producing builder, build again (one builder producing several "
        "pipelines with and without edits in between, components added by class + settings and by instance, each sibling trained on other data and run; "
        "trained pipelines keep being re-observed, and two pipelines may hold the same component object only where that is specified); after every step every "
        "built object is re-observed -- its description (configuration document; schema document and tables) FIRST, straight after it was built and before any "
        "accessor has been used on it, and again after each group of read-only accessors within the observation (entities, relationships, interactions(), "
        "vocabularies, statistics, counts, matrices, user rows, save; wiring lookups and runs) -- (config JSON, hash and the hash of the configuration as it stands, wiring, node_input_connections, private wiring, alias / name lookups, run results; schema (fields and whole "
        "document), tables, vocabularies, matrices with values, attributes, per-user / per-item statistics and the statistics of every matrix, counts, user rows, "
        "saved form (when first seen, after every derivation from it, at the end)); datasets with declared-but-empty entity classes, with users / items that "
        "never interact, and with the default interaction class marked or left to be worked out (one class, several, none); the observer never edits a frame it is handed; "
        "replace_component with every KIND of replacement (another instance of the class the node already runs with other settings, the class with other "
        "settings, the same function, another class / function / plain callable object) on the producing builder and on builders obtained by modify() "
        "(these are then built half of the time), the original pipeline's component objects (identity), their settings and its run results re-observed; "
        "plus standard pipelines around shipped scorers trained on the catalogue, on a split of it or on a training set of its own built from the records "
        "on part of the items (other numbering), and run with the candidates in every REPRESENTATION of an item list -- identifiers only; numbers + "
        "vocabulary; identifiers + a vocabulary (the catalogue's, the training set's, one numbering the catalogue in another order; with a further field) -- "
        "with the full observable state of every ItemList argument (content, fields, WHICH vocabulary it has, numbers with each treatment of unknown items "
        "and relative to its own vocabulary, data-frame forms) taken before and after each component call and each pipeline run; non-trivial = at least one object observed across >= 3 later steps of which >= 1 is a mutation through a derived or producing builder; "
        "distinct = by hash of the case")

TRAINABLE_CODES = ["vcomp:Learner", "c14_comp:PlainLearner"]
TRAINABLE = ("Learner", "PlainLearner")
# component KINDS: importable functions, Component subclasses (added by class + settings or as an instance of the caller's), and plain
# callable OBJECTS (neither: the configuration records only their class) -- without and with train()
SIGS = {"inc": ["x"], "neg": ["x"], "add": ["x", "y"], "mix3": ["a", "b", "c"], "twice": ["x"], "Scale": ["x"], "Affine": ["x", "y"],
        "Learner": ["x"], "NoSettings": ["x"], "Plain": ["x"], "PlainLearner": ["x"]}
STYLES = {"inc": ["fn"], "neg": ["fn"], "add": ["fn"], "mix3": ["fn"], "twice": ["fn"], "Scale": ["class", "instance"], "Affine": ["class", "instance"],
          "Learner": ["class", "class", "instance"], "NoSettings": ["class", "instance"], "Plain": ["instance"], "PlainLearner": ["instance"]}
CODES = {"inc": "vcomp:inc", "neg": "vcomp:neg", "add": "vcomp:add", "mix3": "vcomp:mix3", "twice": "vcomp:Box.twice", "Scale": "vcomp:Scale",
         "Affine": "vcomp:Affine", "Learner": "vcomp:Learner", "NoSettings": "vcomp:NoSettings", "Plain": "c14_comp:Plain",
         "PlainLearner": "c14_comp:PlainLearner"}
LIT_VALUES = [0, 2, 5, 2.5, "v", [1, 2], True]      # literal values wired straight to an input (few, so that they recur)
LIT_NAMES = ["k1", "k2"]                             # literal nodes the caller names


def settings_for(rng, comp):
    r = rng.randint(1, 5)
    return {"Scale": {"factor": r}, "Affine": {"a": r}, "Learner": {"bias": r + 3}, "PlainLearner": {"bias": r + 3}, "Plain": {"k": r}}.get(comp, {})
SHIPPED = ["lenskit.basic.bias:BiasScorer", "lenskit.basic.popularity:PopScorer", "lenskit.knn.item:ItemKNNScorer", "lenskit.knn.user:UserKNNScorer",
           "lenskit.als._explicit:BiasedMFScorer", "lenskit.als._implicit:ImplicitMFScorer", "lenskit.funksvd:FunkSVDScorer",
           "lenskit.sklearn.svd:BiasedSVDScorer", "lenskit.basic.history:KnownRatingScorer"]
SHIPPED_SETTINGS = {"lenskit.als._explicit:BiasedMFScorer": {"features": 4, "epochs": 2}, "lenskit.als._implicit:ImplicitMFScorer": {"features": 4, "epochs": 2},
                    "lenskit.funksvd:FunkSVDScorer": {"features": 4, "epochs": 2}, "lenskit.sklearn.svd:BiasedSVDScorer": {"features": 3},
                    "lenskit.knn.item:ItemKNNScorer": {"k": 5}, "lenskit.knn.user:UserKNNScorer": {"k": 5}}


def translate():
    from translate import c14 as t
    from translate.pyq import TranslateError as TE
    try:
        return t.translate(common.SRC)
    except TE as e:
        raise TranslateError(str(e))


# ---------------------------------------------------------------------------------------------
# generator (symbolic bookkeeping so that pipeline-side operations are valid)
# ---------------------------------------------------------------------------------------------


def pcopy(p, tok=None):
    "symbolic state of a pipeline / builder derived from another one"
    return {"nodes": dict(p["nodes"]), "comps": dict(p["comps"]), "aliases": dict(p["aliases"]), "tok": dict(p["tok"]) if tok is None else tok,
            "lw": {n: set(v) for n, v in p["lw"].items()}}


class Sym:
    def __init__(self):
        self.pblds = []   # {"nodes": {name: kind}, "comps": {name: compkey}, "aliases": {alias: node name}, "tok": {name: token},
        #                     "lw": {component: inputs that currently hold a literal value}}
        self.pipes = []   # {"nodes", "comps", "aliases", "tok"}
        self.dblds = []   # {"ents": {cls: set}, "rels": {cls: bool has time}, "attrs": set}
        self.dsets = []
        self.ntok = 0

    def tok(self):
        self.ntok += 1
        return self.ntok


def gen_ratings(rng, users, items, n, with_time=True):
    rows = []
    pairs = rng.sample([(u, i) for u in users for i in items], min(n, len(users) * len(items)))
    for u, i in pairs:
        r = [u, i, rng.randint(1, 10) / 2]
        if with_time:
            r.append(1_000_000 + rng.randint(0, 50) * 1000)
        rows.append(r)
    return rows


def gen_history(rng):
    S = Sym()
    ops = []
    items = list(range(1, 9))
    users = list(range(100, 106))
    idle_users = list(range(106, 110))
    # whether the rating class is MARKED as the default interaction class (otherwise -- the builder's own default -- the dataset has to
    # work it out whenever it is asked for its interactions: a schema entry that is resolved lazily)
    mark_default = rng.chance(1, 2)

    def new_dbld(name):
        ops.append({"op": "dnew", "name": name})
        S.dblds.append({"ents": {"item": set()}, "rels": {}, "attrs": set()})
        return len(S.dblds) - 1

    def db_step(i):
        b = S.dblds[i]
        choice = rng.weighted([("entities", 3), ("interactions", 4), ("entity_class", 1), ("rel_class", 1), ("scalar", 2), ("list", 1), ("vector", 1),
                               ("filter", 2), ("clear", 1), ("click", 2)])
        if choice == "entities":
            other = sorted(c for c in b["ents"] if c not in ("item", "user"))
            cls = rng.choice(other) if other and rng.chance(1, 5) else rng.choice(sorted(c for c in b["ents"] if c in ("item", "user")))
            # users 106.. and items 9.. never occur in an interaction: entities the dataset knows that have no records
            ids = rng.sample(items + [9, 10] if cls == "item" else users + idle_users if cls == "user" else list(range(50, 56)), rng.randint(1, 4))
            ops.append({"op": "db_entities", "b": i, "cls": cls, "ids": ids})
            b["ents"][cls] |= set(ids)
        elif choice == "interactions":
            rows = gen_ratings(rng, users, items, rng.randint(2, 8))
            ops.append({"op": "db_interactions", "b": i, "cls": "rating", "rows": rows, "columns": ["user_id", "item_id", "rating", "timestamp"],
                        "entities": ["user", "item"], "default": mark_default and "rating" not in b["rels"], "repeats": False})
            b["rels"]["rating"] = True
            b["ents"].setdefault("user", set())
            b["ents"]["user"] |= {r[0] for r in rows}
            b["ents"]["item"] |= {r[1] for r in rows}
        elif choice == "click":
            rows = [list(p) for p in rng.sample([(u, i) for u in users for i in items], rng.randint(1, 5))]
            if rng.chance(1, 2):
                for r in rows:
                    r.append(rng.randint(1, 3))
                cols = ["user_id", "item_id", "weight"]
            else:
                cols = ["user_id", "item_id"]
            ops.append({"op": "db_interactions", "b": i, "cls": "click", "rows": rows, "columns": cols, "entities": ["user", "item"], "default": False,
                        "repeats": False})
            b["rels"].setdefault("click", False)
            b["ents"].setdefault("user", set())
        elif choice == "entity_class":
            cls = rng.choice(["tag", "genre", "user"])
            ops.append({"op": "db_entity_class", "b": i, "cls": cls})
            b["ents"].setdefault(cls, set())
        elif choice == "rel_class":
            ops.append({"op": "db_rel_class", "b": i, "cls": rng.choice(["follows", "likes"]), "entities": ["user", "item"], "repeats": False,
                        "interaction": rng.chance(1, 2)})
            b["ents"].setdefault("user", set())
        elif choice in ("scalar", "list", "vector"):
            cls = "item" if b["ents"]["item"] or rng.chance(2, 3) else rng.choice(sorted(b["ents"]))
            ids = sorted(b["ents"].get(cls) or [])
            ids = rng.sample(ids, min(len(ids), rng.randint(1, 4))) if ids else [rng.choice(items)]
            name = rng.choice({"scalar": ["title", "year"], "list": ["tags"], "vector": ["emb"]}[choice])
            if choice == "scalar":
                vals = {str(k): (f"t{k}" if name == "title" else 1990 + k) for k in ids}
            elif choice == "list":
                vals = {str(k): [f"g{k % 3}", "x"][: 1 + k % 2] for k in ids}
            else:
                vals = {str(k): [k / 2, 1.0, -k / 4] for k in ids}
            ops.append({"op": f"db_{choice}_attr", "b": i, "cls": cls, "name": name, "values": vals})
        elif choice == "filter":
            if rng.chance(1, 2):
                ops.append({"op": "db_filter", "b": i, "cls": "rating", rng.choice(["min_time", "max_time"]): 1_000_000 + rng.randint(5, 45) * 1000})
            else:
                rm = [[rng.choice(users), rng.choice(items)] for _ in range(rng.randint(1, 3))]
                ops.append({"op": "db_filter", "b": i, "cls": "rating", "remove": rm, "remove_columns": ["user_id", "item_id"]})
        else:
            ops.append({"op": "db_clear", "b": i, "cls": rng.choice(["rating", "click"])})

    def dbuild(i):
        ops.append({"op": "dbuild", "b": i})
        S.dsets.append(json.loads(json.dumps({"has_rating": "rating" in S.dblds[i]["rels"]})))
        return len(S.dsets) - 1

    def new_pbld(name):
        ops.append({"op": "pnew", "name": name})
        S.pblds.append({"nodes": {}, "comps": {}, "aliases": {}, "tok": {}, "lw": {}})
        return len(S.pblds) - 1

    def gen_ins(b, comp, me, frac=(3, 4)):
        # only nodes created before `me`: the wiring stays acyclic
        order = list(b["nodes"])
        cands = order[: order.index(me)] if me in order else order
        return rng.shuffle([[p, rng.choice(cands)] for p in SIGS[comp] if cands and rng.chance(*frac)])

    def addr(b, n, modes=("name", "node", "alias")):
        """how the operation names node `n`: by its node name, by the node object, or by an alias string that stands for it"""
        al = sorted(a for a, t in b["aliases"].items() if t == n)
        m = rng.weighted([(k, (3 if k == "alias" else 2)) for k in modes if k != "alias" or al])
        return {"by": "alias", "via": rng.choice(al)} if m == "alias" else {"by": m}

    def ins_via(b, ins):
        "input sources handed over as node objects obtained by name or through an alias of the source"
        out = {}
        for p_, t in ins:
            al = sorted(a for a, x in b["aliases"].items() if x == t)
            if al and rng.chance(1, 3):
                out[p_] = rng.choice(al)
        return out

    def gen_lits(comp, ins, frac=(1, 4)):
        "literal VALUES wired straight to inputs the operation does not connect to a node (the builder makes a literal node for each)"
        taken = {p_ for p_, _ in ins}
        return {p_: rng.choice(LIT_VALUES) for p_ in SIGS[comp] if p_ not in taken and rng.chance(*frac)}

    def wired(b, n, ins, lits):
        lw = b["lw"].setdefault(n, set())
        lw -= {p_ for p_, _ in ins}
        lw |= set(lits)

    def pb_step(i, prefer=None):
        b = S.pblds[i]
        comps = sorted(b["comps"])
        if prefer in ("connect", "clear", "default", "replace") and not comps:
            prefer = None
        choice = prefer or rng.weighted([("add", 3), ("connect", 4 if comps else 0), ("clear", 2 if comps else 0), ("replace", 2 if comps else 0),
                                         ("alias", 3), ("unalias", 1 if b["aliases"] else 0), ("default", 1 if comps else 0), ("input", 1),
                                         ("literal", 1)])
        if choice == "input":
            n = rng.choice([x for x in ["a", "b", "c", "d"] if x not in b["nodes"] and x not in b["aliases"]] or [None])
            if n:
                ops.append({"op": "pb_input", "b": i, "name": n})
                b["nodes"][n] = "in"
        elif choice == "add":
            free = [x for x in ["c1", "c2", "c3", "c4", "c5", "c6", "scorer", "ranker"] if x not in b["nodes"] and x not in b["aliases"]]
            if not free or not b["nodes"]:
                return
            n = rng.choice(free)
            comp = rng.choice(sorted(SIGS))
            st = rng.choice(STYLES[comp])
            op = {"op": "pb_add", "b": i, "name": n, "comp": comp, "style": st, "ins": gen_ins(b, comp, n)}
            op["lits"] = gen_lits(comp, op["ins"])
            if st != "fn":
                op["settings"] = settings_for(rng, comp)
            ops.append(op)
            b["nodes"][n] = "comp"
            b["comps"][n] = comp
            b["tok"][n] = ("ctor",) if st == "class" else ("inst", S.tok())
            b["lw"][n] = set()
            wired(b, n, op["ins"], op["lits"])
        elif choice == "literal":
            # a literal node the caller names; nothing need ever be wired to it
            free = [x for x in LIT_NAMES if x not in b["nodes"] and x not in b["aliases"]]
            if free:
                n = rng.choice(free)
                ops.append({"op": "pb_literal", "b": i, "name": n, "value": rng.choice(LIT_VALUES)})
                b["nodes"][n] = "lit"
        elif choice == "connect":
            aliased = sorted({t for t in b["aliases"].values() if t in b["comps"]})
            n = rng.choice(aliased) if aliased and rng.chance(1, 2) else rng.choice(comps)
            ins = gen_ins(b, b["comps"][n], n, (2, 3))
            lits = gen_lits(b["comps"][n], ins)
            held = sorted(b["lw"].get(n, ()))
            if held and rng.chance(2, 3):
                # an input that holds a literal value is wired anew -- to a node or to another value: the literal node it had stays behind, unreferenced
                p_ = rng.choice(held)
                if all(p_ != q for q, _ in ins):
                    lits[p_] = rng.choice(LIT_VALUES)
            ops.append({"op": "pb_connect", "b": i, "name": n, "ins": ins, "lits": lits, "ins_via": ins_via(b, ins), **addr(b, n)})
            wired(b, n, ins, lits)
        elif choice == "clear":
            n = rng.choice(comps)
            ops.append({"op": "pb_clear", "b": i, "name": n, **addr(b, n)})
            if ops[-1].get("by") != "alias":
                b["lw"][n] = set()
        elif choice == "replace":
            n = rng.choice(comps)
            # every KIND of replacement: the same component again (another instance of the same class with other settings, the class with
            # other settings, the same function), another class, a function, a plain callable object
            was = b["comps"][n]
            same = rng.chance(1, 2)
            comp = was if same else rng.choice(sorted(SIGS))
            st = "instance" if same and "instance" in STYLES[comp] and rng.chance(2, 3) else rng.choice(STYLES[comp])
            op = {"op": "pb_replace", "b": i, "name": n, "comp": comp, "style": st, "ins": gen_ins(b, comp, n, (1, 3)), **addr(b, n, ("name", "node")),
                  "was": was, "on_derived": bool(b.get("derived"))}
            op["ins_via"] = ins_via(b, op["ins"])
            op["lits"] = gen_lits(comp, op["ins"], (1, 6))
            if st != "fn":
                op["settings"] = settings_for(rng, comp)
            ops.append(op)
            b["comps"][n] = comp
            b["tok"][n] = ("ctor",) if st == "class" else ("inst", S.tok())
            b["lw"][n] = {p_ for p_ in b["lw"].get(n, ()) if p_ in SIGS[comp]}
            wired(b, n, op["ins"], op["lits"])
        elif choice == "alias":
            free = [x for x in ["al1", "rec", "zz"] if x not in b["nodes"] and x not in b["aliases"]]
            if free and b["nodes"]:
                a = rng.choice(free)
                n = rng.choice(comps) if comps and rng.chance(3, 4) else rng.choice(sorted(b["nodes"]))
                ops.append({"op": "pb_alias", "b": i, "alias": a, "node": n, **addr(b, n)})
                b["aliases"][a] = n
        elif choice == "unalias":
            a = rng.choice(sorted(b["aliases"]))
            ops.append({"op": "pb_unalias", "b": i, "alias": a})
            del b["aliases"][a]
        elif choice == "default":
            n = rng.choice(comps)
            ops.append({"op": "pb_default", "b": i, "name": n, **addr(b, n)})

    def acyclic(b):
        return True

    def pbuild(i):
        b = S.pblds[i]
        ops.append({"op": "pbuild", "b": i})
        tok = {n: (("inst", S.tok()) if t == ("ctor",) else t) for n, t in b["tok"].items()}
        S.pipes.append(pcopy(b, tok))

    def learner_toks(p):
        return {t for n, t in p["tok"].items() if p["comps"].get(n) in TRAINABLE}

    def fresh_toks(p):
        return {n: ("inst", S.tok()) for n in p["tok"]}

    def use_derived(j, d_other=None):
        "a pipeline derived from another one is trained (on other data when there is a choice) and run"
        if S.dsets:
            ops.append({"op": "ptrain", "p": j, "d": rng.below(len(S.dsets)) if d_other is None else d_other})
        ops.append({"op": "prun", "p": j, "inputs": {"a": rng.randint(0, 9), "b": rng.randint(0, 9)}})

    # --- a dataset and a pipeline to start with ---
    d0 = new_dbld(rng.choice(["d0", "ml"]))
    if rng.chance(2, 3):
        # a class that is declared and (mostly) stays without entities
        cls = rng.choice(["tag", "genre"])
        ops.append({"op": "db_entity_class", "b": d0, "cls": cls})
        S.dblds[d0]["ents"].setdefault(cls, set())
    for _ in range(rng.randint(1, 4)):
        db_step(d0)
    if rng.chance(1, 2):
        # users the dataset knows that never interact
        ids = rng.sample(users, rng.randint(0, 2)) + rng.sample(idle_users, rng.randint(1, 3))
        ops.append({"op": "db_entities", "b": d0, "cls": "user", "ids": ids})
        S.dblds[d0]["ents"].setdefault("user", set())
        S.dblds[d0]["ents"]["user"] |= set(ids)
    if "rating" not in S.dblds[d0]["rels"]:
        rows = gen_ratings(rng, users, items, 6)
        ops.append({"op": "db_interactions", "b": d0, "cls": "rating", "rows": rows, "columns": ["user_id", "item_id", "rating", "timestamp"],
                    "entities": ["user", "item"], "default": mark_default, "repeats": False})
        S.dblds[d0]["rels"]["rating"] = True
        S.dblds[d0]["ents"].setdefault("user", set())
    dbuild(d0)
    # a second dataset with another name and other items: training on it must be distinguishable
    d1 = new_dbld("d1")
    ops.append({"op": "db_entities", "b": d1, "cls": "item", "ids": list(range(20, 20 + rng.randint(3, 9)))})
    rows = gen_ratings(rng, users, list(range(20, 23)), 5)
    ops.append({"op": "db_interactions", "b": d1, "cls": "rating", "rows": rows, "columns": ["user_id", "item_id", "rating", "timestamp"],
                "entities": ["user", "item"], "default": rng.chance(1, 2), "repeats": False})
    S.dblds[d1]["rels"]["rating"] = True
    S.dblds[d1]["ents"].setdefault("user", set())
    dbuild(d1)
    p0 = new_pbld(rng.choice([None, "pipe"]))
    for n in ("a", "b"):
        ops.append({"op": "pb_input", "b": p0, "name": n})
        S.pblds[p0]["nodes"][n] = "in"
    for _ in range(rng.randint(2, 5)):
        pb_step(p0)
    for m, want in (("m1", (3, 4)), ("m2", (1, 3))):
        # trainable components of either kind (a Component subclass, a plain callable object with train())
        have = {c for c in S.pblds[p0]["comps"].values() if c in TRAINABLE}
        if len(have) < (1 if m == "m1" else 2) and rng.chance(*want):
            comp = rng.choice([c for c in TRAINABLE if c not in have])
            st = rng.choice(STYLES[comp])
            ops.append({"op": "pb_add", "b": p0, "name": m, "comp": comp, "style": st, "settings": settings_for(rng, comp), "ins": [["x", "a"]],
                        "lits": {}})
            S.pblds[p0]["nodes"][m] = "comp"
            S.pblds[p0]["comps"][m] = comp
            S.pblds[p0]["tok"][m] = ("ctor",) if st == "class" else ("inst", S.tok())
            S.pblds[p0]["lw"][m] = set()
    if S.pblds[p0]["comps"] and not any(t in S.pblds[p0]["comps"] for t in S.pblds[p0]["aliases"].values()) and rng.chance(3, 4):
        pb_step(p0, prefer="alias")
    pbuild(p0)
    # one builder produces several pipelines (with and without edits in between); each is trained on other data and run
    if rng.chance(2, 3):
        ops.append({"op": "ptrain", "p": len(S.pipes) - 1, "d": 0})
        ops.append({"op": "prun", "p": len(S.pipes) - 1, "inputs": {"a": 1, "b": 2}})
        for _ in range(rng.randint(1, 2)):
            if rng.chance(1, 2):
                pb_step(p0)
            pbuild(p0)
            ops.append({"op": "ptrain", "p": len(S.pipes) - 1, "d": rng.choice([1, 1, 0])})
            ops.append({"op": "prun", "p": len(S.pipes) - 1, "inputs": {"a": 4, "b": 0}})

    # --- the continuation ---
    for _ in range(rng.randint(6, 18)):
        kind = rng.weighted([("pb", 5), ("pbuild", 2), ("pmodify", 2), ("pclone", 2), ("pfromconfig", 2), ("ptrain", 2), ("prun", 1),
                             ("db", 5), ("dbuild", 2), ("dfrom", 2), ("dsplit", 3), ("dnew", 1), ("pnew", 1)])
        if kind == "pb":
            pb_step(rng.below(len(S.pblds)))
        elif kind == "pbuild":
            pbuild(rng.below(len(S.pblds)))
        elif kind == "pmodify":
            j = rng.below(len(S.pipes))
            ops.append({"op": "pmodify", "p": j})
            p = S.pipes[j]
            S.pblds.append(pcopy(p))
            S.pblds[-1]["derived"] = True
            # the derived builder is edited straight away (its first edits are the ones that meet whatever it took from the pipeline)
            if rng.chance(3, 4):
                for _ in range(rng.randint(1, 3)):
                    pb_step(len(S.pblds) - 1, prefer=rng.choice(["connect", "connect", "clear", "alias", "replace", "replace", None, None]))
                if rng.chance(1, 2):
                    # the derivative is built; the ORIGINAL is what keeps being observed (and run) afterwards
                    pbuild(len(S.pblds) - 1)
        elif kind == "pclone":
            j = rng.below(len(S.pipes))
            ops.append({"op": "pclone", "p": j})
            p = S.pipes[j]
            S.pipes.append(pcopy(p, fresh_toks(p)))
            # "cloning it and training or running the clone"
            if rng.chance(2, 3):
                use_derived(len(S.pipes) - 1)
        elif kind == "pfromconfig":
            # the pipeline's OWN configuration object handed back to lenskit: a pipeline or a builder made from it, from its JSON form,
            # or the object merely validated
            j = rng.below(len(S.pipes))
            how = rng.choice(["pipeline", "pipeline", "builder", "builder", "json", "validate"])
            ops.append({"op": "pfromconfig", "p": j, "how": how})
            p = S.pipes[j]
            if how in ("pipeline", "json"):
                S.pipes.append(pcopy(p, fresh_toks(p)))
                if rng.chance(1, 2):
                    use_derived(len(S.pipes) - 1)
            elif how == "builder":
                S.pblds.append(pcopy(p, fresh_toks(p)))
                for _ in range(rng.randint(0, 2)):
                    pb_step(len(S.pblds) - 1)
                if rng.chance(1, 2):
                    pbuild(len(S.pblds) - 1)
        elif kind == "ptrain":
            ok = [j for j, p in enumerate(S.pipes)
                  if all(not (learner_toks(p) & learner_toks(q)) for k, q in enumerate(S.pipes) if k != j)]
            if ok and S.dsets:
                ops.append({"op": "ptrain", "p": rng.choice(ok), "d": rng.below(len(S.dsets))})
        elif kind == "prun":
            ops.append({"op": "prun", "p": rng.below(len(S.pipes)), "inputs": {"a": rng.randint(0, 9), "b": rng.randint(0, 9)}})
        elif kind == "db":
            db_step(rng.below(len(S.dblds)))
        elif kind == "dbuild":
            dbuild(rng.below(len(S.dblds)))
        elif kind == "dfrom":
            j = rng.below(len(S.dsets))
            ops.append({"op": "dfrom", "d": j})
            S.dblds.append({"ents": {"item": set(items), "user": set(users)}, "rels": {"rating": True} if S.dsets[j]["has_rating"] else {}, "attrs": set()})
        elif kind == "dsplit":
            js = [j for j, d in enumerate(S.dsets) if d["has_rating"]]
            if js:
                j = rng.choice(js)
                how = rng.choice(["sample_records", "crossfold_records", "sample_users", "crossfold_users", "global_time", "temporal_fraction"])
                op = {"op": "dsplit", "d": j, "how": how, "seed": rng.randint(1, 999)}
                if how == "sample_records":
                    op["size"] = rng.randint(1, 3)
                elif how in ("crossfold_records", "crossfold_users"):
                    op["parts"] = 2
                    op["n"] = 1
                    op["last"] = rng.chance(1, 2)
                elif how == "sample_users":
                    op["size"] = rng.randint(1, 2)
                    op["n"] = 1
                    if rng.chance(1, 3):
                        op["repeats"] = 2
                        op["disjoint"] = rng.chance(1, 2)
                elif how == "global_time":
                    op["time"] = 1_000_000 + rng.randint(5, 45) * 1000
                else:
                    op["frac"] = rng.choice([0.2, 0.5])
                ops.append(op)
                n_new = 2 if how.startswith("crossfold") or op.get("repeats") else 1
                for _ in range(n_new):
                    S.dsets.append({"has_rating": True})
        elif kind == "dnew":
            new_dbld(rng.choice(["d1", "aux"]))
        elif kind == "pnew":
            i = new_pbld(rng.choice([None, "second"]))
            ops.append({"op": "pb_input", "b": i, "name": "a"})
            S.pblds[i]["nodes"]["a"] = "in"
    for op in ops:
        if op["op"] in ("pb_add", "pb_replace", "pb_connect"):
            op.setdefault("lits", {})
    return {"kind": "history", "ops": ops, "runs": [{"a": 3, "b": 5}, {"a": 10, "b": 0}], "deep": True, "style": "history"}


def gen_standard(rng):
    users = list(range(100, 108))
    items = list(range(1, 13))
    scorer = rng.choice(SHIPPED)
    return {"kind": "std", "scorer": scorer, "settings": SHIPPED_SETTINGS.get(scorer, {}), "builder": rng.choice(["topn", "predict"]),
            "ratings": gen_ratings(rng, users, items, 40), "users": rng.sample(users, 3) + [999], "candidates": rng.sample(items, 6) + [77],
            "n": rng.choice([3, 5]), "style": "std:" + scorer.split(":")[1],
            # what the model is trained on: the catalogue the candidate lists refer to, or a training set derived from it
            "train_on": rng.choice(["full", "split", "subset", "subset"]), "seed": rng.randint(1, 99)}


def gen_cases(rng, tier):
    n = 80 if tier == "quick" else 1000
    out = []
    for k in range(n):
        r = rng.fork(k)
        out.append(gen_standard(r) if k % 10 == 9 else gen_history(r))
    return out


# ---------------------------------------------------------------------------------------------
# implementation driver
# ---------------------------------------------------------------------------------------------

_ready = False


def run_impl(case):
    global _ready, c14_impl
    if not _ready:
        common.use_repo()
        import logging

        import structlog

        structlog.configure(wrapper_class=structlog.make_filtering_bound_logger(logging.CRITICAL))
        import c14_impl
        _ready = True
    if case["kind"] == "std":
        return c14_impl.run_standard(case)
    return c14_impl.run_history(case)


# ---------------------------------------------------------------------------------------------
# model side
# ---------------------------------------------------------------------------------------------


def cs(s) -> str:
    return '"' + str(s).replace('"', '""') + '"'


def costr(s):
    return "None" if s is None else f"(Some {cs(s)})"


def cdict(d):
    return "[" + "; ".join(f"({cs(k)}, {cs(v)})" for k, v in d.items()) + "]"


def cmeta(m):
    return cdict({k: ("" if v is None else "=" + str(v)) for k, v in m.items()})


def c_pobs(o):
    nodes = "[" + "; ".join(f"({cs(n)}, ({cs(c)}, " + ("None" if st is None else f"Some {cdict(st)}") + "))" for n, c, st in o["nodes"]) + "]"
    edges = "[" + "; ".join(f"({cs(n)}, Some {cdict(dict(sorted(w.items())) if False else w)})" for n, w in o["edges"]) + "]"
    return (f"{{| po_name := {costr(o['name'])}; po_nodes := {nodes}; po_edges := {edges}; po_aliases := {cdict(o['aliases'])}; "
            f"po_default := {costr(o['default'])} |}}")


def c_dobs(o):
    return (f"{{| do_meta := {cmeta(o['meta'])}; do_ents := Some {cdict(o['ents'])}; do_rels := Some {cdict(o['rels'])}; "
            f"do_tables := {cdict(o['tables'])} |}}")


def const(d):
    return f"(fun _ => {cdict(d)})"


def wire_fun(ins):
    f = "w"
    for p, t in ins:
        f = f"(dset {cs(p)} {cs(t)} {f})"
    return f"(fun w => {f})"


def given(op):
    "the string an operation names its node with (a node object stands for its name)"
    return op["via"] if op.get("by") == "alias" else op["name"]


def model_ops(case, obs):
    """the model operations each real step stands for; handles of dataset builders are renumbered because a split
    creates a builder of its own"""
    dmap = []          # real dataset-builder index -> model index
    n_dblds = 0
    n_pblds = 0
    out = []

    def lit_wiring(op, r):
        "a literal VALUE wired to an input: the builder makes a literal node (named after its content) and wires the input to it"
        lits = op.get("lits") or {}
        nodes = [f"PBNode {op['b']} {cs(r['lits'][p_])} (NSLit {cs(repr(v))})" for p_, v in lits.items()]
        return nodes, [[p_, r["lits"][p_]] for p_ in lits]

    for t, (op, st) in enumerate(zip(case["ops"], obs["steps"])):
        r = st["result"]
        k = op["op"]
        ms = []
        err = r["err"]

        def set_builder(i, b):
            return [f"DBMeta {i} (fun _ => {cmeta(b['meta'])})", f"DBEnts {i} {const(b['ents'])}", f"DBRels {i} {const(b['rels'])}",
                    f"DBTables {i} {const(b['tables'])}"]

        if k == "pnew":
            ms.append(f"PNew {costr(op.get('name'))}")
            n_pblds += 1
        elif k == "pb_input" and not err:
            ms.append(f"PBNode {op['b']} {cs(op['name'])} NSIn")
        elif k == "pb_literal" and not err:
            ms.append(f"PBNode {op['b']} {cs(op['name'])} (NSLit {cs(repr(op['value']))})")
        elif k in ("pb_add", "pb_replace") and not err:
            code = CODES[op["comp"]]
            spec = f"(NSCtor {cs(code)})" if op.get("style") == "class" else f"(NSInst {cs(code)})"
            ms.append(f"PBNode {op['b']} {cs(op['name'])} {spec}")
            lnodes, lins = lit_wiring(op, r)
            ms += lnodes
            ms.append(f"PBWire {op['b']} {cs(op['name'])} {wire_fun(op['ins'] + lins)}")
        elif k == "pb_connect" and not err:
            # the model is handed the string the real call was handed (an alias is resolved by the model itself)
            lnodes, lins = lit_wiring(op, r)
            ms += lnodes
            ms.append(f"PBWire {op['b']} {cs(given(op))} {wire_fun(op['ins'] + lins)}")
        elif k == "pb_clear" and not err:
            ms.append(f"PBClear {op['b']} {cs(given(op))}")
        elif k == "pb_alias" and not err:
            ms.append(f"PBAlias {op['b']} (fun a => dset {cs(op['alias'])} {cs(op['node'])} a)")
        elif k == "pb_unalias" and not err:
            ms.append(f"PBAlias {op['b']} (fun a => ddel {cs(op['alias'])} a)")
        elif k == "pb_default" and not err:
            ms.append(f"PBDefault {op['b']} (Some {cs(given(op))})")
        elif k == "pbuild" and not err:
            ms.append(f"PBuild {op['b']}")
        elif k == "pmodify" and not err:
            ms.append(f"PModify {op['p']}")
            n_pblds += 1
        elif k == "pclone" and not err:
            ms.append(f"PClone {op['p']}")
        elif k == "pfromconfig" and not err:
            if op["how"] in ("pipeline", "json"):
                # Pipeline.from_config(cfg) = PipelineBuilder.from_config(cfg).build(): what clone() does
                ms.append(f"PClone {op['p']}")
            elif op["how"] == "builder":
                # PipelineBuilder.from_config performs builder calls -- create_input, literal, add_component with a newly made instance,
                # connect, alias -- on a NEW builder, reading the configuration as it stood before the call
                # (Model/C14_heap.v: from_config_ops; theorem from_config_of_own_configuration_frozen)
                src = obs["steps"][t - 1]["snap"]["pipes"][op["p"]]
                ms = f"(from_config_ops {n_pblds} {c_pobs(src)})"
                n_pblds += 1
        elif k == "ptrain" and not err:
            ms.append(f"PTrain {op['p']} {cs(r['label'])} [" + "; ".join(cs(c) for c in TRAINABLE_CODES) + "]")
        elif k == "prun":
            ms.append(f"PRun {op['p']}")
        elif k == "dnew":
            dmap.append(n_dblds)
            b = r["builder"]
            ms.append(f"DNew {cmeta(b['meta'])} {cdict(b['ents'])}")
            ms += set_builder(n_dblds, b)
            n_dblds += 1
        elif k == "dfrom" and not err:
            dmap.append(n_dblds)
            ms.append(f"DFrom {op['d']}")
            n_dblds += 1
        elif k.startswith("db_"):
            if "builder" in r:
                ms += set_builder(dmap[op["b"]], r["builder"])
        elif k == "dbuild" and not err:
            ms.append(f"DBuild {dmap[op['b']]}")
        elif k == "dsplit" and not err:
            for new in r["new"]:
                d = st["snap"]["dsets"][new]
                ms.append(f"DFrom {op['d']}")
                ms += set_builder(n_dblds, d)
                ms.append(f"DBuild {n_dblds}")
                n_dblds += 1
        out.append(ms)
    return out


def coq_term(case, obs):
    if case["kind"] != "history":
        return None
    mops = model_ops(case, obs)
    steps = []
    # an object that does not change is observed identically after every step: the observations are written as differences
    # (Model/C14_heap.v: trace_ok_d; None = exactly as after the previous step)
    prev = {"pipes": [], "dsets": []}

    def delta(fam, render, objs):
        cur = [render(o) for o in objs]
        out = ["None" if j < len(prev[fam]) and prev[fam][j] == c else f"Some {c}" for j, c in enumerate(cur)]
        prev[fam] = cur
        return "[" + "; ".join(out) + "]"

    for ms, st in zip(mops, obs["steps"]):
        ps = delta("pipes", c_pobs, st["snap"]["pipes"])
        ds = delta("dsets", c_dobs, st["snap"]["dsets"])
        steps.append("(" + (ms if isinstance(ms, str) else "[" + "; ".join(ms) + "]") + f",\n   ({ps}, {ds}))")
    return share_strings("trace_ok_d init [] [] [" + ";\n ".join(steps) + "]")


_STRLIT = __import__("re").compile(r'"(?:[^"]|"")*"')


_STRINGS: dict = {}


def share_strings(term: str) -> str:
    """Every distinct string literal of the case terms becomes a constant `sx<k>` defined once in the header of the case files (the
    framework reads CASE_HEADER after all terms have been made).  A history repeats the same few dozen strings -- node names, component
    codes, rendered schema entries, table digests -- thousands of times, and reading a string literal is what Coq spends its time on;
    binding them with `let` inside the term is no cure (elaboration slows down with the size of the local context)."""
    global CASE_HEADER
    n0 = len(_STRINGS)
    body = _STRLIT.sub(lambda m: _STRINGS.setdefault(m.group(0), f"sx{len(_STRINGS)}"), term)
    if len(_STRINGS) != n0:
        CASE_HEADER = BASE_HEADER + "\n" + "\n".join(f"Definition {v} := {k}." for k, v in _STRINGS.items())
    return body


# ---------------------------------------------------------------------------------------------
# the property as a predicate on implementation output (independent of the Coq model)
# ---------------------------------------------------------------------------------------------

P_CONST = ["name", "edges", "aliases", "default", "hash", "hash_of_config", "config", "nic", "private_edges", "lookup", "inst", "settings"]


def render_history(case, obs, t0, t1):
    "the operations from step t0 to step t1, with the handles they worked on"
    out = []
    for op, st in list(zip(case["ops"], obs["steps"]))[t0:t1 + 1]:
        h = ",".join(f"{k}{op[k]}" for k in ("b", "p", "d") if k in op)
        extra = op.get("name") or op.get("alias") or op.get("cls") or op.get("how") or ""
        if op.get("by") == "alias":
            extra = f"{extra} as alias {op['via']}"
        elif op.get("by") == "node":
            extra = f"{extra} as node object"
        out.append(f"{op['op']}({h}{':' + str(extra) if extra else ''}){'!' + st['result']['err'] if st['result']['err'] else ''}")
    return " -> ".join(out)


def show_diff(a, b, width=110):
    "two renderings cut around the first place where they differ"
    a, b = json.dumps(a), json.dumps(b)
    k = next((i for i, (x, y) in enumerate(zip(a, b)) if x != y), min(len(a), len(b)))
    lo = max(0, k - width // 3)
    return f"{'...' if lo else ''}{a[lo:lo + width]} -> {'...' if lo else ''}{b[lo:lo + width]}"


def rebased_d(ref, o):
    """a description that changed while observation `o` was reading the dataset is reported as such (changed-by-reading); what follows is
    compared with what it had become when that observation ended"""
    e = o.get("end")
    if not e:
        return ref
    return {**ref, "meta": e["meta"], "ents": e["ents"], "rels": e["rels"], "views": {**ref.get("views", {}), "schema-json": e["schema-json"]}}


def oracle(case, obs):
    v = []

    def bad(key, msg):
        if all(k != key for k, _ in v):
            v.append((key, msg))

    if case["kind"] == "std":
        for c in obs["changes"]:
            bad(f"itemlist-input-changed:{c}", f"an ItemList handed to {c} was different after the call: {(obs.get('details') or {}).get(c, [])} differ "
                f"(scorer {case['scorer']}, {case['builder']} pipeline, trained on {obs.get('train_on', 'full')})")
        if not obs["dataset_unchanged"]:
            diff = [k for k in obs["before"] if obs["before"][k] != obs["after"][k]]
            bad("dataset-changed-by-train-or-run", f"training/running a pipeline changed the dataset ({diff})")
        return v
    first_p, first_d = {}, {}
    trained = set()
    seen = set()       # (object, field) already reported: a difference is attributed to the step where it first shows

    def once(tag):
        if tag in seen:
            return False
        seen.add(tag)
        return True

    for t, (op, st) in enumerate(zip(case["ops"], obs["steps"])):
        if op["op"] == "ptrain" and not st["result"]["err"]:
            trained.add(op["p"])
        # the step a difference first shows after, with what distinguishes it: how the node was named / which splitter ran
        after = op["op"] + (":by-" + op["by"] if op.get("by", "name") != "name" else "") + (":" + op["how"] if "how" in op else "")
        # component instances: two pipelines hold the same object only where that is specified (modify(), caller's instance)
        pipes = st["snap"]["pipes"]
        for j in range(len(pipes)):
            for k2 in range(j + 1, len(pipes)):
                for n, (ident, tok) in pipes[j].get("inst", {}).items():
                    for n2, (ident2, tok2) in pipes[k2].get("inst", {}).items():
                        if ident == ident2 and tok != tok2 and once(("inst", j, k2, n)):
                            bad(f"component-instance-shared:after-{op['op']}",
                                f"pipelines #{j} and #{k2} hold the same component object for node {n} although each should have its own; "
                                f"history: {render_history(case, obs, 0, t)}")
        # an observation only READS: the description of an object (configuration document; schema document and tables) is re-read after
        # each group of accessors within one observation
        for fam, objs in (("pipeline", st["snap"]["pipes"]), ("dataset", st["snap"]["dsets"])):
            for j, o in enumerate(objs):
                for what in o.get("read_changes", []):
                    if once((fam, j, "read", what)):
                        bad(f"{fam}-changed-by-reading:{what}", f"{fam} #{j}: its {'configuration' if fam == 'pipeline' else 'schema / tables'} changed while it was "
                            f"only being read ({what}), at the observation after step {t} ({op['op']}); history: {render_history(case, obs, 0, t)}")
        for j, o in enumerate(st["snap"]["pipes"]):
            if j not in first_p:
                first_p[j] = (t, {**o, **(o.get("end") or {})})
                continue
            t0, o0 = first_p[j]
            for f in P_CONST:
                if f not in o or f not in o0:
                    continue
                if o[f] != o0[f] and once(("p", j, f)):
                    bad(f"pipeline-changed:{f}:after-{after}", f"pipeline #{j} built at step {t0} has a different {f} after step {t} ({op['op']}): "
                                                              f"{show_diff(o0[f], o[f])}; history: {render_history(case, obs, t0, t)}")
            if not (op["op"] == "ptrain" and op["p"] == j and not st["result"]["err"]):
                for f in ("nodes", "runs"):
                    if o[f] != o0[f] and once(("p", j, f)):
                        bad(f"pipeline-changed:{f}:after-{after}", f"pipeline #{j} (not trained since it was last observed) has different {f} after step {t} "
                            f"({op['op']}): {show_diff(o0[f], o[f])}; history: {render_history(case, obs, t0, t)}")
            else:
                # the pipeline itself was trained in this step: its component state and results are re-recorded from here on
                first_p[j] = (t, {**o0, "nodes": o["nodes"], "runs": o["runs"]})
            if o.get("end"):
                # the configuration changed while this observation was reading it (reported above): what follows is compared with what it became
                first_p[j] = (first_p[j][0], {**first_p[j][1], **o["end"]})
        for j, o in enumerate(st["snap"]["dsets"]):
            if j not in first_d:
                first_d[j] = (t, rebased_d(o, o))
                continue
            t0, o0 = first_d[j]
            for f in ("meta", "ents", "rels", "tables"):
                if o[f] != o0[f] and once(("d", j, f)):
                    bad(f"dataset-changed:{f}:after-{after}", f"dataset #{j} built at step {t0} has a different {f} after step {t} ({op['op']}): "
                                                             f"{show_diff(o0[f], o[f], 140)}; history: {render_history(case, obs, t0, t)}")
            ks = [k for k in o.get("views", {}) if k in o0.get("views", {}) and o["views"][k] != o0["views"][k]]
            ks += [k for k in o0.get("views", {}) if k != "saved" and k not in o.get("views", {})]
            # one report per kind of view (identifiers, attributes, relationship frames, matrices, statistics, counts, rows, saved form, schema document)
            for kind in sorted({k.split(":")[0] for k in ks}):
                if once(("d", j, "views", kind)):
                    mine = [k for k in ks if k.split(":")[0] == kind]
                    bad(f"dataset-changed:view-{kind}:after-{after}", f"dataset #{j} built at step {t0} shows different {mine} after step {t} ({op['op']}): "
                        f"{json.dumps(o0['views'].get(mine[0]))[:100]} -> {json.dumps(o.get('views', {}).get(mine[0]))[:100]}; "
                        f"history: {render_history(case, obs, t0, t)}")
            first_d[j] = (t0, rebased_d(first_d[j][1], o))
    return v


def nontrivial(case, obs):
    if case["kind"] == "std":
        return obs["calls"] >= 3
    created = {}
    muts = 0
    watched = 0
    for t, (op, st) in enumerate(zip(case["ops"], obs["steps"])):
        for j in range(len(st["snap"]["pipes"])):
            created.setdefault(("p", j), t)
        for j in range(len(st["snap"]["dsets"])):
            created.setdefault(("d", j), t)
        if op["op"].startswith(("pb_", "db_")) and not st["result"]["err"]:
            muts += 1
    n = len(case["ops"])
    watched = sum(1 for t0 in created.values() if n - t0 > 3)
    return watched >= 1 and muts >= 1


def pipe_facts(o):
    "what kinds of component a pipeline observation shows, and how many of its literal nodes nothing refers to"
    cfg = json.loads(o["config"])
    used = {t for c in cfg["components"].values() for t in c["inputs"].values()} | set(cfg["aliases"].values()) | {cfg.get("default")}
    codes = {c["code"] for c in cfg["components"].values()}
    return {"orphans": sum(1 for n in cfg["literals"] if n not in used), "literals": len(cfg["literals"]),
            "plain": any(c.startswith("c14_comp:") for c in codes), "plain_trainable": "c14_comp:PlainLearner" in codes}


def counters(case, obs):
    yield "style=" + case["style"].split(":")[0]
    if case["kind"] == "std":
        yield "scorer=" + case["scorer"].split(":")[1]
        yield f"component-calls-watched={min(obs['calls'] // 20 * 20, 200)}"
        yield f"trained-on={obs.get('train_on', 'full')}"
        for kd in obs.get("list_kinds", []):
            yield "item-list=" + kd
        return
    yield f"steps={min(len(case['ops']) // 5 * 5, 40)}"
    for op, st in zip(case["ops"], obs["steps"]):
        yield "op=" + op["op"] + (":error" if st["result"]["err"] else "")
        if op["op"] == "dsplit":
            yield "split=" + op["how"] + (":repeats" if op.get("repeats") else "")
        if "by" in op:
            yield f"{op['op']}:node-named-by={op['by']}"
        if op["op"] in ("pb_add", "pb_replace", "pb_connect") and not st["result"]["err"]:
            yield f"{op['op']}:literal-values-wired={len(op.get('lits') or {})}"
            if op["op"] != "pb_connect":
                yield f"component-kind={'function' if op['style'] == 'fn' else 'plain-callable-object' if CODES[op['comp']].startswith('c14_comp') else 'Component-by-' + op['style']}" \
                      f"{'(trainable)' if op['comp'] in TRAINABLE else ''}"
        if op["op"] == "pb_replace" and not st["result"]["err"] and "was" in op:
            what = ("same-class-" + {"instance": "other-instance", "class": "by-class", "fn": "function"}[op["style"]] if op["was"] == op["comp"]
                    else "other-" + {"instance": "instance", "class": "class", "fn": "function"}[op["style"]])
            yield f"pb_replace:{'derived' if op.get('on_derived') else 'own'}-builder:{what}"
        if op["op"] in ("pclone", "pfromconfig", "pmodify", "ptrain") and not st["result"]["err"]:
            f = pipe_facts(st["snap"]["pipes"][op["p"]])
            tag = op["op"] + (":" + op["how"] if "how" in op else "")
            if op["op"] != "ptrain":
                yield f"{tag}:source-has-unreferenced-literal={f['orphans'] > 0}"
                yield f"{tag}:source-has-plain-callable-object={f['plain']}"
            else:
                yield f"ptrain:target-has-trainable-plain-callable={f['plain_trainable']}"
        if op["op"] == "dbuild" and not st["result"]["err"]:
            d = st["snap"]["dsets"][-1]
            n_int = sum(1 for v in d["rels"].values() if json.loads(v).get("interaction"))
            yield "dbuild:default-interaction-class=" + ("marked" if d["meta"]["default_interaction"] else
                                                         {0: "none", 1: "unmarked-single"}.get(n_int, "unmarked-several"))
        if op["op"] in ("dsplit", "dfrom") and not st["result"]["err"] and op["d"] < len(st["snap"]["dsets"]):
            f = st["snap"]["dsets"][op["d"]].get("facts")
            if isinstance(f, dict):
                yield f"{op['op']}:source-has-empty-class={bool(f['empty_classes'])}"
                yield f"{op['op']}:source-has-idle-users={bool(f['idle_users'])}"
        if op["op"] == "pb_connect" and op.get("by") == "alias" and not st["result"]["err"] and any(
                o2["op"] == "pmodify" and sum(1 for o3 in case["ops"][:k2 + 1] if o3["op"] in ("pnew", "pmodify")) - 1 == op["b"]
                for k2, o2 in enumerate(case["ops"])):
            yield "connect-by-alias-on-modifying-builder"
    last = obs["steps"][-1]["snap"]
    yield f"pipelines={len(last['pipes'])}"
    yield f"datasets={min(len(last['dsets']), 8)}"


def sample(case, obs):
    if case["kind"] == "std":
        return {"case": {k: case[k] for k in ("scorer", "builder", "users")}, "observation": {k: obs[k] for k in ("changes", "calls", "results", "dataset_unchanged")}}
    return {"case": {"ops": case["ops"][:12]},
            "observation": {"steps": len(obs["steps"]), "errors": [s["result"]["err"] for s in obs["steps"]],
                            "last": {"pipes": [{k: p[k] for k in ("name", "edges", "aliases", "default", "hash")} for p in obs["steps"][-1]["snap"]["pipes"]][:2]}}}


_SHRINK_BUDGET = [45]


def shrink(case, fails):
    "drop operations from the end, then single non-creating operations; every trial replays the whole history, so the effort is capped"
    if case["kind"] != "history" or _SHRINK_BUDGET[0] <= 0:
        return case
    ops = list(case["ops"])

    def trial(c):
        if _SHRINK_BUDGET[0] <= 0:
            return False
        _SHRINK_BUDGET[0] -= 1
        return fails(c)

    lo, hi = 3, len(ops)          # shortest failing prefix by bisection
    while lo < hi and _SHRINK_BUDGET[0] > 0:
        mid = (lo + hi) // 2
        if trial({**case, "ops": ops[:mid]}):
            hi = mid
        else:
            lo = mid + 1
    if hi < len(ops) and trial({**case, "ops": ops[:hi]}):
        ops = ops[:hi]
    creating = {"pnew", "pbuild", "pmodify", "pclone", "dnew", "dfrom", "dbuild", "dsplit"}
    i = len(ops) - 2
    while i >= 0 and _SHRINK_BUDGET[0] > 0:
        if ops[i]["op"] not in creating:
            cand = ops[:i] + ops[i + 1:]
            if trial({**case, "ops": cand}):
                ops = cand
        i -= 1
    return {**case, "ops": ops}
