"""C18 -- retraining fully replaces a model; skipping retraining leaves it untouched (DESIGN.md section 4, C18)."""

from __future__ import annotations

import hashlib
import pickle

import c18_lib as L
import c18_life as LIFE
import c18_shapes as S
import common
from common import cbool, clist, cnat, cstr, cz
from framework import TranslateError  # noqa: F401

PID = "C18"
PROPS_FILE = "Props/C18.v"
GEN_FILES = ["Gen/C18_frames.v"]
MODEL_FILES = ["Model/C18_retrain.v"]
ALLOWED_AXIOMS: list[str] = []
CASE_HEADER = ("From Coq Require Import ZArith Bool String.\n"
               "From LK Require Import Model.C18_retrain Gen.C18_frames.")
SHARD = 60
TRUSTED = [
    "Coq 8.16.1 kernel + vm_compute (no native_compute); Print Assumptions of every theorem in Props/C18.v: closed under the global context",
    "frame extractor harness/translate/c18.py (Python ast -> per class and configuration variant: guard, attributes assigned on every / some "
    "path of train() through the MRO, old attributes read by train(), attributes read / assigned by __call__; Pipeline.train seed plan); "
    "its flow rules are stated at the top of that file; functions that do not receive `self` are assumed not to touch the component; "
    "state outside the components is SCANNED, not assumed absent: memoising decorators, id() calls, `global` assignments, module- / class-level "
    "containers and container defaults written by functions, over every module import-reachable from a trainable class, Pipeline.train and "
    "training.py; the list PROCESS_STATE_ALLOWED (logging / progress display, parallel configuration, the global generator, named-tuple key "
    "classes) in that file is trusted to name no data a model is computed from; state kept on the Dataset object or behind C extensions is not scanned",
    "library contract as an explicit hypothesis of seeds_distinct: numpy SeedSequence.spawn gives different children different seeds "
    "(spawn injective in the child index)",
    "correspondence harness: sha256-based digests of canonical bytes of every learned attribute (harness/c18_lib.py:canon), compared inside Coq "
    "against the model's prediction; numpy/torch/scipy/sklearn/implicit kernels are exercised single-threaded, not verified",
]
ASSUMPTIONS = [
    "iterative models run at least one epoch (IterativeTraining documents trained_epochs > 0 as its already-trained test; with epochs = 0 a component never counts as trained)",
    "a training call that raises is outside the property (the object may then be partially updated) -- except that raising must not depend on the "
    "history: a retraining returns normally exactly when a fresh component trained on the same data and options does",
    "scikit-learn / implicit draw from numpy's global generator unless configured: the driver pins it before each training so equal inputs give equal bits",
    "a component instance appears under one pipeline node (Pipeline.train trains per node)",
    "a sequence of numbers given as a seed is not empty (the model's KSeedZero is the NUMBER zero as int or numpy integer)",
    "lifetime cases: which addresses CPython recycles is not controlled by the driver; it is recorded per fold, and a case counts as non-trivial "
    "only if some dataset object was allocated at the address of a dropped earlier one",
]
RULE = ("component histories: 2-4 train calls over 2-3 generated datasets with shifted user/item id ranges and different sizes, both retrain "
        "settings, explicit seeds, every shipped trainable component that can be trained here (17 kinds, several configurations each) plus the "
        "standard top-N / prediction pipelines, pipelines of instrumented components under every kind of options.rng (recording the seed handed over AND the "
        "first draws of the generator obtained from options.random_generator(), against the positional children of the supplied seed), and seeded "
        "pipelines holding two or three real stochastic scorers (each against the same component trained alone with its child seed); probe list = all users "
        "and items of all datasets of the history plus unseen ones, with and without a supplied user history.  Training DATA shapes are a generated "
        "dimension: per kind one history for each of old-timestamps (nothing inside any time window) / recent-timestamps / no-ratings / one-user / one-item / "
        "equal-ratings / single-row / no-timestamps as the later (3 in 4) or the earlier dataset, the retraining on it with retrain on, compared with a fresh "
        "component trained on that dataset alone (if that raises, the retraining must raise too).  Pipeline SHAPES are a generated dimension: instrumented "
        "pipelines are wired graphs (0-2 sources per node, shared sources, use_first_of fallbacks, default node and / or aliases or neither), every node "
        "has a train counter and is run by name after every training; real pipelines include a fallback predictor behind a transforming rating-predictor node "
        "and a second scorer reachable by name only, every component compared with the same component trained alone; scorer pairs are wired with one declared output.  Seed VALUES are a generated dimension (0, the ends of the 32- / 64-bit ranges, beyond 64 bits; as int, numpy "
        "integer scalar, one- and two-element list, tuple, SeedSequence, generator, bit generator) for instrumented pipelines, scorer pairs and 1 in 4 step lists.  Object "
        "LIFETIMES are a generated dimension (type=life): fold loops over 16-80 small datasets, reference pass with everything alive, then a pass that keeps the models "
        "(all / window / long-lived only), drops the datasets (all / all but every 4th) and collects (each fold / every 8th / never), a fresh and a long-lived object per "
        "fold compared with the reference object of the fold, directly or through a standard pipeline with a bias fallback; non-trivial there = some dataset object was "
        "allocated at the address of a dropped earlier one.  non-trivial = at least two "
        "effective trainings on datasets with different item or user vocabularies, or a skipped call after a training; for instrumented pipelines: "
        "at least two trainable nodes and a supplied seed; for scorer pairs: two equal stochastic scorers in one pipeline; distinct = by hash of the case")

_frames = None


def translate():
    from translate import c18 as t
    from translate.pyq import TranslateError as TE
    try:
        return t.translate(common.SRC)
    except TE as e:
        raise TranslateError(str(e))


def frames_info():
    global _frames
    if _frames is None:
        from translate import c18 as t
        try:
            _frames = {c["class"]: c for c in t.extract(common.SRC)["classes"]}
        except Exception:   # the translator failed closed: no variant can be named, the model side is `false`
            _frames = {}
    return _frames


def variant_label(comp) -> str | None:
    """Which generated configuration variant describes this component (its atoms evaluated on the live object)."""
    from translate import c18 as t
    info = frames_info().get(type(comp).__name__)
    if info is None:
        return None
    for v in info["variants"]:
        ok = True
        for atom, want in v["assume"].items():
            try:
                got = bool(eval(atom, {"self": comp}))
            except Exception:
                ok = False
                break
            if got != want:
                ok = False
                break
        if ok:
            return t.label(v["assume"])
    return None


# ---------------------------------------------------------------------------------------------
# generator
# ---------------------------------------------------------------------------------------------

COST = {"flexe": 2, "flexi": 2, "als": 2, "ials": 2, "funk": 2, "impals": 2, "impbpr": 2, "svd": 2}
PIPE_SCORERS = ["bias", "iknn", "als", "pop", "uknn", "ials"]
RNG_KINDS = ["int", "int", "seedseq", "seedseq-spawned", "none", "generator", "bitgen", "intlist", "npint", "npint", "list1", "tuple"]
SEEDLIKE_KINDS = ("int", "npint", "intlist", "list1", "tuple")      # seeds that Pipeline.train has to wrap in a SeedSequence itself
# seed VALUES are a generated dimension: every non-negative integer is a seed -- zero (false in a truth test), the
# ends of the 32- / 64-bit ranges (numpy integer scalars change type there) and values beyond any machine word
SEED_EDGES = [1, 2**31 - 1, 2**31, 2**32 - 1, 2**32, 2**63 - 1, 2**63, 2**64 - 1, 2**64, 2**128 + 5]


def gen_seed_value(rng, lo=0):
    how = rng.weighted([("zero", 1), ("edge", 1), ("plain", 2)])
    if how == "zero" and lo == 0:
        return 0
    if how == "edge":
        return rng.choice(SEED_EDGES)
    return rng.randint(1, 2**31 - 1)


def seed_object(kind, s):
    """The object handed over as TrainingOptions.rng for a seed value `s` in the representation `kind`."""
    import numpy as np
    if kind == "int":
        return s
    if kind == "npint":       # the numpy integer scalar that holds the value, a Python integer beyond 64 bits
        return np.int64(s) if s < 2**63 else (np.uint64(s) if s < 2**64 else s)
    if kind == "intlist":
        return [s, 7]
    if kind == "list1":
        return [s]
    if kind == "tuple":
        return (s, 3)
    if kind in ("seedseq", "seedseq-spawned"):
        return np.random.SeedSequence(s)
    if kind == "generator":
        return np.random.default_rng(s)
    if kind == "bitgen":
        return np.random.PCG64(s)
    return None


def coq_rng_kind(kind, s):
    """The model's kind of options.rng; a seed that is false in a truth test (the number zero) is a kind of its own."""
    if kind in ("int", "npint"):
        return "KSeedZero" if s == 0 else "KSeedLike"
    return RNG_KIND_COQ[kind]


def gen_steps(rng, nds):
    n = rng.weighted([(2, 4), (3, 4), (4, 1)])
    steps = []
    for k in range(n):
        ds = k % nds if rng.chance(3, 4) else rng.below(nds)
        retrain = True if k == 0 and rng.chance(3, 4) else rng.chance(3, 5)
        steps.append({"ds": ds, "retrain": retrain, "seed": rng.randint(1, 10**6)})
    if rng.chance(1, 4):
        steps.append({"ds": rng.below(nds), "retrain": False, "seed": rng.randint(1, 10**6)})
    if rng.chance(1, 4):        # seed values: zero, the ends of the machine ranges, beyond them
        r = rng.fork("seed-values")
        for st in steps:
            st["seed"] = gen_seed_value(r)
    return steps


def gen_comp_case(rng, kind, malformed=False, shape=None):
    nds = rng.weighted([(2, 3), (3, 2)])
    specs = [L.gen_dataset(rng, t, small=rng.chance(1, 3)) for t in range(nds)]
    steps = gen_steps(rng, nds)
    if malformed:
        # a dataset the component cannot be trained on (no ratings / a single pair)
        bad = rng.below(nds)
        if rng.chance(1, 2):
            specs[bad]["implicit"] = True
        else:
            specs[bad]["rows"] = specs[bad]["rows"][:1]
    if shape is not None:
        # training DATA shapes: one dataset of the history makes the learned statistics empty or degenerate -- mostly the
        # LATER one, on which an already trained object is retrained (retrain on); sometimes the earlier one
        r = rng.fork("shape")
        which = 1 if r.chance(3, 4) else 0
        specs[which] = S.reshape(specs[which], shape, r)
        if shape in ("old-timestamps", "recent-timestamps"):
            specs[1 - which]["timestamps"] = True     # the other dataset has a time window with something in it
        steps = [{"ds": 0, "retrain": r.chance(1, 2), "seed": r.randint(1, 10**6)},
                 {"ds": 1, "retrain": True, "seed": r.randint(1, 10**6)}]
        tail = r.weighted([("none", 2), ("skip", 1), ("back", 1)])
        if tail == "skip":
            steps.append({"ds": r.below(nds), "retrain": False, "seed": r.randint(1, 10**6)})
        elif tail == "back":
            steps.append({"ds": 0, "retrain": True, "seed": r.randint(1, 10**6)})
    return {"type": "comp", "kind": kind, "cfg": L.gen_config(rng, kind), "datasets": specs,
            "steps": steps, "probes": L.gen_probes(rng, specs), "malformed": malformed}


PIPE_BUILDERS = ["topn", "predict", "topn-pred", "topn-transform", "topn-side", "predict-side"]
SIDE_KINDS = ["pop", "bias", "iknn", "als"]


def gen_pipe_case(rng, j=0):
    kind = rng.choice(PIPE_SCORERS)
    nds = 2
    specs = [L.gen_dataset(rng, t) for t in range(nds)]
    case = {"type": "pipe", "builder": rng.choice(["topn", "predict", "topn-pred"]), "kind": kind, "cfg": L.gen_config(rng, kind),
            "datasets": specs, "steps": gen_steps(rng, nds)[:3], "probes": L.gen_probes(rng, specs), "n": rng.choice([-1, 3])}
    r = rng.fork("shape")
    if j % 2 == 1:
        # pipeline SHAPES with trainable components off every declared output: a fallback predictor behind a transforming
        # (hence not aliased) rating-predictor node, or a second scorer that is only ever run by name
        case["builder"] = r.choice(["topn-transform", "topn-side", "predict-side"])
        if case["builder"] != "topn-transform":
            sk = r.choice(SIDE_KINDS)
            case["side"] = {"kind": sk, "cfg": L.gen_config(r, sk)}
    if j % 5 == 4:
        how = r.choice(S.DATA_SHAPES)
        specs[1] = S.reshape(specs[1], how, r)
        case["steps"] = [{"ds": 0, "retrain": True, "seed": r.randint(1, 10**6)}, {"ds": 1, "retrain": True, "seed": r.randint(1, 10**6)}]
    return case


def gen_instr_case(rng):
    n = rng.randint(1, 7)
    nodes = [{"name": f"c{j}", "trainable": rng.chance(2, 3)} for j in range(n)]
    case = {"type": "instr", "nodes": nodes, "rng": rng.choice(RNG_KINDS), "seed": rng.randint(0, 2**31 - 1),
            "spawned_before": rng.randint(1, 4), "retrain": rng.chance(1, 2), "repeat": rng.choice([1, 1, 2]),
            "options_none": rng.chance(1, 8)}
    case["seed"] = gen_seed_value(rng.fork("seed-value"))
    # the SHAPE of the pipeline: unconnected nodes without declared outputs, or a wired graph with a default node / aliases
    case["wiring"] = S.gen_wiring(rng.fork("wiring"), [nd["name"] for nd in nodes]) if rng.chance(3, 4) else None
    return case


STOCHASTIC = ["als", "ials", "funk", "flexe", "flexi", "svd"]


def gen_pair_case(rng):
    n = rng.randint(2, 3)
    first = rng.choice(STOCHASTIC)
    cfg = L.gen_config(rng, first)
    members = [{"kind": first, "cfg": cfg}, {"kind": first, "cfg": cfg}]          # two equal stochastic scorers ...
    if n == 3:
        k = rng.choice(STOCHASTIC)
        members.insert(rng.below(3), {"kind": k, "cfg": L.gen_config(rng, k)})   # ... and possibly a third one
    case = {"type": "pair", "members": members, "dataset": L.gen_dataset(rng, 0), "seed": rng.randint(1, 10**6),
            "seed_kind": rng.choice(["int", "int", "seedseq", "intlist"]), "deterministic_between": rng.chance(1, 2)}
    r = rng.fork("seed-value")
    case["seed"] = gen_seed_value(r)
    case["seed_kind"] = r.choice(["int", "int", "npint", "seedseq", "intlist", "list1", "tuple"])
    if case["seed"] == 0 and r.chance(2, 3):
        case["seed_kind"] = r.choice(["int", "npint"])      # the representations in which zero is false in a truth test
    # the SHAPE around the scorers: unconnected nodes, or all wired to the pipeline inputs with ONE of them the declared output
    # (default node or alias) -- the others are side branches, reachable by their node names only
    r = rng.fork("layout")
    case["layout"] = r.choice(["flat", "default", "alias", "default+alias"])
    case["output"] = r.below(len(members))
    return case


def gen_cases(rng, tier):
    mult = 1 if tier == "quick" else 16
    out = []
    k = 0
    for kind in L.KINDS:
        n = (14 if COST.get(kind, 1) == 1 else 10) * mult
        for j in range(n):
            out.append(gen_comp_case(rng.fork(("comp", kind, j)), kind, malformed=(j % 7 == 6)))
        for rep in range(max(1, mult // 4)):
            for how in S.DATA_SHAPES:
                out.append(gen_comp_case(rng.fork(("comp-shape", kind, how, rep)), kind, shape=how))
    for j in range(30 * mult):
        out.append(gen_pipe_case(rng.fork(("pipe", j)), j))
    for j in range(80 * mult):
        out.append(gen_instr_case(rng.fork(("instr", j))))
    for j in range(24 * mult):
        out.append(gen_pair_case(rng.fork(("pair", j))))
    # object LIFETIMES: fold loops that keep the trained models and drop the datasets
    for kind in L.KINDS:
        costly = COST.get(kind, 1) != 1
        for j in range((1 if costly else 2) * max(1, mult // 4)):
            out.append(LIFE.gen_case(rng.fork(("life", kind, j)), kind, costly))
    return out


# ---------------------------------------------------------------------------------------------
# implementation driver
# ---------------------------------------------------------------------------------------------


def _hash_bytes(b: bytes) -> str:
    return hashlib.sha256(b).hexdigest()[:16]


def _probes(comp, kind, probes):
    """Probe outputs; a component that cannot answer at all (nothing learned) answers with its error."""
    try:
        return L.probe_digests(comp, kind, probes)
    except Exception as e:
        return [_dz(("error", type(e).__name__))]


def _err(e: Exception) -> str:
    return type(e).__name__


def run_comp(case):
    L.setup()
    import warnings
    kind, cfg = case["kind"], case["cfg"]
    comp = L.make(kind, cfg)
    obs = {"class": type(comp).__name__, "variant": variant_label(comp), "steps": []}
    with warnings.catch_warnings():
        warnings.simplefilter("ignore")
        for st in case["steps"]:
            ds = L.dataset(case["datasets"][st["ds"]])
            before = pickle.dumps(comp)
            err = ferr = None
            try:
                L.train(comp, ds, st["retrain"], st["seed"])
            except Exception as e:  # training rejected the data; the history ends here (the object may be partially updated)
                err = _err(e)
            after = None if err else pickle.dumps(comp)
            # the reference: a freshly constructed component trained on this dataset alone -- it may reject the data too
            fresh = L.make(kind, cfg)
            try:
                L.train(fresh, ds, st["retrain"], st["seed"])
            except Exception as e:
                fresh, ferr = None, _err(e)
            if err:
                obs["steps"].append({"error": err, "fresh_error": ferr})
                break
            obs["steps"].append({
                "store": L.store_of(comp),
                "fresh": None if fresh is None else L.store_of(fresh),
                "hp": _probes(comp, kind, case["probes"]),
                "fp": None if fresh is None else _probes(fresh, kind, case["probes"]),
                "pickle_same": before == after,
                "fresh_error": ferr,
            })
    obs["fallbacks"] = sorted(L.fallbacks)
    return obs


def build_pipe(case):
    from lenskit.basic.bias import BiasScorer
    from lenskit.pipeline import RecPipelineBuilder, predict_pipeline, topn_pipeline

    sc = L.make(case["kind"], case["cfg"])
    how = case["builder"]
    if how == "topn":
        return topn_pipeline(sc, n=case["n"])
    if how == "topn-pred":
        return topn_pipeline(sc, predicts_ratings=True, n=case["n"])
    if how == "predict":
        return predict_pipeline(sc)
    if how == "topn-transform":
        # rating-predictor is a component node of its own here, not an alias: the fallback predictor behind it feeds no declared output
        rb = RecPipelineBuilder()
        rb.scorer(sc)
        rb.ranker(n=case["n"])
        rb.predicts_ratings(transform=S.classes()["ClipTransform"](), fallback=BiasScorer())
        return rb.build()
    if how in ("topn-side", "predict-side"):
        # a second scorer wired to the same inputs, reachable by its node name only
        base = topn_pipeline(sc, n=case["n"]) if how == "topn-side" else predict_pipeline(sc)
        b = base.modify()
        side = L.make(case["side"]["kind"], case["side"]["cfg"])
        items = b.node("candidates", missing="none")
        if items is None:
            items = b.node("items")
        if case["side"]["kind"] == "pop":
            b.add_component("side-scorer", side, items=items)
        else:
            b.add_component("side-scorer", side, query=b.node("history-lookup"), items=items)
        return b.build()
    raise KeyError(how)


def pipe_components(pipe):
    from lenskit.pipeline.nodes import ComponentInstanceNode
    from lenskit.training import Trainable

    out = []
    for node in pipe.nodes():
        if isinstance(node, ComponentInstanceNode):
            out.append((node.name, node.component, isinstance(node.component, Trainable)))
    return out


def _canon_result(r):
    from lenskit.data import ItemList, RecQuery

    if isinstance(r, ItemList):
        sc = r.scores()
        return ("items", tuple(repr(i) for i in r.ids().tolist()), None if sc is None else L._fl(sc))
    if isinstance(r, RecQuery):
        ui = r.user_items
        return ("query", repr(r.user_id), None if ui is None else tuple(repr(i) for i in ui.ids().tolist()))
    return ("value", type(r).__name__)


def pipe_outputs(pipe, case) -> list[int]:
    """What the pipeline answers: its declared outputs, and every component node run BY NAME (a node that feeds no declared
    output is still part of the pipeline)."""
    import numpy as np
    from lenskit.data import ItemList, RecQuery

    items = ItemList(item_ids=np.array(case["probes"]["items"], dtype=np.int64))
    targets = []
    if case["builder"] == "predict":
        targets.append("rating-predictor")
    else:
        targets.append("recommender")
    targets += [n for n, c, t in pipe_components(pipe) if t and n not in targets]
    for extra in ("rating-predictor",):
        if pipe.node(extra, missing="none") is not None and extra not in targets:
            targets.append(extra)
    out = []
    for u in case["probes"]["users"]:
        for tg in targets:
            try:
                if tg == "recommender":
                    r = pipe.run("recommender", query=RecQuery(user_id=u))
                else:
                    r = pipe.run(tg, query=RecQuery(user_id=u), items=items)
                val = _canon_result(r)
            except Exception as e:
                val = ("error", type(e).__name__)
            out.append(_dz((tg, val)))
    return out


def _alone_stores(pipe, ds, st):
    """Every trainable component of the pipeline, constructed afresh and trained ALONE on the dataset with a child of the
    seed: what "Pipeline.train trains each trainable component on the given data" must amount to.  The child tried first is
    the positional one; the order in which a pipeline hands out the children is not part of the property, so on a mismatch
    the other children are tried as well and the positional result is kept only if none fits."""
    import copy

    import numpy as np
    from lenskit.training import TrainingOptions

    root = np.random.SeedSequence(st["seed"])
    comps = [(name, c) for name, c, t in pipe_components(pipe) if t]
    out = {}
    for j, (name, c) in enumerate(comps):
        have = _public(L.store_of(c))
        first = None
        for child in [j] + [i for i in range(len(comps)) if i != j]:
            alone = type(c)(copy.deepcopy(c.config)) if c.config is not None else type(c)()
            np.random.seed(st["seed"] % 2**32)
            try:
                alone.train(ds, TrainingOptions(retrain=st["retrain"], rng=np.random.SeedSequence(root.entropy, spawn_key=(child,))))
                got = _public(L.store_of(alone))
            except Exception as e:
                got = {"error": _err(e)}
            if first is None:
                first = got
            if got == have:
                first = got
                break
        out[name] = first
    return out


def run_pipe(case):
    L.setup()
    import warnings

    import numpy as np
    from lenskit.training import TrainingOptions

    pipe = build_pipe(case)
    obs = {"steps": [], "components": [[n, type(c).__name__, variant_label(c) if t else None, t] for n, c, t in pipe_components(pipe)]}
    with warnings.catch_warnings():
        warnings.simplefilter("ignore")
        for k, st in enumerate(case["steps"]):
            ds = L.dataset(case["datasets"][st["ds"]])
            before = pickle.dumps(pipe)
            err = ferr = None
            np.random.seed(st["seed"] % 2**32)
            try:
                pipe.train(ds, TrainingOptions(retrain=st["retrain"], rng=st["seed"]))
            except Exception as e:
                err = _err(e)
            after = None if err else pickle.dumps(pipe)
            fresh = build_pipe(case)
            np.random.seed(st["seed"] % 2**32)
            try:
                fresh.train(ds, TrainingOptions(retrain=st["retrain"], rng=st["seed"]))
            except Exception as e:
                fresh, ferr = None, _err(e)
            if err:
                obs["steps"].append({"error": err, "fresh_error": ferr})
                break
            obs["steps"].append({
                "stores": {n: L.store_of(c) for n, c, t in pipe_components(pipe) if t},
                "fresh": None if fresh is None else {n: L.store_of(c) for n, c, t in pipe_components(fresh) if t},
                "hp": pipe_outputs(pipe, case), "fp": None if fresh is None else pipe_outputs(fresh, case),
                "pickle_same": before == after,
                "fresh_error": ferr,
                # every call that is not skipped trains every component: compare with the components trained alone
                "alone": _alone_stores(pipe, ds, st) if (k == 0 or st["retrain"]) and ferr is None else None,
            })
    return obs


def _describe_rng(r, given):
    import numpy as np
    if r is given:
        return ["same"]
    if isinstance(r, np.random.SeedSequence):
        ent = r.entropy
        ent = [int(x) for x in ent] if isinstance(ent, (list, tuple)) or hasattr(ent, "__len__") else int(ent)
        return ["spawn", ent, [int(x) for x in r.spawn_key]]
    return ["other", type(r).__name__]


def _instr_classes(log, holder):
    """Instrumented components: every one counts its train() calls, remembers the round of its last training and shows it
    in what it returns, so that a node run by name tells which training it stems from."""
    import numpy as np
    from lenskit.pipeline import Component
    from lenskit.training import Trainable, TrainingOptions

    def record(self, data, options):
        r = options.rng
        use = None
        if r is not None and not isinstance(r, (np.random.Generator, np.random.BitGenerator)):
            # the generator this component actually obtains from its options (a child seed, or whatever seed it was handed)
            use = [int(x) for x in options.random_generator().integers(0, 2**62, 3)]
        self.trained_round = holder["round"]
        self.train_calls += 1
        log.append({"name": self.label, "retrain": bool(options.retrain), "rng": _describe_rng(r, holder.get("rng")),
                    "data_same": data is holder["data"], "options_same": options is holder.get("options"), "use": use})

    class Plain0(Component[int]):
        config: None
        label = "?"

        def __call__(self) -> int:
            return 1

    class Plain1(Component[int]):
        config: None
        label = "?"

        def __call__(self, a: int) -> int:
            return 1 + a

    class Plain2(Component[int]):
        config: None
        label = "?"

        def __call__(self, a: int, b: int) -> int:
            return 1 + a + b

    class Rec0(Component[int], Trainable):
        config: None
        label = "?"
        trained_round = 0
        train_calls = 0

        def train(self, data, options=TrainingOptions()):
            record(self, data, options)

        def __call__(self) -> int:
            return 1000 * self.trained_round

    class Rec1(Rec0):
        def __call__(self, a: int) -> int:
            return 1000 * self.trained_round + a

    class Rec2(Rec0):
        def __call__(self, a: int, b: int) -> int:
            return 1000 * self.trained_round + a + b

    return [Plain0, Plain1, Plain2], [Rec0, Rec1, Rec2]


def build_instr(case, log, holder):
    from lenskit.pipeline import PipelineBuilder

    plain, rec = _instr_classes(log, holder)
    w = case.get("wiring")
    b = PipelineBuilder()
    comps = {}
    handles = {}
    if w is not None:
        handles["x"] = b.create_input("x", int)
        handles["opt"] = b.create_input("opt", int, None)
    for nd in case["nodes"]:
        srcs = [] if w is None else w["inputs"].get(nd["name"], [])
        c = (rec if nd["trainable"] else plain)[len(srcs)]()
        c.label = nd["name"]
        comps[nd["name"]] = c
        handles[nd["name"]] = b.add_component(nd["name"], c, **{k: handles[sname] for k, sname in zip("ab", srcs)})
        for fb in ([] if w is None else w["fallbacks"]):
            if fb["after"] == nd["name"]:
                handles[fb["name"]] = b.use_first_of(fb["name"], handles[fb["primary"]], handles[fb["fallback"]])
    if w is not None:
        for a, n in w["aliases"]:
            b.alias(a, handles[n])
        if w["default"] is not None:
            b.default_component(w["default"])
    return b.build(), comps


def _instr_expected(case, rnd):
    """What every node returns when run by name with x = 1, if every trainable component was last trained in round `rnd`."""
    w = case["wiring"]
    tr = {nd["name"]: nd["trainable"] for nd in case["nodes"]}
    fbs = {fb["name"]: fb for fb in w["fallbacks"]}
    val = {"x": 1, "opt": None}
    for nm in w["order"]:
        if nm in fbs:
            p = val[fbs[nm]["primary"]]
            val[nm] = p if p is not None else val[fbs[nm]["fallback"]]
        else:
            ins = sum(val[sname] for sname in w["inputs"][nm])
            val[nm] = (1000 * rnd if tr[nm] else 1) + ins
    return {nm: val[nm] for nm in w["order"]}


def run_instr(case):
    L.setup()
    import numpy as np
    from lenskit.training import TrainingOptions

    log = []
    holder = {}
    pipe, comps = build_instr(case, log, holder)
    kind, seed = case["rng"], case["seed"]
    given = seed_object(kind, seed)
    if kind == "seedseq-spawned":
        given.spawn(case["spawned_before"])
    holder["rng"] = given
    rounds = []
    for rnd in range(1, case["repeat"] + 1):
        # another dataset object every round
        ds = L.dataset({"tag": rnd, "rows": [[1, 1, 6, 5], [2, 1, 4, 6], [2, 2 + rnd, 8, 7]], "timestamps": True})
        holder["data"], holder["round"] = ds, rnd
        log.clear()
        sb = int(given.n_children_spawned) if isinstance(given, np.random.SeedSequence) else 0
        if case["options_none"] and kind == "none":
            holder["options"] = None
            pipe.train(ds)
        else:
            opts = TrainingOptions(retrain=case["retrain"], rng=given)
            holder["options"] = opts
            pipe.train(ds, opts)
        # reference: the generators of the positional children of the supplied seed
        ref = []
        if kind in SEEDLIKE_KINDS + ("seedseq", "seedseq-spawned"):
            root = np.random.SeedSequence(given) if kind in SEEDLIKE_KINDS else np.random.SeedSequence(seed)
            start = sb if kind in ("seedseq", "seedseq-spawned") else 0
            for j in range(len(log)):
                child = np.random.SeedSequence(root.entropy, spawn_key=(start + j,))
                ref.append([int(x) for x in np.random.default_rng(child).integers(0, 2**62, 3)])
        rd = {"spawned_before": sb, "calls": list(log), "use_ref": ref,
              "counts": {n: int(getattr(c, "train_calls", 0)) for n, c in comps.items()},
              "trained_round": {n: int(c.trained_round) for n, c in comps.items() if hasattr(c, "trained_round")}}
        if case.get("wiring") is not None:
            # the state check: every node run BY NAME, whether or not a declared output is computed from it
            got = {}
            for nm in case["wiring"]["order"]:
                try:
                    got[nm] = int(pipe.run(nm, x=1))
                except Exception as e:
                    got[nm] = "error:" + type(e).__name__
            rd["runs"], rd["runs_expected"] = got, _instr_expected(case, rnd)
        rounds.append(rd)
    base = None
    if kind in SEEDLIKE_KINDS:
        ent = np.random.SeedSequence(given).entropy
        base = [int(x) for x in ent] if hasattr(ent, "__len__") else int(ent)
    elif kind in ("seedseq", "seedseq-spawned"):
        base = int(given.entropy)
    return {"rounds": rounds, "base": base}


def run_pair(case):
    """Several stochastic scorers in ONE seeded pipeline: each must be trained from its own child of the seed, i.e. be
    equal to the same component trained alone with SeedSequence(seed).spawn(..)[k], and equal scorers must come out different."""
    L.setup()
    import numpy as np
    from lenskit.pipeline import PipelineBuilder
    from lenskit.training import TrainingOptions

    ds = L.dataset(case["dataset"])

    def given():
        s = case["seed"]
        if case["seed_kind"] == "intlist":
            return [s, 3]
        return seed_object(case["seed_kind"], s)
    from lenskit.data import ItemList, RecQuery

    b = PipelineBuilder()
    comps = []
    layout = case.get("layout", "flat")
    wires = {}
    if layout != "flat":
        wires = {"query": b.create_input("query", RecQuery), "items": b.create_input("items", ItemList)}
    if case["deterministic_between"]:
        b.add_component("bias0", L.make("bias", {"damping": 2}), **wires)     # a trainable, non-stochastic node shifts the positions
    for j, m in enumerate(case["members"]):
        c = L.make(m["kind"], m["cfg"])
        comps.append(c)
        b.add_component(f"s{j}", c, **wires)
    if "alias" in layout:
        b.alias("scorer", f"s{case['output']}")
    if "default" in layout:
        b.default_component("scorer" if "alias" in layout else f"s{case['output']}")
    pipe = b.build()
    try:
        pipe.train(ds, TrainingOptions(rng=given()))
    except (KeyError, ValueError, RuntimeError) as e:
        return {"error": type(e).__name__}
    root = np.random.SeedSequence(given()) if case["seed_kind"] != "seedseq" else np.random.SeedSequence(case["seed"])
    off = 1 if case["deterministic_between"] else 0
    members = []
    for j, (m, c) in enumerate(zip(case["members"], comps)):
        alone = L.make(m["kind"], m["cfg"])
        alone.train(ds, TrainingOptions(rng=np.random.SeedSequence(root.entropy, spawn_key=(off + j,))))
        members.append({"kind": m["kind"], "position": off + j,
                        "role": "no-declared-output" if layout == "flat" else ("declared-output" if j == case["output"] else "side-branch"),
                        "in_pipeline": {k: v for k, v in L.store_of(c).items() if not k.startswith("_")},
                        "alone_child": {k: v for k, v in L.store_of(alone).items() if not k.startswith("_")}})
    same = [[a, b2] for a in range(len(members)) for b2 in range(a + 1, len(members))
            if case["members"][a] == case["members"][b2]]
    return {"members": members, "same_config_pairs": same}


def run_impl(case):
    return {"comp": run_comp, "pipe": run_pipe, "instr": run_instr, "pair": run_pair, "life": LIFE.run}[case["type"]](case)


# ---------------------------------------------------------------------------------------------
# model side
# ---------------------------------------------------------------------------------------------


def c_store(d: dict) -> str:
    return clist(sorted(d.items()), lambda kv: f"({cstr(kv[0])}, {cz(kv[1])})")


def term_history(cls, variant, steps):
    """steps: list of (fresh store, retrain, observed store)"""
    if variant is None:
        return "false"
    st = clist(steps, lambda s: f"({c_store(s[0])}, {cbool(s[1])})")
    ob = clist(steps, lambda s: c_store(s[2]))
    return f"agree_history frames {cstr(cls)} {cstr(variant)} {st} {ob}"


RNG_KIND_COQ = {"int": "KSeedLike", "npint": "KSeedLike", "intlist": "KSeedLike", "list1": "KSeedLike", "tuple": "KSeedLike", "seedseq": "KSeedSequence",
                "seedseq-spawned": "KSeedSequence", "generator": "KGenerator", "bitgen": "KBitGenerator", "none": "KNone"}


def c_call(c, base):
    r = c["rng"]
    if r[0] == "same":
        rq = "CSame"
    elif r[0] == "spawn" and r[1] == base and len(r[2]) == 1:
        rq = f"(CSpawn {cnat(r[2][0])})"
    else:
        rq = "(CSpawn 4999)"   # a seed that is not a direct child of the supplied one never matches
    return f"(mkCall {cstr(c['name'])} {cbool(c['retrain'])} {rq})"


def _dz(x) -> int:
    return int.from_bytes(hashlib.sha256(repr(x).encode()).digest()[:7], "big")


def term_pair(case, obs):
    terms = ["options_rng_passthrough"]
    for m in obs["members"]:
        terms.append(f"zlist_eqb {clist([v for _, v in sorted(m['in_pipeline'].items())], cz)} {clist([v for _, v in sorted(m['alone_child'].items())], cz)}")
    for a, b in obs["same_config_pairs"]:
        x, y = obs["members"][a]["in_pipeline"], obs["members"][b]["in_pipeline"]
        terms.append(f"negb (zlist_eqb {clist([v for _, v in sorted(x.items())], cz)} {clist([v for _, v in sorted(y.items())], cz)})")
    return " && ".join(f"({t})" for t in terms)


def term_life(case, obs):
    """The sampled folds of a lifetime loop as a lifetime history of the model: dataset objects with an address class."""
    def one(cls, variant, name):
        if variant is None:
            return "false"
        rows = LIFE.coq_steps(obs, name)
        if not rows:
            return None
        steps = clist(rows, lambda r: f"({cnat(r[1])}, {c_store(r[2])})")
        return (f"agree_life train_keeps_outside frames {cstr(cls)} {cstr(variant)} {steps} "
                f"{clist(rows, lambda r: c_store(r[3]))} {clist(rows, lambda r: c_store(r[4]))}")
    if case["through"] == "component":
        return one(obs["class"], obs["variant"], None)
    terms = [one(cls, variant, name) for name, cls, variant, t in obs["components"] if t]
    terms = [f"({t})" for t in terms if t is not None]
    return " && ".join(terms) if terms else None


def coq_term(case, obs):
    if case["type"] == "life":
        return term_life(case, obs)
    if case["type"] == "pair":
        return None if obs.get("error") else term_pair(case, obs)
    if case["type"] == "comp":
        steps = [(s["fresh"], st["retrain"], s["store"]) for s, st in zip(obs["steps"], case["steps"]) if "error" not in s]
        if any(s[0] is None for s in steps):
            # a skipped call on data a fresh component rejects: nothing learned to compare from that step on
            steps = steps[: [i for i, s in enumerate(steps) if s[0] is None][0]]
        if not steps:
            return None
        return term_history(obs["class"], obs["variant"], steps)
    if case["type"] == "pipe":
        good = [(s, st) for s, st in zip(obs["steps"], case["steps"]) if "error" not in s]
        if any(s["fresh"] is None for s, _ in good):
            good = good[: [i for i, (s, _) in enumerate(good) if s["fresh"] is None][0]]
        if not good:
            return None
        terms = []
        for name, cls, variant, trainable in obs["components"]:
            if trainable:
                terms.append("(" + term_history(cls, variant, [(s["fresh"][name], st["retrain"], s["stores"][name]) for s, st in good]) + ")")
        return " && ".join(terms) if terms else None
    ns = clist(case["nodes"], lambda n: f"(mkNode {cstr(n['name'])} {cbool(n['trainable'])})")
    retrain = True if (case["options_none"] and case["rng"] == "none") else case["retrain"]
    terms = []
    for r in obs["rounds"]:
        calls = clist(r["calls"], lambda c: c_call(c, obs["base"]))
        terms.append(f"(agree_pipeline pt_seed_plan pt_spawn_width {coq_rng_kind(case['rng'], case['seed'])} {cbool(retrain)} {cnat(r['spawned_before'])} {ns} {calls})")
        w = case.get("wiring")
        if w is not None:
            # the whole shape: function nodes (fallbacks) are nodes too, never trainable
            tr = {n["name"]: n["trainable"] for n in case["nodes"]}
            allnodes = clist(w["order"], lambda n: f"(mkNode {cstr(n)} {cbool(tr.get(n, False))})")
            edges = clist(S.edges_of(w), lambda e: f"({cstr(e[0])}, {cstr(e[1])})")
            default = "None" if w["default"] is None else f"(Some {cstr(S.resolve(w, w['default']))})"
            aliases = clist(w["aliases"], lambda a: f"({cstr(a[0])}, {cstr(a[1])})")
            terms.append(f"(agree_shape pt_iterates_all_nodes pt_seed_plan pt_spawn_width {coq_rng_kind(case['rng'], case['seed'])} {cbool(retrain)} "
                         f"{cnat(r['spawned_before'])} (mkShape {allnodes} {edges} {default} {aliases}) {calls})")
        if obs["base"] is not None:
            got = [_dz(c["use"]) for c in r["calls"]]
            terms.append(f"(agree_use options_rng_passthrough {clist(got, cz)} {clist([_dz(x) for x in r['use_ref']], cz)})")
    return " && ".join(terms)


# ---------------------------------------------------------------------------------------------
# the property as a predicate on implementation output (independent of the Coq model)
# ---------------------------------------------------------------------------------------------


def _public(store):
    return {k: v for k, v in store.items() if not k.startswith("_")}


def oracle_history(tag, steps_obs, steps, stores_key="store", fresh_key="fresh", datasets=None):
    v = []
    eff = None

    def shape(k):
        return "" if datasets is None else ":" + S.shape_of(datasets[steps[k]["ds"]])
    for k, (s, st) in enumerate(zip(steps_obs, steps)):
        skipped = eff is not None and not st["retrain"]
        if "error" in s:
            # a training call that raises is outside the property -- unless only the object with a history raises
            if not skipped and "fresh_error" in s and s["fresh_error"] is None:
                v.append((f"train-raises-only-after-history:{tag}{shape(k)}",
                          f"call {k} raised {s['error']} on an object with a training history; a fresh object trains on the same data and options without error"))
            break
        if skipped:
            if not s["pickle_same"]:
                v.append((f"skip-changed:{tag}", f"call {k} with retraining disabled on a trained object changed its pickle bytes"))
        else:
            eff = k
            if s.get("fresh_error") is not None:
                # the data cannot be learned from: the retraining must say so too, not return with the old model in place
                v.append((f"retrain-kept-old-model-silently:{tag}{shape(k)}",
                          f"call {k} (a real training) returned normally, but a fresh object trained on the same data and options raises {s['fresh_error']}"))
        ref = steps_obs[eff]
        if ref.get(fresh_key) is None or ref.get("fp") is None:
            break
        if s["hp"] != ref["fp"]:
            bad = [i for i, (a, b) in enumerate(zip(s["hp"], ref["fp"])) if a != b]
            v.append((f"scores-differ:{tag}", f"after call {k} the outputs differ from a fresh object trained on the data of call {eff}{shape(eff)} (probe queries {bad[:5]})"))
        a, b = s[stores_key], ref[fresh_key]
        if isinstance(a, dict) and a and all(isinstance(x, dict) for x in a.values()):
            pairs = [(n, _public(a[n]), _public(b[n])) for n in a]
        else:
            pairs = [("", _public(a), _public(b))]
        for n, x, y in pairs:
            for attr in sorted(set(x) | set(y)):
                if x.get(attr) != y.get(attr):
                    v.append((f"stale-state:{tag}:{n}{'.' if n else ''}{attr}",
                              f"after call {k} attribute {attr} differs from a fresh object trained on the data of call {eff}{shape(eff)}"))
        # pipelines: every component against the same component trained alone on the data of this call
        alone = s.get("alone")
        if alone and not skipped:
            for n in sorted(alone):
                x, y = _public(s[stores_key].get(n, {})), alone[n]
                if x != y:
                    what = "was not trained" if not x else f"differs in {sorted(q for q in set(x) | set(y) if x.get(q) != y.get(q))}"
                    v.append((f"pipeline-component-not-trained-as-alone:{tag}:{n}",
                              f"after call {k} (a real training of the whole pipeline) component node {n} {what}, compared with the same "
                              "component trained alone on that data with any child of the seed"))
    return v


def oracle_pair(case, obs):
    v = []
    if obs.get("error"):
        return v
    for j, m in enumerate(obs["members"]):
        if not m["in_pipeline"] and m["alone_child"]:
            v.append((f"pipeline-component-untrained:{m.get('role', 'no-declared-output')}",
                      f"node s{j} ({m['kind']}, {m.get('role')}; layout {case.get('layout', 'flat')}, declared output s{case.get('output')}) holds no learned "
                      "state after Pipeline.train: it was never trained"))
        elif m["in_pipeline"] != m["alone_child"]:
            bad = sorted(k for k in m["in_pipeline"] if m["in_pipeline"][k] != m["alone_child"].get(k))
            v.append((f"pipeline-component-not-child-seed:{m['kind']}",
                      f"node s{j} ({m['kind']}) trained in a pipeline with seed {case['seed']} ({case['seed_kind']}) differs in {bad} from the same component "
                      f"trained alone with child {m['position']} of that seed"))
    for a, b in obs["same_config_pairs"]:
        if obs["members"][a]["in_pipeline"] == obs["members"][b]["in_pipeline"]:
            v.append((f"pipeline-components-same-stream:{obs['members'][a]['kind']}",
                      f"nodes s{a} and s{b} (equal {obs['members'][a]['kind']} scorers) of one seeded pipeline have identical parameters: they were trained from the same random stream"))
    return v


def oracle(case, obs):
    if case["type"] == "life":
        return LIFE.oracle(case, obs)
    if case["type"] == "pair":
        return oracle_pair(case, obs)
    if case["type"] == "comp":
        v = oracle_history(case["kind"], obs["steps"], case["steps"], datasets=case["datasets"])
    elif case["type"] == "pipe":
        v = oracle_history(f"pipeline-{case['builder']}-{case['kind']}", obs["steps"], case["steps"], "stores", "fresh", datasets=case["datasets"])
    else:
        v = []
        want = [n["name"] for n in case["nodes"] if n["trainable"]]
        seeded = obs["base"] is not None
        w = case.get("wiring")
        every = [n["name"] for n in case["nodes"]] if w is None else list(w["order"])
        role = S.roles(w, every)
        expect = {n["name"]: (1 if n["trainable"] else 0) for n in case["nodes"]}
        for rnd, r in enumerate(obs["rounds"], 1):
            names = [c["name"] for c in r["calls"]]
            # "trains each trainable component exactly once": counted per node, wherever the node sits in the graph
            bad = [n for n in expect if names.count(n) != expect[n] or r.get("counts", {}).get(n, rnd * expect[n]) != rnd * expect[n]]
            for ro in sorted({role[n] for n in bad}):
                these = [n for n in bad if role[n] == ro]
                v.append((f"pipeline-train-count:{ro}",
                          f"training #{rnd} of the pipeline: train() calls {names}; node(s) {these} ({ro}) were trained "
                          f"{[names.count(n) for n in these]} time(s), expected {[expect[n] for n in these]} "
                          f"(default {None if w is None else w['default']}, aliases {None if w is None else w['aliases']})"))
            stale = [n for n, t in r.get("trained_round", {}).items() if expect.get(n) and t != rnd]
            got, exp = r.get("runs"), r.get("runs_expected")
            if got is not None and got != exp:
                stale = sorted(set(stale) | {n for n in exp if got.get(n) != exp[n]})
            for ro in sorted({role[n] for n in stale}):
                these = [n for n in stale if role[n] == ro]
                v.append((f"pipeline-node-not-trained-on-latest-data:{ro}",
                          f"after training #{rnd} node(s) {these} ({ro}) run by name do not show the model of this training: "
                          f"got {None if got is None else [got.get(n) for n in these]}, expected {None if exp is None else [exp.get(n) for n in these]}"))
            if [n for n in names if n in want] != [n for n in want if n in names] and not bad:
                v.append(("pipeline-train-order", f"train() calls {names} are not the trainable nodes in node order {want}"))
            if not all(c["data_same"] for c in r["calls"]):
                v.append(("pipeline-train-data", "a component was trained on something other than the given dataset"))
            if seeded:
                seeds = [tuple(map(repr, c["rng"])) for c in r["calls"]]
                if len(set(seeds)) != len(seeds):
                    v.append(("pipeline-seeds-not-distinct", f"two components received the same seed: {seeds}"))
                if not all(c["rng"][0] == "spawn" and c["rng"][1] == obs["base"] for c in r["calls"]):
                    v.append(("pipeline-seed-not-derived", "a component's seed is not a child of the supplied seed"))
                uses = [tuple(c["use"] or ()) for c in r["calls"]]
                if len(set(uses)) != len(uses):
                    v.append(("pipeline-generators-not-distinct", f"options.random_generator() gave two components of one seeded pipeline the same stream: {uses}"))
                if uses != [tuple(x) for x in r["use_ref"]]:
                    v.append(("pipeline-generator-not-positional-child", "the generator a component obtains from its options is not the generator of its "
                              f"positional child of the supplied seed (rng kind {case['rng']}, seed {case['seed']})"))
            else:
                if not all(c["rng"][0] == "same" for c in r["calls"]):
                    v.append(("pipeline-rng-replaced", "without a seed the caller's generator must be handed on unchanged"))
            if not (case["options_none"] and case["rng"] == "none"):
                if not all(c["retrain"] == case["retrain"] for c in r["calls"]):
                    v.append(("pipeline-retrain-flag", "the retrain option was not handed to a component"))
    seen, out = set(), []
    for k, w in v:
        if k not in seen:
            seen.add(k)
            out.append((k, w))
    return out


def _vocab(spec):
    return (frozenset(r[0] for r in spec["rows"]), frozenset(r[1] for r in spec["rows"]))


def nontrivial(case, obs):
    if case["type"] == "life":
        return LIFE.nontrivial(case, obs)
    if case["type"] == "pair":
        return not obs.get("error") and bool(obs["same_config_pairs"])
    if case["type"] == "instr":
        return sum(1 for n in case["nodes"] if n["trainable"]) >= 2 and obs["base"] is not None
    eff, effs, skipped = None, [], False
    for s, st in zip(obs["steps"], case["steps"]):
        if "error" in s:
            break
        if eff is not None and not st["retrain"]:
            skipped = True
        else:
            eff = st["ds"]
            effs.append(st["ds"])
    vocabs = {_vocab(case["datasets"][d]) for d in effs}
    return (len(effs) >= 2 and len(vocabs) >= 2) or (skipped and len(effs) >= 1)


def counters(case, obs):
    yield "type=" + case["type"]
    if case["type"] == "life":
        yield from LIFE.counters(case, obs)
        return
    if case["type"] == "pair":
        yield "pair=" + "+".join(m["kind"] for m in case["members"]) + ("/bias-first" if case["deterministic_between"] else "")
        yield "pair-seed=" + case["seed_kind"]
        yield "pair-seed-value=" + seed_class(case["seed"])
        yield "pair-layout=" + case.get("layout", "flat")
        if obs.get("error"):
            yield "train-error=" + obs["error"]
        return
    if case["type"] == "instr":
        yield "rng=" + case["rng"]
        if case["rng"] not in ("none",):
            yield "instr-seed-value=" + seed_class(case["seed"])
            if coq_rng_kind(case["rng"], case["seed"]) == "KSeedZero":
                yield "instr-seed-false-in-a-truth-test"
        yield f"trainable-nodes={min(4, sum(1 for n in case['nodes'] if n['trainable']))}"
        yield f"repeat={case['repeat']}"
        w = case.get("wiring")
        names = [n["name"] for n in case["nodes"]]
        ro = S.roles(w, names)
        yield "shape=" + ("unwired" if w is None else "+".join(x for x in ("default" if w["default"] is not None else "", "alias" if w["aliases"] else "") if x) or "wired-no-output")
        for n in case["nodes"]:
            if n["trainable"]:
                yield "trainable-node=" + ro[n["name"]]
                if S.consumers(w, n["name"]) >= 2:
                    yield "trainable-node-shared-by-two-consumers"
        return
    yield "kind=" + case["kind"]
    if case["type"] == "comp":
        yield f"variant={obs['class']}[{obs['variant']}]"
        if case["malformed"]:
            yield "malformed"
        for f in obs.get("fallbacks", []):
            yield "canon-fallback=" + f
    else:
        yield "builder=" + case["builder"]
    yield "retrain-pattern=" + "".join("T" if s["retrain"] else "F" for s in case["steps"])
    for cl in sorted({seed_class(s["seed"]) for s in case["steps"]} - {"<2^31"}):
        yield "step-seed-value=" + cl
    for s in obs["steps"]:
        if "error" in s:
            yield "train-error=" + s["error"]
    eff = None
    for s, st in zip(obs["steps"], case["steps"]):
        if "error" in s:
            break
        if eff is not None and not st["retrain"]:
            yield "branch=skipped"
        else:
            yield "branch=trained" if eff is None else "branch=retrained"
            eff = st
    ds = case["datasets"]
    if len(ds) >= 2 and (_vocab(ds[0])[1] - _vocab(ds[1])[1]):
        yield "earlier-dataset-has-items-the-later-lacks"
    if not all(d.get("timestamps", True) for d in ds):
        yield "dataset-without-timestamps"
    eff = None
    for k, (s, st) in enumerate(zip(obs["steps"], case["steps"])):
        sh = S.shape_of(ds[st["ds"]])
        if "error" in s:
            yield f"train-raised-on={sh}" + ("(fresh too)" if s.get("fresh_error") else "")
            break
        if eff is None or st["retrain"]:
            if sh != "plain":
                yield ("first-trained-on=" if eff is None else "retrained-on=") + sh
            eff = k
    if case["type"] == "pipe":
        for n, cls, variant, t in obs["components"]:
            if t and n in ("fallback-predictor", "side-scorer") and case["builder"] in ("topn-transform", "topn-side", "predict-side"):
                yield "trainable-side-branch-node=" + n


def seed_class(s) -> str:
    return "0" if s == 0 else "<2^31" if s < 2**31 else "<2^32" if s < 2**32 else "<2^63" if s < 2**63 else "<2^64" if s < 2**64 else ">=2^64"


def sample(case, obs):
    if case["type"] == "life":
        return LIFE.sample(case, obs)
    if case["type"] == "pair":
        return {"case": {k: v for k, v in case.items() if k != "dataset"}, "observation": obs}
    if case["type"] == "instr":
        return {"case": case, "observation": obs}
    small = {k: v for k, v in case.items() if k != "datasets"}
    small["datasets"] = [{"users": len({r[0] for r in d["rows"]}), "items": len({r[1] for r in d["rows"]}), "rows": len(d["rows"])} for d in case["datasets"]]
    return {"case": small, "observation": {"steps": [{k: (v if k != "hp" and k != "fp" else f"{len(v or [])} probe digests") for k, v in s.items()} for s in obs["steps"][:2]]}}


_shrinks = 0
MAX_SHRINKS = 5


def shrink(case, fails):
    global _shrinks
    _shrinks += 1
    if _shrinks > MAX_SHRINKS or case["type"] == "pair":     # cap the cost of a failing run: five keys are minimised
        return case
    if case["type"] == "life":
        return LIFE.shrink(case, fails)
    if case["type"] == "instr":
        c = dict(case)
        if case.get("wiring") is None:
            c["nodes"] = common.shrink_list(case["nodes"], lambda xs: bool(xs) and fails({**c, "nodes": xs}), 20)
            return c
        # a wired graph: later nodes are never sources of earlier ones, so drop nodes from the end
        while len(c["nodes"]) > 1:
            w = c["wiring"]
            last = c["nodes"][-1]["name"]
            gone = {last} | {fb["name"] for fb in w["fallbacks"] if fb["after"] == last}
            if (w["default"] is not None and S.resolve(w, w["default"]) in gone) or any(n in gone for _, n in w["aliases"]):
                break
            w2 = {"inputs": {k: v for k, v in w["inputs"].items() if k not in gone},
                  "fallbacks": [fb for fb in w["fallbacks"] if fb["name"] not in gone],
                  "order": [n for n in w["order"] if n not in gone], "default": w["default"], "aliases": w["aliases"]}
            c2 = {**c, "nodes": c["nodes"][:-1], "wiring": w2}
            if not fails(c2):
                break
            c = c2
        if c["repeat"] > 1 and fails({**c, "repeat": 1}):
            c = {**c, "repeat": 1}
        return c
    c = dict(case)
    c["steps"] = common.shrink_list(case["steps"], lambda xs: bool(xs) and fails({**c, "steps": xs}), 12)
    for i in range(len(c["datasets"])):
        def with_rows(rows, i=i):
            ds = [dict(d) for d in c["datasets"]]
            ds[i]["rows"] = rows
            return {**c, "datasets": ds}
        rows = common.shrink_list(c["datasets"][i]["rows"], lambda xs: len(xs) >= 2 and fails(with_rows(xs)), 25)
        c = with_rows(rows)
    return c
