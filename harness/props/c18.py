"""C18 -- retraining fully replaces a model; skipping retraining leaves it untouched (DESIGN.md section 4, C18)."""

from __future__ import annotations

import hashlib
import pickle

import c18_lib as L
import common
from common import cbool, clist, cnat, cstr, cz
from framework import TranslateError  # noqa: F401

PID = "C18"
PROPS_FILE = "Props/C18.v"
GEN_FILES = ["Gen/C18_frames.v"]
MODEL_FILES = ["Model/C18_retrain.v"]
ALLOWED_AXIOMS: list[str] = []
CASE_HEADER = ("From Coq Require Import ZArith Bool String.\n"
               "From LK Require Import Model.C18_retrain Gen.C18_frames.")
SHARD = 60
TRUSTED = [
    "Coq 8.16.1 kernel + vm_compute (no native_compute); Print Assumptions of every theorem in Props/C18.v: closed under the global context",
    "frame extractor harness/translate/c18.py (Python ast -> per class and configuration variant: guard, attributes assigned on every / some "
    "path of train() through the MRO, old attributes read by train(), attributes read / assigned by __call__; Pipeline.train seed plan); "
    "its flow rules are stated at the top of that file; functions that do not receive `self` are assumed not to touch the component, "
    "module-level mutable state is assumed absent (global/nonlocal fail closed)",
    "library contract as an explicit hypothesis of seeds_distinct: numpy SeedSequence.spawn gives different children different seeds "
    "(spawn injective in the child index)",
    "correspondence harness: sha256-based digests of canonical bytes of every learned attribute (harness/c18_lib.py:canon), compared inside Coq "
    "against the model's prediction; numpy/torch/scipy/sklearn/implicit kernels are exercised single-threaded, not verified",
]
ASSUMPTIONS = [
    "iterative models run at least one epoch (IterativeTraining documents trained_epochs > 0 as its already-trained test; with epochs = 0 a component never counts as trained)",
    "a training call that raises is outside the property (the object may then be partially updated)",
    "scikit-learn / implicit draw from numpy's global generator unless configured: the driver pins it before each training so equal inputs give equal bits",
    "a component instance appears under one pipeline node (Pipeline.train trains per node)",
]
RULE = ("component histories: 2-4 train calls over 2-3 generated datasets with shifted user/item id ranges and different sizes, both retrain "
        "settings, explicit seeds, every shipped trainable component that can be trained here (17 kinds, several configurations each) plus the "
        "standard top-N / prediction pipelines, pipelines of instrumented components under every kind of options.rng (recording the seed handed over AND the "
        "first draws of the generator obtained from options.random_generator(), against the positional children of the supplied seed), and seeded "
        "pipelines holding two or three real stochastic scorers (each against the same component trained alone with its child seed); probe list = all users "
        "and items of all datasets of the history plus unseen ones, with and without a supplied user history.  non-trivial = at least two "
        "effective trainings on datasets with different item or user vocabularies, or a skipped call after a training; for instrumented pipelines: "
        "at least two trainable nodes and a supplied seed; for scorer pairs: two equal stochastic scorers in one pipeline; distinct = by hash of the case")

_frames = None


def translate():
    from translate import c18 as t
    from translate.pyq import TranslateError as TE
    try:
        return t.translate(common.SRC)
    except TE as e:
        raise TranslateError(str(e))


def frames_info():
    global _frames
    if _frames is None:
        from translate import c18 as t
        try:
            _frames = {c["class"]: c for c in t.extract(common.SRC)["classes"]}
        except Exception:   # the translator failed closed: no variant can be named, the model side is `false`
            _frames = {}
    return _frames


def variant_label(comp) -> str | None:
    """Which generated configuration variant describes this component (its atoms evaluated on the live object)."""
    from translate import c18 as t
    info = frames_info().get(type(comp).__name__)
    if info is None:
        return None
    for v in info["variants"]:
        ok = True
        for atom, want in v["assume"].items():
            try:
                got = bool(eval(atom, {"self": comp}))
            except Exception:
                ok = False
                break
            if got != want:
                ok = False
                break
        if ok:
            return t.label(v["assume"])
    return None


# ---------------------------------------------------------------------------------------------
# generator
# ---------------------------------------------------------------------------------------------

COST = {"flexe": 2, "flexi": 2, "als": 2, "ials": 2, "funk": 2, "impals": 2, "impbpr": 2, "svd": 2}
PIPE_SCORERS = ["bias", "iknn", "als", "pop", "uknn", "ials"]
RNG_KINDS = ["int", "int", "seedseq", "seedseq-spawned", "none", "generator", "bitgen", "intlist", "npint"]


def gen_steps(rng, nds):
    n = rng.weighted([(2, 4), (3, 4), (4, 1)])
    steps = []
    for k in range(n):
        ds = k % nds if rng.chance(3, 4) else rng.below(nds)
        retrain = True if k == 0 and rng.chance(3, 4) else rng.chance(3, 5)
        steps.append({"ds": ds, "retrain": retrain, "seed": rng.randint(1, 10**6)})
    if rng.chance(1, 4):
        steps.append({"ds": rng.below(nds), "retrain": False, "seed": rng.randint(1, 10**6)})
    return steps


def gen_comp_case(rng, kind, malformed=False):
    nds = rng.weighted([(2, 3), (3, 2)])
    specs = [L.gen_dataset(rng, t, small=rng.chance(1, 3)) for t in range(nds)]
    if malformed:
        # a dataset the component cannot be trained on (no ratings / a single pair)
        bad = rng.below(nds)
        if rng.chance(1, 2):
            specs[bad]["implicit"] = True
        else:
            specs[bad]["rows"] = specs[bad]["rows"][:1]
    return {"type": "comp", "kind": kind, "cfg": L.gen_config(rng, kind), "datasets": specs,
            "steps": gen_steps(rng, nds), "probes": L.gen_probes(rng, specs), "malformed": malformed}


def gen_pipe_case(rng):
    kind = rng.choice(PIPE_SCORERS)
    nds = 2
    specs = [L.gen_dataset(rng, t) for t in range(nds)]
    return {"type": "pipe", "builder": rng.choice(["topn", "predict", "topn-pred"]), "kind": kind, "cfg": L.gen_config(rng, kind),
            "datasets": specs, "steps": gen_steps(rng, nds)[:3], "probes": L.gen_probes(rng, specs), "n": rng.choice([-1, 3])}


def gen_instr_case(rng):
    n = rng.randint(1, 7)
    nodes = [{"name": f"c{j}", "trainable": rng.chance(2, 3)} for j in range(n)]
    return {"type": "instr", "nodes": nodes, "rng": rng.choice(RNG_KINDS), "seed": rng.randint(0, 2**31 - 1),
            "spawned_before": rng.randint(1, 4), "retrain": rng.chance(1, 2), "repeat": rng.choice([1, 1, 2]),
            "options_none": rng.chance(1, 8)}


STOCHASTIC = ["als", "ials", "funk", "flexe", "flexi", "svd"]


def gen_pair_case(rng):
    n = rng.randint(2, 3)
    first = rng.choice(STOCHASTIC)
    cfg = L.gen_config(rng, first)
    members = [{"kind": first, "cfg": cfg}, {"kind": first, "cfg": cfg}]          # two equal stochastic scorers ...
    if n == 3:
        k = rng.choice(STOCHASTIC)
        members.insert(rng.below(3), {"kind": k, "cfg": L.gen_config(rng, k)})   # ... and possibly a third one
    return {"type": "pair", "members": members, "dataset": L.gen_dataset(rng, 0), "seed": rng.randint(1, 10**6),
            "seed_kind": rng.choice(["int", "int", "seedseq", "intlist"]), "deterministic_between": rng.chance(1, 2)}


def gen_cases(rng, tier):
    mult = 1 if tier == "quick" else 16
    out = []
    k = 0
    for kind in L.KINDS:
        n = (14 if COST.get(kind, 1) == 1 else 10) * mult
        for j in range(n):
            out.append(gen_comp_case(rng.fork(("comp", kind, j)), kind, malformed=(j % 7 == 6)))
    for j in range(30 * mult):
        out.append(gen_pipe_case(rng.fork(("pipe", j))))
    for j in range(80 * mult):
        out.append(gen_instr_case(rng.fork(("instr", j))))
    for j in range(24 * mult):
        out.append(gen_pair_case(rng.fork(("pair", j))))
    return out


# ---------------------------------------------------------------------------------------------
# implementation driver
# ---------------------------------------------------------------------------------------------


def _hash_bytes(b: bytes) -> str:
    return hashlib.sha256(b).hexdigest()[:16]


def run_comp(case):
    L.setup()
    kind, cfg = case["kind"], case["cfg"]
    comp = L.make(kind, cfg)
    obs = {"class": type(comp).__name__, "variant": variant_label(comp), "steps": []}
    for st in case["steps"]:
        ds = L.dataset(case["datasets"][st["ds"]])
        before = pickle.dumps(comp)
        try:
            L.train(comp, ds, st["retrain"], st["seed"])
        except Exception as e:  # training rejected the data: outside the property; the history ends here
            obs["steps"].append({"error": type(e).__name__})
            break
        after = pickle.dumps(comp)
        fresh = L.make(kind, cfg)
        try:
            L.train(fresh, ds, st["retrain"], st["seed"])
        except Exception as e:  # the retrain was skipped on data a fresh component cannot be trained on
            fresh = None
        obs["steps"].append({
            "store": L.store_of(comp),
            "fresh": None if fresh is None else L.store_of(fresh),
            "hp": L.probe_digests(comp, kind, case["probes"]),
            "fp": None if fresh is None else L.probe_digests(fresh, kind, case["probes"]),
            "pickle_same": before == after,
        })
    obs["fallbacks"] = sorted(L.fallbacks)
    return obs


def build_pipe(case):
    from lenskit.pipeline import predict_pipeline, topn_pipeline

    sc = L.make(case["kind"], case["cfg"])
    if case["builder"] == "topn":
        return topn_pipeline(sc, n=case["n"])
    if case["builder"] == "topn-pred":
        return topn_pipeline(sc, predicts_ratings=True, n=case["n"])
    return predict_pipeline(sc)


def pipe_components(pipe):
    from lenskit.pipeline.nodes import ComponentInstanceNode
    from lenskit.training import Trainable

    out = []
    for node in pipe.nodes():
        if isinstance(node, ComponentInstanceNode):
            out.append((node.name, node.component, isinstance(node.component, Trainable)))
    return out


def pipe_outputs(pipe, case) -> list[int]:
    import numpy as np
    from lenskit.data import ItemList, RecQuery

    items = ItemList(item_ids=np.array(case["probes"]["items"], dtype=np.int64))
    out = []
    for u in case["probes"]["users"]:
        try:
            if case["builder"] == "predict":
                r = pipe.run("rating-predictor", query=RecQuery(user_id=u), items=items)
            else:
                r = pipe.run("recommender", query=RecQuery(user_id=u))
            sc = r.scores()
            val = (tuple(int(i) for i in r.ids().tolist()), None if sc is None else L._fl(sc))
        except (KeyError, ValueError, RuntimeError, TypeError) as e:
            val = ("error", type(e).__name__)
        out.append(int.from_bytes(hashlib.sha256(repr(val).encode()).digest()[:7], "big"))
    return out


def run_pipe(case):
    L.setup()
    from lenskit.training import TrainingOptions

    pipe = build_pipe(case)
    obs = {"steps": [], "components": [[n, type(c).__name__, variant_label(c) if t else None, t] for n, c, t in pipe_components(pipe)]}
    import numpy as np
    for st in case["steps"]:
        ds = L.dataset(case["datasets"][st["ds"]])
        before = pickle.dumps(pipe)
        np.random.seed(st["seed"] % 2**32)
        try:
            pipe.train(ds, TrainingOptions(retrain=st["retrain"], rng=st["seed"]))
        except Exception as e:
            obs["steps"].append({"error": type(e).__name__})
            break
        after = pickle.dumps(pipe)
        fresh = build_pipe(case)
        np.random.seed(st["seed"] % 2**32)
        fresh.train(ds, TrainingOptions(retrain=st["retrain"], rng=st["seed"]))
        obs["steps"].append({
            "stores": {n: L.store_of(c) for n, c, t in pipe_components(pipe) if t},
            "fresh": {n: L.store_of(c) for n, c, t in pipe_components(fresh) if t},
            "hp": pipe_outputs(pipe, case), "fp": pipe_outputs(fresh, case),
            "pickle_same": before == after,
        })
    return obs


def _describe_rng(r, given):
    import numpy as np
    if r is given:
        return ["same"]
    if isinstance(r, np.random.SeedSequence):
        ent = r.entropy
        ent = [int(x) for x in ent] if isinstance(ent, (list, tuple)) or hasattr(ent, "__len__") else int(ent)
        return ["spawn", ent, [int(x) for x in r.spawn_key]]
    return ["other", type(r).__name__]


def run_instr(case):
    L.setup()
    import numpy as np
    from lenskit.pipeline import Component, PipelineBuilder
    from lenskit.training import Trainable, TrainingOptions

    log = []
    holder = {}

    class Plain(Component[int]):
        config: None

        def __call__(self) -> int:
            return 1

    class Recording(Component[int], Trainable):
        config: None
        label = "?"

        def train(self, data, options=TrainingOptions()):
            r = options.rng
            use = None
            if isinstance(r, np.random.SeedSequence):     # the generator this component actually obtains from its options
                use = [int(x) for x in options.random_generator().integers(0, 2**62, 3)]
            log.append({"name": self.label, "retrain": bool(options.retrain), "rng": _describe_rng(r, holder.get("rng")),
                        "data_same": data is holder["data"], "options_same": options is holder.get("options"), "use": use})

        def __call__(self) -> int:
            return 2

    b = PipelineBuilder()
    for nd in case["nodes"]:
        c = Recording() if nd["trainable"] else Plain()
        c.label = nd["name"]
        b.add_component(nd["name"], c)
    pipe = b.build()
    kind, seed = case["rng"], case["seed"]
    if kind == "int":
        given = seed
    elif kind == "npint":
        given = np.int64(seed)
    elif kind == "intlist":
        given = [seed, 7]
    elif kind in ("seedseq", "seedseq-spawned"):
        given = np.random.SeedSequence(seed)
        if kind == "seedseq-spawned":
            given.spawn(case["spawned_before"])
    elif kind == "generator":
        given = np.random.default_rng(seed)
    elif kind == "bitgen":
        given = np.random.PCG64(seed)
    else:
        given = None
    ds = L.dataset({"tag": 0, "rows": [[1, 1, 6, 5], [2, 1, 4, 6], [2, 2, 8, 7]], "timestamps": True})
    holder["data"], holder["rng"] = ds, given
    rounds = []
    for _ in range(case["repeat"]):
        log.clear()
        sb = int(given.n_children_spawned) if isinstance(given, np.random.SeedSequence) else 0
        if case["options_none"] and kind == "none":
            holder["options"] = None
            pipe.train(ds)
        else:
            opts = TrainingOptions(retrain=case["retrain"], rng=given)
            holder["options"] = opts
            pipe.train(ds, opts)
        # reference: the generators of the positional children of the supplied seed
        ref = []
        if kind in ("int", "npint", "intlist", "seedseq", "seedseq-spawned"):
            root = np.random.SeedSequence(given) if kind in ("int", "npint", "intlist") else np.random.SeedSequence(seed)
            start = sb if kind in ("seedseq", "seedseq-spawned") else 0
            for j in range(len(log)):
                child = np.random.SeedSequence(root.entropy, spawn_key=(start + j,))
                ref.append([int(x) for x in np.random.default_rng(child).integers(0, 2**62, 3)])
        rounds.append({"spawned_before": sb, "calls": list(log), "use_ref": ref})
    base = None
    if kind in ("int", "npint", "intlist"):
        ent = np.random.SeedSequence(given).entropy
        base = [int(x) for x in ent] if hasattr(ent, "__len__") else int(ent)
    elif kind in ("seedseq", "seedseq-spawned"):
        base = int(given.entropy)
    return {"rounds": rounds, "base": base}


def run_pair(case):
    """Several stochastic scorers in ONE seeded pipeline: each must be trained from its own child of the seed, i.e. be
    equal to the same component trained alone with SeedSequence(seed).spawn(..)[k], and equal scorers must come out different."""
    L.setup()
    import numpy as np
    from lenskit.pipeline import PipelineBuilder
    from lenskit.training import TrainingOptions

    ds = L.dataset(case["dataset"])

    def given():
        s = case["seed"]
        return s if case["seed_kind"] == "int" else (np.random.SeedSequence(s) if case["seed_kind"] == "seedseq" else [s, 3])
    b = PipelineBuilder()
    comps = []
    if case["deterministic_between"]:
        b.add_component("bias0", L.make("bias", {"damping": 2}))     # a trainable, non-stochastic node shifts the positions
    for j, m in enumerate(case["members"]):
        c = L.make(m["kind"], m["cfg"])
        comps.append(c)
        b.add_component(f"s{j}", c)
    pipe = b.build()
    try:
        pipe.train(ds, TrainingOptions(rng=given()))
    except (KeyError, ValueError, RuntimeError) as e:
        return {"error": type(e).__name__}
    root = np.random.SeedSequence(given()) if case["seed_kind"] != "seedseq" else np.random.SeedSequence(case["seed"])
    off = 1 if case["deterministic_between"] else 0
    members = []
    for j, (m, c) in enumerate(zip(case["members"], comps)):
        alone = L.make(m["kind"], m["cfg"])
        alone.train(ds, TrainingOptions(rng=np.random.SeedSequence(root.entropy, spawn_key=(off + j,))))
        members.append({"kind": m["kind"], "position": off + j,
                        "in_pipeline": {k: v for k, v in L.store_of(c).items() if not k.startswith("_")},
                        "alone_child": {k: v for k, v in L.store_of(alone).items() if not k.startswith("_")}})
    same = [[a, b2] for a in range(len(members)) for b2 in range(a + 1, len(members))
            if case["members"][a] == case["members"][b2]]
    return {"members": members, "same_config_pairs": same}


def run_impl(case):
    return {"comp": run_comp, "pipe": run_pipe, "instr": run_instr, "pair": run_pair}[case["type"]](case)


# ---------------------------------------------------------------------------------------------
# model side
# ---------------------------------------------------------------------------------------------


def c_store(d: dict) -> str:
    return clist(sorted(d.items()), lambda kv: f"({cstr(kv[0])}, {cz(kv[1])})")


def term_history(cls, variant, steps):
    """steps: list of (fresh store, retrain, observed store)"""
    if variant is None:
        return "false"
    st = clist(steps, lambda s: f"({c_store(s[0])}, {cbool(s[1])})")
    ob = clist(steps, lambda s: c_store(s[2]))
    return f"agree_history frames {cstr(cls)} {cstr(variant)} {st} {ob}"


RNG_KIND_COQ = {"int": "KSeedLike", "npint": "KSeedLike", "intlist": "KSeedLike", "seedseq": "KSeedSequence",
                "seedseq-spawned": "KSeedSequence", "generator": "KGenerator", "bitgen": "KBitGenerator", "none": "KNone"}


def c_call(c, base):
    r = c["rng"]
    if r[0] == "same":
        rq = "CSame"
    elif r[0] == "spawn" and r[1] == base and len(r[2]) == 1:
        rq = f"(CSpawn {cnat(r[2][0])})"
    else:
        rq = "(CSpawn 4999)"   # a seed that is not a direct child of the supplied one never matches
    return f"(mkCall {cstr(c['name'])} {cbool(c['retrain'])} {rq})"


def _dz(x) -> int:
    return int.from_bytes(hashlib.sha256(repr(x).encode()).digest()[:7], "big")


def term_pair(case, obs):
    terms = ["options_rng_passthrough"]
    for m in obs["members"]:
        terms.append(f"zlist_eqb {clist([v for _, v in sorted(m['in_pipeline'].items())], cz)} {clist([v for _, v in sorted(m['alone_child'].items())], cz)}")
    for a, b in obs["same_config_pairs"]:
        x, y = obs["members"][a]["in_pipeline"], obs["members"][b]["in_pipeline"]
        terms.append(f"negb (zlist_eqb {clist([v for _, v in sorted(x.items())], cz)} {clist([v for _, v in sorted(y.items())], cz)})")
    return " && ".join(f"({t})" for t in terms)


def coq_term(case, obs):
    if case["type"] == "pair":
        return None if obs.get("error") else term_pair(case, obs)
    if case["type"] == "comp":
        steps = [(s["fresh"], st["retrain"], s["store"]) for s, st in zip(obs["steps"], case["steps"]) if "error" not in s]
        if any(s[0] is None for s in steps):
            # a skipped call on data a fresh component rejects: nothing learned to compare from that step on
            steps = steps[: [i for i, s in enumerate(steps) if s[0] is None][0]]
        if not steps:
            return None
        return term_history(obs["class"], obs["variant"], steps)
    if case["type"] == "pipe":
        good = [(s, st) for s, st in zip(obs["steps"], case["steps"]) if "error" not in s]
        if not good:
            return None
        terms = []
        for name, cls, variant, trainable in obs["components"]:
            if trainable:
                terms.append("(" + term_history(cls, variant, [(s["fresh"][name], st["retrain"], s["stores"][name]) for s, st in good]) + ")")
        return " && ".join(terms) if terms else None
    ns = clist(case["nodes"], lambda n: f"(mkNode {cstr(n['name'])} {cbool(n['trainable'])})")
    retrain = True if (case["options_none"] and case["rng"] == "none") else case["retrain"]
    terms = []
    for r in obs["rounds"]:
        calls = clist(r["calls"], lambda c: c_call(c, obs["base"]))
        terms.append(f"(agree_pipeline pt_seed_plan pt_spawn_width {RNG_KIND_COQ[case['rng']]} {cbool(retrain)} {cnat(r['spawned_before'])} {ns} {calls})")
        if obs["base"] is not None:
            got = [_dz(c["use"]) for c in r["calls"]]
            terms.append(f"(agree_use options_rng_passthrough {clist(got, cz)} {clist([_dz(x) for x in r['use_ref']], cz)})")
    return " && ".join(terms)


# ---------------------------------------------------------------------------------------------
# the property as a predicate on implementation output (independent of the Coq model)
# ---------------------------------------------------------------------------------------------


def _public(store):
    return {k: v for k, v in store.items() if not k.startswith("_")}


def oracle_history(tag, steps_obs, steps, stores_key="store", fresh_key="fresh"):
    v = []
    eff = None
    for k, (s, st) in enumerate(zip(steps_obs, steps)):
        if "error" in s:
            break
        skipped = eff is not None and not st["retrain"]
        if skipped:
            if not s["pickle_same"]:
                v.append((f"skip-changed:{tag}", f"call {k} with retraining disabled on a trained object changed its pickle bytes"))
        else:
            eff = k
        ref = steps_obs[eff]
        if ref.get(fresh_key) is None or ref.get("fp") is None:
            break
        if s["hp"] != ref["fp"]:
            bad = [i for i, (a, b) in enumerate(zip(s["hp"], ref["fp"])) if a != b]
            v.append((f"scores-differ:{tag}", f"after call {k} the outputs differ from a fresh object trained on the data of call {eff} (probe queries {bad[:5]})"))
        a, b = s[stores_key], ref[fresh_key]
        if isinstance(a, dict) and a and all(isinstance(x, dict) for x in a.values()):
            pairs = [(n, _public(a[n]), _public(b[n])) for n in a]
        else:
            pairs = [("", _public(a), _public(b))]
        for n, x, y in pairs:
            for attr in sorted(set(x) | set(y)):
                if x.get(attr) != y.get(attr):
                    v.append((f"stale-state:{tag}:{n}{'.' if n else ''}{attr}",
                              f"after call {k} attribute {attr} differs from a fresh object trained on the data of call {eff}"))
    return v


def oracle_pair(case, obs):
    v = []
    if obs.get("error"):
        return v
    for j, m in enumerate(obs["members"]):
        if m["in_pipeline"] != m["alone_child"]:
            bad = sorted(k for k in m["in_pipeline"] if m["in_pipeline"][k] != m["alone_child"].get(k))
            v.append((f"pipeline-component-not-child-seed:{m['kind']}",
                      f"node s{j} ({m['kind']}) trained in a pipeline with seed {case['seed']} ({case['seed_kind']}) differs in {bad} from the same component "
                      f"trained alone with child {m['position']} of that seed"))
    for a, b in obs["same_config_pairs"]:
        if obs["members"][a]["in_pipeline"] == obs["members"][b]["in_pipeline"]:
            v.append((f"pipeline-components-same-stream:{obs['members'][a]['kind']}",
                      f"nodes s{a} and s{b} (equal {obs['members'][a]['kind']} scorers) of one seeded pipeline have identical parameters: they were trained from the same random stream"))
    return v


def oracle(case, obs):
    if case["type"] == "pair":
        return oracle_pair(case, obs)
    if case["type"] == "comp":
        v = oracle_history(case["kind"], obs["steps"], case["steps"])
    elif case["type"] == "pipe":
        v = oracle_history(f"pipeline-{case['builder']}-{case['kind']}", obs["steps"], case["steps"], "stores", "fresh")
    else:
        v = []
        want = [n["name"] for n in case["nodes"] if n["trainable"]]
        seeded = obs["base"] is not None
        for r in obs["rounds"]:
            names = [c["name"] for c in r["calls"]]
            if sorted(names) != sorted(want):
                v.append(("pipeline-train-count", f"trainable components {want} but train() was called on {names}"))
            if names != want:
                v.append(("pipeline-train-order", f"train() calls {names} are not the trainable nodes in node order {want}"))
            if not all(c["data_same"] for c in r["calls"]):
                v.append(("pipeline-train-data", "a component was trained on something other than the given dataset"))
            if seeded:
                seeds = [tuple(map(repr, c["rng"])) for c in r["calls"]]
                if len(set(seeds)) != len(seeds):
                    v.append(("pipeline-seeds-not-distinct", f"two components received the same seed: {seeds}"))
                if not all(c["rng"][0] == "spawn" and c["rng"][1] == obs["base"] for c in r["calls"]):
                    v.append(("pipeline-seed-not-derived", "a component's seed is not a child of the supplied seed"))
                uses = [tuple(c["use"] or ()) for c in r["calls"]]
                if len(set(uses)) != len(uses):
                    v.append(("pipeline-generators-not-distinct", f"options.random_generator() gave two components of one seeded pipeline the same stream: {uses}"))
                if uses != [tuple(x) for x in r["use_ref"]]:
                    v.append(("pipeline-generator-not-positional-child", "the generator a component obtains from its options is not the generator of its "
                              f"positional child of the supplied seed (rng kind {case['rng']}, seed {case['seed']})"))
            else:
                if not all(c["rng"][0] == "same" for c in r["calls"]):
                    v.append(("pipeline-rng-replaced", "without a seed the caller's generator must be handed on unchanged"))
            if not (case["options_none"] and case["rng"] == "none"):
                if not all(c["retrain"] == case["retrain"] for c in r["calls"]):
                    v.append(("pipeline-retrain-flag", "the retrain option was not handed to a component"))
    seen, out = set(), []
    for k, w in v:
        if k not in seen:
            seen.add(k)
            out.append((k, w))
    return out


def _vocab(spec):
    return (frozenset(r[0] for r in spec["rows"]), frozenset(r[1] for r in spec["rows"]))


def nontrivial(case, obs):
    if case["type"] == "pair":
        return not obs.get("error") and bool(obs["same_config_pairs"])
    if case["type"] == "instr":
        return sum(1 for n in case["nodes"] if n["trainable"]) >= 2 and obs["base"] is not None
    eff, effs, skipped = None, [], False
    for s, st in zip(obs["steps"], case["steps"]):
        if "error" in s:
            break
        if eff is not None and not st["retrain"]:
            skipped = True
        else:
            eff = st["ds"]
            effs.append(st["ds"])
    vocabs = {_vocab(case["datasets"][d]) for d in effs}
    return (len(effs) >= 2 and len(vocabs) >= 2) or (skipped and len(effs) >= 1)


def counters(case, obs):
    yield "type=" + case["type"]
    if case["type"] == "pair":
        yield "pair=" + "+".join(m["kind"] for m in case["members"]) + ("/bias-first" if case["deterministic_between"] else "")
        yield "pair-seed=" + case["seed_kind"]
        if obs.get("error"):
            yield "train-error=" + obs["error"]
        return
    if case["type"] == "instr":
        yield "rng=" + case["rng"]
        yield f"trainable-nodes={min(4, sum(1 for n in case['nodes'] if n['trainable']))}"
        yield f"repeat={case['repeat']}"
        return
    yield "kind=" + case["kind"]
    if case["type"] == "comp":
        yield f"variant={obs['class']}[{obs['variant']}]"
        if case["malformed"]:
            yield "malformed"
        for f in obs.get("fallbacks", []):
            yield "canon-fallback=" + f
    else:
        yield "builder=" + case["builder"]
    yield "retrain-pattern=" + "".join("T" if s["retrain"] else "F" for s in case["steps"])
    for s in obs["steps"]:
        if "error" in s:
            yield "train-error=" + s["error"]
    eff = None
    for s, st in zip(obs["steps"], case["steps"]):
        if "error" in s:
            break
        if eff is not None and not st["retrain"]:
            yield "branch=skipped"
        else:
            yield "branch=trained" if eff is None else "branch=retrained"
            eff = st
    ds = case["datasets"]
    if len(ds) >= 2 and (_vocab(ds[0])[1] - _vocab(ds[1])[1]):
        yield "earlier-dataset-has-items-the-later-lacks"
    if not all(d.get("timestamps", True) for d in ds):
        yield "dataset-without-timestamps"


def sample(case, obs):
    if case["type"] == "pair":
        return {"case": {k: v for k, v in case.items() if k != "dataset"}, "observation": obs}
    if case["type"] == "instr":
        return {"case": case, "observation": obs}
    small = {k: v for k, v in case.items() if k != "datasets"}
    small["datasets"] = [{"users": len({r[0] for r in d["rows"]}), "items": len({r[1] for r in d["rows"]}), "rows": len(d["rows"])} for d in case["datasets"]]
    return {"case": small, "observation": {"steps": [{k: (v if k != "hp" and k != "fp" else f"{len(v or [])} probe digests") for k, v in s.items()} for s in obs["steps"][:2]]}}


def shrink(case, fails):
    if case["type"] == "pair":
        return case
    if case["type"] == "instr":
        c = dict(case)
        c["nodes"] = common.shrink_list(case["nodes"], lambda xs: bool(xs) and fails({**c, "nodes": xs}), 20)
        return c
    c = dict(case)
    c["steps"] = common.shrink_list(case["steps"], lambda xs: bool(xs) and fails({**c, "steps": xs}), 12)
    for i in range(len(c["datasets"])):
        def with_rows(rows, i=i):
            ds = [dict(d) for d in c["datasets"]]
            ds[i]["rows"] = rows
            return {**c, "datasets": ds}
        rows = common.shrink_list(c["datasets"][i]["rows"], lambda xs: len(xs) >= 2 and fails(with_rows(xs)), 25)
        c = with_rows(rows)
    return c
