"""C05 -- train/test splits are exact, leak-free partitions with the exact hold-out (DESIGN.md section 4, C05)."""

from __future__ import annotations

import json
import subprocess
from collections import Counter
from fractions import Fraction

import common
from common import cbool, clist, cnat, cz
from framework import TranslateError  # noqa: F401

PID = "C05"
PROPS_FILE = "Props/C05.v"
GEN_FILES = ["Gen/C05_holdout.v"]
MODEL_FILES = ["Model/C05_split.v"]
ALLOWED_AXIOMS: list[str] = []
CASE_HEADER = ("From Coq Require Import ZArith QArith List Bool PrimFloat.\n"
               "From LK Require Import Lib.SplitLib Lib.PyRound Gen.C05_holdout Model.C05_split.")
SHARD = 40
TRUSTED = [
    "Coq 8.16.1 kernel + vm_compute (no native_compute); Print Assumptions of every theorem in Props/C05.v: closed under the global context "
    "(the theorems quantify over the rounding function; PrimFloat primitives are used only by the executable model's py_round_mul in the case files)",
    "translator harness/translate/c05.py (Python ast -> Gallina for the four hold-out __call__ bodies; Python slice semantics = SplitLib.py_slice)",
    "library contracts as hypotheses of the theorems, each checked on every case by a verified boolean checker: rng.shuffle returns a permutation "
    "(is_perm_b), rng.choice(a, n, replace=False) returns n distinct values below a or raises for n<0 / n>a (choice_ok_b, np_choice), "
    "np.argsort returns a sorting permutation (argsort_ok_b), np.array_split sizes (split_sizes), Python's round(len*frac) (py_round_mul: one "
    "binary64 multiplication, round-half-even; checked bit for bit by the correspondence)",
    "hand-written model of records.py / users.py / temporal.py / split.py / filter_interactions (Model/C05_split.v) tied by the correspondence cases "
    "evaluated inside Coq; pandas / pyarrow / numpy internals (masks, anti-join, group-by, quantile) are exercised, not verified",
    "time-zone behaviour: separate processes with TZ set (harness/c05_impl.py); the model's zone offset parameter is 0 in those runs because only "
    "zone-independent cut-off forms are used there",
]
ASSUMPTIONS = [
    "interaction records have distinct (user, item) pairs (the default interaction class of a dataset without repeats)",
    "hold-out sizes are >= 0 and fractions are in [0, 1] for the exact-count theorems (other values are modelled and compared, not claimed)",
    "in-Coq correspondence for datasets built from an interaction frame and for small datasets assembled in chunks (users without rows, "
    "vocabularies not in id order: the model takes the stored record and user order from the dataset); datasets with huge declared entity tables "
    "(thousands of users without rows, user x item grid beyond 2^31 / 2^32) are checked by the oracle only - the model and theorems do not "
    "mention entity numbers",
    "naive date-times / ISO text as cut-offs for an integer-second column are interpreted in the process zone (outside the property's quantifier; run under UTC only)",
]
RULE = ("structured generator: 1-6 users with 1-6 rows each (many single-row users and users smaller than the hold-out), ties in time, integer-second / "
        "timestamp[ns] / absent time column, integer or string ids; every splitter with every parameter shape (partition counts 0..n+2, sample sizes "
        "0..n+1, repeats None/0..4, disjoint or not, oversized requests taking the cross-fold fallback, test_only), four hold-out rules with sizes 0-5 "
        "and fractions 0..1 (malformed stream: negative / >1 / missing ordering field / no time column), temporal cut-offs as int, float, datetime and "
        "ISO text, single or sequence, with and without `end`; a few datasets with declared entity tables whose user x item grid exceeds 2^31 / 2^32 "
        "(records on cells 2^31 / 2^32 apart in row- and column-major order and on adjacent cells; users without rows); datasets assembled "
        "incrementally through DatasetBuilder (1-4 interaction chunks by user / by item / arbitrary rows in any order, unknown entities inserted on the "
        "fly or declared by add_entities, entities without rows declared at the start / in between / at the end, re-declarations; mostly contiguous "
        "integer or string ids, so vocabularies are dense but stored in arrival order) for every splitter; time resolution and magnitude as a dimension (integer times in s / ms / us / ns since the epoch, "
        "around 2^53, near 2^62 and negative; timestamp[s|ms|us|ns] columns incl. microsecond counts beyond 2^53; times of a user mostly ONE unit apart, in "
        "item order, against it or arbitrary, some ties; Last* rules, temporal splitters and the time window with cut-offs next to the stored times as "
        "integers, exactly representable floats, pandas Timestamps of nanosecond resolution (also finer than the column's unit), datetimes, ISO text); "
        "a few batches re-run in other time zones in separate processes.  non-trivial = no "
        "error, at least 2 records, and some pair with a non-empty test side and a non-empty (or test-only) training side; distinct = hash of the case")

ZONES = ["America/New_York", "Asia/Tokyo", "Pacific/Chatham", "Europe/London"]
BASE = 1_699_000_000  # 2023-11-03T08:26:40Z; +72 h covers the US end of daylight saving time


def translate():
    from translate import c05 as t
    from translate.pyq import TranslateError as TE
    try:
        return t.translate(common.SRC)
    except TE as e:
        raise TranslateError(str(e))


# ---------------------------------------------------------------------------------------------
# generator
# ---------------------------------------------------------------------------------------------

FRACS = [0.0, 0.1, 0.2, 0.25, 0.3, 1 / 3, 0.45, 0.5, 0.6, 0.75, 0.9, 1.0]


def gen_data(rng, tcol=None, epoch=False):
    nu = rng.weighted([(1, 1), (2, 2), (3, 3), (4, 3), (5, 2), (6, 1)])
    ni = rng.randint(1, 6)
    users = rng.sample(list(range(1, 30)), nu)
    items = rng.sample(list(range(1, 30)), ni)
    if tcol is None:
        tcol = rng.weighted([("int", 11), ("ts", 7), ("none", 1)])
    epoch = epoch or (tcol == "ts") or rng.chance(1, 6)
    rows = []
    for u in users:
        cnt = min(ni, rng.weighted([(1, 3), (2, 3), (3, 2), (4, 1), (5, 1), (6, 1)]))
        for i in rng.sample(items, cnt):
            k = rng.randint(0, 8)
            if tcol == "none":
                t = 0
            elif not epoch:
                t = k
            else:
                t = BASE + k * 9 * 3600
                if tcol == "ts":
                    t = t * 10**9 + (500_000_000 if rng.chance(1, 5) else 0)
            rows.append([u, i, rng.randint(2, 20), t])
    return {"rows": rng.shuffle(rows), "tcol": tcol, "ids": rng.weighted([("int", 4), ("str", 1)])}


def _split_groups(rng, xs, nb):
    """xs in a random order cut into nb non-empty consecutive groups (fewer when xs is short)"""
    xs = rng.shuffle(list(xs))
    nb = max(1, min(nb, len(xs)))
    cuts = sorted(rng.sample(list(range(1, len(xs))), nb - 1)) if nb > 1 else []
    return [xs[a:b] for a, b in zip([0] + cuts, cuts + [len(xs)])]


def gen_batched_data(rng, tcol=None, epoch=False):
    """A dataset assembled incrementally through DatasetBuilder: interaction chunks (by user, by item or arbitrary
    rows, in any order) whose unknown entities are inserted on the fly or declared by add_entities just before,
    plus entities without rows declared at the start, in between or at the end.  Identifier sets are mostly
    contiguous ranges, so the vocabularies are dense but stored in arrival order, not in id order."""
    nu = rng.weighted([(2, 2), (3, 3), (4, 3), (5, 3), (6, 2), (8, 1)])
    ni = rng.randint(2, 6)
    xu = rng.weighted([(0, 3), (1, 2), (2, 2), (4, 1)])      # users without rows
    xi = rng.weighted([(0, 4), (1, 1), (3, 1)])              # items without rows
    dense = rng.chance(4, 5)

    def universe(n):
        if dense:
            b = rng.choice([0, 1, 1, 2, 7, 100])
            return list(range(b, b + n))
        return sorted(rng.sample(list(range(0, 60)), n))

    uu = rng.shuffle(universe(nu + xu))
    ii = rng.shuffle(universe(ni + xi))
    users, extra_u = uu[:nu], uu[nu:]
    items, extra_i = ii[:ni], ii[ni:]
    if tcol is None:
        tcol = rng.weighted([("int", 11), ("ts", 7), ("none", 1)])
    epoch = epoch or (tcol == "ts") or rng.chance(1, 6)
    rows = []
    for u in users:
        cnt = min(ni, rng.weighted([(1, 3), (2, 3), (3, 2), (4, 1), (5, 1), (6, 1)]))
        for i in rng.sample(items, cnt):
            k = rng.randint(0, 8)
            if tcol == "none":
                t = 0
            elif not epoch:
                t = k
            else:
                t = BASE + k * 9 * 3600
                if tcol == "ts":
                    t = t * 10**9 + (500_000_000 if rng.chance(1, 5) else 0)
            rows.append([u, i, rng.randint(2, 20), t])
    rows = rng.shuffle(rows)
    # ---- the chunks ---------------------------------------------------------------------------
    nb = rng.weighted([(1, 1), (2, 4), (3, 3), (4, 1)])
    how = rng.weighted([("by-user", 5), ("by-item", 2), ("rows", 2)])
    if how == "by-user":
        chunks = [[[r[0], r[1]] for r in rows if r[0] in g] for g in _split_groups(rng, users, nb)]
    elif how == "by-item":
        chunks = [[[r[0], r[1]] for r in rows if r[1] in g] for g in _split_groups(rng, items, nb)]
    else:
        chunks = [[[r[0], r[1]] for r in g] for g in _split_groups(rng, rows, nb)]
    chunks = [c for c in chunks if c]
    steps, known_u, known_i = [], set(), set()

    def declare(cls, ids, known):
        ids = list(ids)
        dup = False
        if known and rng.chance(1, 5):                  # re-declares known entities too (duplicates="update")
            ids += rng.sample(sorted(known), rng.randint(1, min(2, len(known))))
            dup = True
        steps.append({"op": cls, "ids": rng.shuffle(ids), "dup": dup})
        known.update(ids)

    pend_u = _split_groups(rng, extra_u, rng.randint(1, 2)) if extra_u else []
    pend_i = [extra_i] if extra_i else []
    upfront = rng.chance(1, 6)                          # everything declared first, in several declarations
    if upfront:
        for g in _split_groups(rng, users + extra_u, rng.randint(2, 3)):
            declare("user", g, known_u)
        for g in _split_groups(rng, items + extra_i, rng.randint(1, 3)):
            declare("item", g, known_i)
        pend_u, pend_i = [], []
    for c in chunks:
        while pend_u and rng.chance(1, 3):
            declare("user", pend_u.pop(), known_u)
        while pend_i and rng.chance(1, 3):
            declare("item", pend_i.pop(), known_i)
        cu = {p[0] for p in c} - known_u
        ci = {p[1] for p in c} - known_i
        missing = "insert"
        if not (cu or ci):
            missing = rng.choice(["error", "insert"])
        elif rng.chance(1, 3):
            if cu:
                declare("user", sorted(cu), known_u)
            if ci:
                declare("item", sorted(ci), known_i)
            missing = rng.choice(["error", "insert"])
        elif rng.chance(1, 4) and cu:
            declare("user", sorted(cu), known_u)        # users declared, items inserted on the fly
        steps.append({"op": "interactions", "pairs": c, "missing": missing})
        known_u.update(p[0] for p in c)
        known_i.update(p[1] for p in c)
    while pend_u:
        declare("user", pend_u.pop(), known_u)
    while pend_i:
        declare("item", pend_i.pop(), known_i)
    return {"rows": rows, "tcol": tcol, "ids": rng.weighted([("int", 3), ("str", 2)]), "build": steps}


# ---- time RESOLUTION and magnitude ------------------------------------------------------------------------
# The stored times of a case are integers: for an integer column the integers themselves, for a timestamp column
# nanoseconds since the epoch (canonical; the column may be stored as timestamp[s|ms|us|ns], `tunit`).  The
# "most recent" clause, the cut predicates and the window are checked on these integers exactly.

UNIT = {"s": 1, "ms": 10**3, "us": 10**6, "ns": 10**9}     # units per second


def gen_resolution(rng, tcol):
    """(tunit, base, quantum): base and quantum in canonical integers (quantum = one unit of the column)"""
    unit = rng.weighted([("s", 1), ("ms", 2), ("us", 3), ("ns", 5)])
    if tcol == "ts":
        q = 10**9 // UNIT[unit]
        base = BASE * 10**9
        if unit == "us" and rng.chance(1, 3):
            base = (2**53 - rng.randint(0, 6)) * q            # year 2255: the microsecond count crosses 2**53
        elif unit in ("s", "ms") and rng.chance(1, 4):
            base = 7_000_000_000 * 10**9                       # year 2191
        return unit, base, q
    where = rng.weighted([("epoch", 6), ("2^53", 3), ("2^62", 2), ("negative", 1)])
    if where == "epoch":
        base = BASE * UNIT[unit]                               # s 1.7e9 .. ns 1.7e18 (beyond 2**53)
    elif where == "2^53":
        base = 2**53 - rng.randint(0, 6)                       # the offsets straddle 2**53
    elif where == "2^62":
        base = 2**62 + rng.randint(0, 2**20)
    else:
        base = -(2**53) - rng.randint(0, 2**10)
    return unit, base, 1


def apply_resolution(rng, data):
    """Re-times the rows of a dataset: fine resolution at large magnitude.  Within a user the times are a few
    units apart (mostly ONE unit), and their order is the item order, its reverse, or arbitrary; a few ties."""
    tcol = data["tcol"]
    if tcol == "none":
        return data
    unit, base, q = gen_resolution(rng, tcol)
    items = sorted({r[1] for r in data["rows"]})
    rank = {i: k for k, i in enumerate(items)}
    by_user = {}
    for r in data["rows"]:
        by_user.setdefault(r[0], []).append(r)
    mode = rng.weighted([("anti", 4), ("random", 3), ("with", 1)])
    step = rng.weighted([(1, 6), (2, 1), (3, 1), (100, 1), (257, 1), (1000, 1)])
    for u in sorted(by_user):
        rs = by_user[u]
        off = rng.randint(0, 3) * step if rng.chance(1, 2) else rng.randint(0, 600)
        m = mode if not rng.chance(1, 6) else rng.choice(["anti", "random", "with"])
        if m == "random":
            ks = rng.shuffle(list(range(len(rs))))
            pos = {r[1]: k for r, k in zip(rs, ks)}
        else:
            srt = sorted(rs, key=lambda r: rank[r[1]], reverse=(m == "anti"))
            pos = {r[1]: k for k, r in enumerate(srt)}
        for r in rs:
            k = pos[r[1]]
            if k > 0 and rng.chance(1, 8):
                k -= 1                                          # a tie (or the same gap twice)
            r[3] = base + (off + k * step) * q
    data["tunit"] = unit
    data["tmode"] = mode
    return data


def gen_res_cut(rng, data):
    """cut-off next to the stored times, in the representation of the stored times: an integer (or an exactly
    representable float) for an integer column; a pandas Timestamp of nanosecond resolution, a datetime / ISO text
    (microseconds) or whole UNIX seconds for a timestamp column"""
    ts = [r[3] for r in data["rows"]] or [0]
    q = 10**9 // UNIT[data["tunit"]] if data["tcol"] == "ts" else 1
    v = rng.choice(ts) + rng.choice([0, 0, 0, 1, -1, 2, -2, 3]) * q
    if rng.chance(1, 12):
        v = min(ts) - 5 * q if rng.chance(1, 2) else max(ts) + 5 * q
    if data["tcol"] != "ts":
        c = {"k": "num", "v": common.fjson(Fraction(v))}
        if rng.chance(1, 3):
            c = {"k": "num", "v": common.fjson(Fraction(float(v))), "float": True}      # the nearest binary64, exactly
        return c
    if q > 1 and rng.chance(1, 4):
        v += rng.choice([1, q // 2, q - 1])                    # finer than the column's unit
    k = rng.weighted([("pts", 6), ("dt", 1 if v % 1000 == 0 and v >= 0 else 0), ("iso", 1 if v % 1000 == 0 and v >= 0 else 0), ("num", 1)])
    if k == "num":
        v = (v // 10**9 + rng.choice([0, 1])) * 10**9          # whole UNIX seconds
        c = {"k": "num", "v": common.fjson(Fraction(v, 10**9))}
        if rng.chance(1, 3):
            c["float"] = True
        return c
    c = {"k": k, "v": common.fjson(Fraction(v, 10**9))}
    if k == "pts" and v % q == 0 and rng.chance(1, 3):
        c["as"] = data["tunit"]                                # a Timestamp of the column's own unit
    return c


def gen_holdout(rng, malformed, kinds=None):
    kind = rng.choice(kinds or ["SampleN", "SampleFrac", "LastN", "LastFrac"])
    h = {"kind": kind}
    if kind in ("SampleN", "LastN"):
        h["n"] = rng.weighted([(0, 2), (1, 4), (2, 3), (3, 2), (5, 1)])
        if malformed and rng.chance(1, 3):
            h["n"] = -1
    else:
        f = rng.choice(FRACS) if rng.chance(3, 4) else rng.randint(0, 100) / 100
        if malformed and rng.chance(1, 3):
            f = rng.choice([1.5, -0.5, 1.2])
        h["frac"] = float(f).hex()
    if kind in ("LastN", "LastFrac"):
        h["field"] = rng.weighted([("timestamp", 6), ("rating", 2)])
        h["explicit"] = rng.chance(1, 2)
        if malformed and rng.chance(1, 2):
            h["field"] = "zzz"
    return h


def gen_cut(rng, data, wall_ok):
    if data.get("tunit"):
        return gen_res_cut(rng, data)
    ts = [r[3] for r in data["rows"]] or [0]
    unit = 10**9 if data["tcol"] == "ts" else 1
    v = Fraction(rng.choice(ts), unit) + rng.choice([Fraction(0), Fraction(0), Fraction(1, 2), Fraction(-1, 2), Fraction(1), Fraction(-1), Fraction(3600)])
    if rng.chance(1, 12):
        v = Fraction(min(ts), unit) - 5 if rng.chance(1, 2) else Fraction(max(ts), unit) + 5
    kinds = [("num", 5)] + ([("dt", 2), ("iso", 2)] if wall_ok and v >= 0 else [])
    k = rng.weighted(kinds)
    c = {"k": k, "v": common.fjson(v)}
    if k == "num" and v.denominator == 1 and rng.chance(1, 3):
        c["float"] = True
    return c


def gen_call(rng, kind, data, malformed, utc=True):
    n = len(data["rows"])
    nu = len(_all_users(data))
    if kind == "records":
        if rng.chance(1, 2):
            k = rng.weighted([(0, 1 if malformed else 0), (1, 2), (2, 4), (3, 4), (n, 2), (n + 2, 1), (rng.randint(1, n + 1), 4)])
            return {"fn": "crossfold_records", "k": k, "test_only": rng.chance(1, 4)}
        return {"fn": "sample_records", "size": rng.weighted([(0, 1), (1, 3), (2, 3), (n, 1), (n + 1, 1 if malformed else 0), (rng.randint(0, n), 4)]),
                "repeats": rng.weighted([(None, 3), (0, 1), (1, 2), (2, 3), (3, 2), (4, 1)]),
                "disjoint": rng.chance(2, 3), "test_only": rng.chance(1, 4)}
    if kind == "users":
        h = gen_holdout(rng, malformed, kinds=["LastN", "LastFrac", "LastN", "LastFrac", "SampleN", "SampleFrac"] if data.get("tunit") else None)
        if rng.chance(1, 2):
            k = rng.weighted([(0, 1 if malformed else 0), (1, 2), (2, 4), (3, 3), (nu, 2), (nu + 2, 1), (rng.randint(1, nu + 1), 3)])
            return {"fn": "crossfold_users", "k": k, "test_only": rng.chance(1, 4), "holdout": h}
        return {"fn": "sample_users", "size": rng.weighted([(0, 1), (1, 4), (2, 3), (nu, 1), (nu + 1, 1 if malformed else 0), (rng.randint(0, nu), 3)]),
                "repeats": rng.weighted([(None, 3), (0, 1), (1, 2), (2, 3), (3, 2), (4, 1)]),
                "disjoint": rng.chance(2, 3), "test_only": rng.chance(1, 4), "holdout": h}
    wall_ok = utc or data["tcol"] == "ts"
    if kind == "filter":
        return {"fn": "filter_interactions", "min": gen_cut(rng, data, wall_ok) if rng.chance(2, 3) else None,
                "max": gen_cut(rng, data, wall_ok) if rng.chance(2, 3) else None}
    if rng.chance(1, 4) and data["tcol"] != "none":
        f = rng.choice(FRACS[1:-1]) if rng.chance(2, 3) else rng.randint(1, 99) / 100
        return {"fn": "split_temporal_fraction", "frac": float(f).hex()}
    nc = rng.weighted([(1, 5), (2, 3), (3, 2)])
    cuts = [gen_cut(rng, data, wall_ok) for _ in range(nc)]
    if not rng.chance(1, 6):
        cuts.sort(key=lambda c: Fraction(c["v"]))
    return {"fn": "split_global_time", "cuts": cuts, "single": nc == 1 and rng.chance(2, 3),
            "end": gen_cut(rng, data, wall_ok) if rng.chance(2, 5) else None}


def gen_case(rng, malformed=False, kind=None, utc=True, batched=False, res=False):
    if res:
        kind = kind or rng.weighted([("users", 10), ("time", 5), ("filter", 2), ("records", 1)])
    if batched:
        kind = kind or rng.weighted([("records", 8), ("users", 8), ("time", 3), ("filter", 1)])
    kind = kind or rng.weighted([("records", 6), ("users", 10), ("time", 5), ("filter", 1)])
    tcol = None
    if kind in ("time", "filter"):
        tcol = rng.weighted([("int", 5), ("ts", 5), ("none", 1 if malformed else 0)])
    data = gen_batched_data(rng, tcol, epoch=not utc) if batched else gen_data(rng, tcol, epoch=not utc)
    if res:
        data = apply_resolution(rng.fork("resolution"), data)
    return {"kind": kind, "data": data, "call": gen_call(rng, kind, data, malformed, utc), "seed": rng.randint(0, 2**31 - 1),
            "style": ("resolution/" if res else "") + ("batched/" if batched else "") + kind + ("/malformed" if malformed else "")}


# (users, items) of the declared entity tables: the user x item grid exceeds 2**32, or lies between 2**31 and 2**32
SPACES = [((4500, 1_000_000), 3), ((2200, 2_000_000), 2), ((2200, 1_000_000), 2)]


def gen_big_case(rng):
    """Few interaction records in a huge identifier space.  Records are placed on grid cells whose linear
    positions (row-major and column-major) are 2**32 / 2**31 apart, and on adjacent cells, so that any
    combined or narrowed (user, item) key that is not exact identifies two different records."""
    nu, ni = rng.weighted(SPACES)
    mod = 2**32 if nu * ni > 2**32 and rng.chance(3, 4) else 2**31
    du = -(-mod // ni)
    di = du * ni - mod            # (u + du, i - di) is `mod` cells after (u, i) in row-major order
    dj = -(-mod // nu)
    dv = dj * nu - mod            # (u - dv, i + dj) is `mod` cells after (u, i) in column-major order
    cells = {}

    def put(u, i):
        if 0 <= u < nu and 0 <= i < ni and (u, i) not in cells:
            cells[(u, i)] = [u + 1, i + 1, rng.randint(2, 20), rng.randint(0, 8)]

    for _ in range(rng.randint(3, 6)):
        u = rng.below(max(1, nu - du))
        for _ in range(rng.randint(1, 3)):
            i = rng.randint(min(di, ni - 2), ni - 2)
            put(u, i)
            k = rng.weighted([("row", 5), ("col", 2), ("near", 2), ("none", 1)])
            if k == "row":
                put(u + du, i - di)
                if rng.chance(1, 2):
                    put(u + du, rng.below(ni))
            elif k == "col":
                put(u - dv, i + dj)
                put(u + (nu - dv if u < dv else 0), max(0, i - dj))
            elif k == "near":
                put(u, i + 1)
                put(min(u + 1, nu - 1), i)
    for _ in range(rng.randint(0, 4)):
        put(rng.below(nu), rng.below(ni))
    data = {"rows": rng.shuffle(list(cells.values())), "tcol": "int", "ids": "int", "space": {"users": nu, "items": ni}}
    kind = rng.weighted([("users", 8), ("records", 1), ("time", 1)])
    if kind == "users":
        hk = rng.choice(["SampleN", "SampleFrac", "LastN", "LastFrac"])
        h = {"kind": hk}
        if hk in ("SampleN", "LastN"):
            h["n"] = rng.weighted([(1, 4), (2, 2), (0, 1)])
        else:
            h["frac"] = float(rng.choice([0.3, 0.5, 0.75, 1.0])).hex()
        if hk in ("LastN", "LastFrac"):
            h["field"], h["explicit"] = "timestamp", rng.chance(1, 2)
        if rng.chance(1, 2):
            call = {"fn": "crossfold_users", "k": rng.randint(2, 3), "test_only": False, "holdout": h}
        else:
            call = {"fn": "sample_users", "size": nu // rng.randint(2, 3), "repeats": rng.weighted([(None, 2), (1, 2), (2, 3)]),
                    "disjoint": rng.chance(2, 3), "test_only": rng.chance(1, 6), "holdout": h}
    else:
        call = gen_call(rng, kind, data, False)
    return {"kind": kind, "data": data, "call": call, "seed": rng.randint(0, 2**31 - 1), "style": "large-id-space/" + kind}


def gen_cases(rng, tier):
    # the case files instantiate the rounding function with the PrimFloat model; that file is kept out of
    # the dependency closure of Props/C05.v on purpose (the theorems hold for every rounding function)
    common.make_targets(["Lib/PyRound.vo"])   # if this fails the case shards report it
    n = 700 if tier == "quick" else 5000
    out = []
    for k in range(n):
        out.append(gen_case(rng.fork(k), malformed=(k % 7 == 6)))
    for k in range(5 if tier == "quick" else 40):
        out.append(gen_big_case(rng.fork(f"space{k}")))
    for k in range(160 if tier == "quick" else 1200):
        out.append(gen_case(rng.fork(f"batched{k}"), malformed=(k % 9 == 8), batched=True))
    for k in range(150 if tier == "quick" else 1200):
        out.append(gen_case(rng.fork(f"resolution{k}"), malformed=(k % 11 == 10), batched=(k % 4 == 3), res=True))
    nz = 4 if tier == "quick" else 8
    per = 10 if tier == "quick" else 20
    for z in range(nz):
        r = rng.fork(f"tz{z}")
        subs = []
        for j in range(per):
            rr = r.fork(j)
            subs.append(gen_case(rr, kind=rr.weighted([("time", 6), ("filter", 2)]), utc=False))
        out.append({"kind": "tz", "tz": ZONES[z % len(ZONES)], "sub": subs, "style": "tz"})
    return out


# ---------------------------------------------------------------------------------------------
# implementation driver
# ---------------------------------------------------------------------------------------------


def run_impl(case):
    import c05_impl
    if case["kind"] != "tz":
        return c05_impl.observe(case)
    p = subprocess.run([common.PY, "-W", "ignore", str(common.VERIF / "harness" / "c05_impl.py")],
                       input=json.dumps(case["sub"]), capture_output=True, text=True, env=common.base_env(TZ=case["tz"]), timeout=600)
    if p.returncode != 0:
        raise RuntimeError("time-zone driver failed: " + p.stderr[-800:])
    out = json.loads(p.stdout[p.stdout.index("{"):])
    if out["tz"] != case["tz"]:
        raise RuntimeError(f"time-zone driver ran under {out['tz']}")
    subs = []
    for r in out["results"]:
        if "harness_error" in r:
            raise RuntimeError("time-zone driver: " + r["harness_error"])
        subs.append(r["obs"])
    return {"tz": out["tz"], "tzname": out["tzname"], "sub": subs}


# ---------------------------------------------------------------------------------------------
# model side
# ---------------------------------------------------------------------------------------------


class Unrepresentable(Exception):
    pass


def c_rec(r):
    if any(not isinstance(x, int) for x in r):
        raise Unrepresentable(r)
    return f"(mkRec {cz(r[0])} {cz(r[1])} {cz(r[2])} {cz(r[3])})"


def c_recs(rows):
    if not isinstance(rows, list):
        raise Unrepresentable(rows)
    return clist(rows, c_rec)


def c_nats(xs):
    return clist(xs, cnat)


def c_q(s):
    q = Fraction(s)
    return f"(Qmake ({q.numerator}) {q.denominator})"


def c_float(hexs):
    x = float.fromhex(hexs)
    h = x.hex()
    return f"({h})%float" if not h.startswith("-") else f"(PrimFloat.opp ({h[1:]})%float)"


def c_cut(c):
    if c is None:
        return "None"
    return f"(Some {c_cut1(c)})"


def c_cut1(c):
    return f"({'CNum' if c['k'] == 'num' else 'CWall'} {c_q(c['v'])})"


def c_obs_fold(f):
    return (f"(mkObs {c_recs(f['train'])} {c_recs(f['test'])} {clist(f['keys'], cz)} {c_recs(f['train_df'])} "
            f"{c_recs(f['test_df'])} {cnat(f['size'])})")


def c_field(h, data):
    f = h.get("field")
    if f == "timestamp":
        return "FTime" if data["tcol"] != "none" else "FMissing"
    return "FAttr" if f == "rating" else "FMissing"


def c_holdout(h, data):
    k = h["kind"]
    if k == "SampleN":
        return f"(HSampleN {cz(h['n'])})"
    if k == "SampleFrac":
        return f"(HSampleFrac {c_float(h['frac'])})"
    if k == "LastN":
        return f"(HLastN {cz(h['n'])} {c_field(h, data)})"
    return f"(HLastFrac {c_float(h['frac'])} {c_field(h, data)})"


def c_opt_z(x):
    return "None" if x is None else f"(Some {cz(x)})"


def coq_term(case, obs):
    if case["kind"] == "tz":
        parts = [coq_term(c, o) for c, o in zip(case["sub"], obs["sub"])]
        return " && ".join(f"({p})" for p in parts)
    if case["data"].get("space"):
        # thousands of users: positions are unary `nat`s in the model, so these cases are left to the oracle
        # (the theorems do not mention entity numbers at all; they cover these datasets as any other)
        return None
    if obs.get("build_error"):
        return "false"
    try:
        return _term(case, obs)
    except Unrepresentable:
        return "false"


def _term(case, obs):
    data, call = case["data"], case["call"]
    fn = call["fn"]
    recs = c_recs(obs["recs"])
    users = clist(obs["users"], cz)
    code = cnat(obs["error"])
    folds = clist(obs["folds"], c_obs_fold)
    draws = [d["out"] for d in obs["draws"]]
    checks = []
    if obs["error"] == 0:
        for d in obs["draws"]:
            if d["op"] == "shuffle":
                checks.append(f"is_perm_b {cnat(d['n'])} {c_nats(d['out'])}")
            else:
                checks.append(f"choice_ok_b {cnat(d['n'])} {cz(d['size'])} {c_nats(d['out'])}")
    d0 = c_nats(draws[0]) if draws else "[]"
    dl = clist(draws, c_nats)
    col = {"int": "ColInt", "ts": "ColTs", "none": "ColNone"}[data["tcol"]]
    if fn == "crossfold_records":
        m = f"crossfold_records {recs} {cz(call['k'])} {cbool(call['test_only'])} {d0}"
    elif fn == "sample_records":
        m = f"sample_records {recs} {cz(call['size'])} {c_opt_z(call['repeats'])} {cbool(call['disjoint'])} {cbool(call['test_only'])} {dl}"
    elif fn in ("crossfold_users", "sample_users"):
        hds = []
        for fold in obs["hdraws"]:
            one = []
            for e in fold:
                dr = e["draw"]["out"] if e["draw"] else []
                od = e["ordered"] if e["ordered"] is not None else []
                one.append(f"({c_nats(dr)}, {c_nats(od)})")
                if obs["error"] == 0:
                    if e["draw"]:
                        if e["draw"]["n"] != e["len"]:
                            checks.append("false")
                        checks.append(f"choice_ok_b {cnat(e['len'])} {cz(e['draw']['size'])} {c_nats(dr)}")
                    if e["ordered"] is not None:
                        if any(not isinstance(x, int) for x in e["col"]):
                            raise Unrepresentable(e["col"])
                        checks.append(f"argsort_ok_b {clist(e['col'], cz)} {c_nats(od)}")
            hds.append("[" + "; ".join(one) + "]")
        hds = "[" + "; ".join(hds) + "]"
        h = c_holdout(call["holdout"], data)
        if fn == "crossfold_users":
            m = f"crossfold_users py_round_mul {recs} {users} {cz(call['k'])} {h} {cbool(call['test_only'])} {d0} {hds}"
        else:
            m = (f"sample_users py_round_mul {recs} {users} {cz(call['size'])} {c_opt_z(call['repeats'])} {cbool(call['disjoint'])} "
                 f"{cbool(call['test_only'])} {h} {dl} {hds}")
    elif fn == "split_global_time":
        m = f"split_global_time {col} 0%Z {recs} {clist(call['cuts'], c_cut1)} {c_cut(call['end'])}"
    elif fn == "split_temporal_fraction":
        cut = obs.get("cut") or {"k": "num", "v": "0/1"}
        m = f"split_global_time {col} 0%Z {recs} [{c_cut1(cut)}] None"
    elif fn == "filter_interactions":
        t = f"agree_rows (filter_window {col} 0%Z {recs} {c_cut(call['min'])} {c_cut(call['max'])}) {code} {c_recs(obs.get('rows', []))}"
        return t
    else:
        raise AssertionError(fn)
    t = f"agree ({m}) {code} {folds}"
    for c in checks:
        t += f" && ({c})"
    return t


# ---------------------------------------------------------------------------------------------
# the property as a predicate on implementation output (independent of the Coq model)
# ---------------------------------------------------------------------------------------------


def _key(r):
    return (r[0], r[1], str(r[2]), r[3])


def _srt(rows):
    return sorted(rows, key=_key)


def _cut_value(c, data):
    """value of a cut-off in the unit of the stored column (UTC; naive wall-clock = UTC)"""
    q = Fraction(c["v"])
    return q * 10**9 if data["tcol"] == "ts" else q


def _holdout_count(h, ln):
    if h["kind"] in ("SampleN", "LastN"):
        return min(max(h["n"], 0), ln) if h["n"] >= 0 else None
    f = float.fromhex(h["frac"])
    n = round(ln * f)
    return n if 0 <= n <= ln else None


def _holdout_error(h, ln, data):
    """error a hold-out must raise on a row of that length (None: no error)"""
    k = h["kind"]
    missing = k in ("LastN", "LastFrac") and (h["field"] not in ("timestamp", "rating") or (h["field"] == "timestamp" and data["tcol"] == "none"))
    missing = missing or ln == 0      # the empty list of a user without rows has no fields (matters for a negative size only)
    if k == "SampleN":
        return 1 if h["n"] < 0 else None
    if k == "SampleFrac":
        n = round(ln * float.fromhex(h["frac"]))
        return 1 if (n < 0 or n > ln) else None
    if k == "LastN":
        return 2 if (missing and ln > h["n"]) else None
    return 2 if (missing and ln > round(ln * float.fromhex(h["frac"]))) else None


def _all_users(data):
    if data.get("space"):
        return list(range(1, data["space"]["users"] + 1))
    us = {r[0] for r in data["rows"]}
    for st in data.get("build") or []:
        if st["op"] == "user":
            us.update(st["ids"])
    return sorted(us)


def _expected_error(case, rows):
    """None: must succeed; int: must raise that; ('maybe', code): depends on which users were drawn"""
    call, data = case["call"], case["data"]
    fn = call["fn"]
    n = len(rows)
    lens = Counter({u: 0 for u in _all_users(data)})
    lens.update(r[0] for r in rows)
    nu = len(lens)
    if fn in ("split_global_time", "split_temporal_fraction"):
        return 3 if data["tcol"] == "none" else None
    if fn == "filter_interactions":
        return 3 if data["tcol"] == "none" and (call["min"] or call["max"]) else None
    if fn == "crossfold_records":
        return 1 if call["k"] <= 0 else None
    if fn == "sample_records":
        size, reps = call["size"], call["repeats"]
        if reps is None:
            return 1 if (size > n or size < 0) else None
        if call["disjoint"] and reps * size >= n:
            return 1 if reps <= 0 else None
        if not call["disjoint"] and reps >= 1 and size > n:
            return 1
        return None
    h = call["holdout"]
    errs = {u: _holdout_error(h, ln, data) for u, ln in lens.items()}
    some = [e for e in errs.values() if e]
    if fn == "crossfold_users":
        if call["k"] <= 0:
            return 1
        return some[0] if some else None
    size, reps = call["size"], call["repeats"]
    if reps is None:
        if size > nu or size < 0:
            return 1
        nfolds, all_users = 1, size >= nu
    elif call["disjoint"] and reps * size >= nu:
        if reps <= 0:
            return 1
        nfolds, all_users = reps, True
    else:
        if not call["disjoint"] and reps >= 1 and size > nu:
            return 1
        nfolds, all_users = reps, False
    if not some or nfolds <= 0 or size <= 0:
        return None
    if all_users or len(some) == nu:
        return some[0]
    return ("maybe", some[0])


def oracle(case, obs):
    if case["kind"] == "tz":
        out, seen = [], set()
        for c, o in zip(case["sub"], obs["sub"]):
            for k, w in oracle(c, o):
                if k not in seen:
                    seen.add(k)
                    out.append((k, f"[TZ={case['tz']}] {w}"))
        return out
    v = []
    data, call = case["data"], case["call"]
    fn = call["fn"]
    rows = _srt(data["rows"])
    if obs.get("build_error"):
        return [("dataset-build", f"assembling the dataset from valid chunks and entity declarations raised {obs.get('msg')}")]
    if _srt(obs["recs"]) != rows:
        return [("dataset-build", "the dataset does not store exactly the records it was built from")]
    if sorted(obs["users"]) != _all_users(data):
        return [("dataset-build", "the dataset's users are not exactly the users it was built from")]
    exp = _expected_error(case, rows)
    if obs["error"]:
        if exp is None:
            return [(f"spurious-error:{fn}", f"{fn} raised for an input every part of which is valid: {obs.get('msg')}")]
        code = exp[1] if isinstance(exp, tuple) else exp
        if code != obs["error"]:
            return [(f"wrong-error:{fn}", f"raised error class {obs['error']} where {code} is documented: {obs.get('msg')}")]
        return []
    if isinstance(exp, int):
        return [(f"missing-error:{fn}", f"{fn} accepted an input it has to reject (expected error class {exp})")]
    n = len(rows)
    users = _all_users(data)
    by_user = {u: [] for u in users}
    for r in rows:
        by_user[r[0]].append(r)
    folds = obs["folds"]

    def add(key, what):
        if all(k != key for k, _ in v):
            v.append((key, what))

    if fn == "filter_interactions":
        lo = None if call["min"] is None else _cut_value(call["min"], data)
        hi = None if call["max"] is None else _cut_value(call["max"], data)
        want = [r for r in rows if (lo is None or r[3] >= lo) and (hi is None or r[3] < hi)]
        if obs["rows"] != want:
            add("filter-window", f"filter_interactions(min_time, max_time) kept {len(obs['rows'])} rows, the window [min, max) holds {len(want)}")
        return v

    # ---- every pair: frames, no shared pair, exact partition ------------------------------------
    temporal = fn in ("split_global_time", "split_temporal_fraction")
    for j, f in enumerate(folds):
        if not isinstance(f["train_df"], list) or f["train_df"] != f["train"]:
            add("frame:train_df", f"train_df does not list the training records ({f['train_df'] if not isinstance(f['train_df'], list) else 'different rows'})")
        if not isinstance(f["test_df"], list) or f["test_df"] != f["test"]:
            add("frame:test_df", "test_df does not list the test records")
        if f["size"] != len(f["test"]):
            add("frame:test_size", f"test_size {f['size']} != number of test records {len(f['test'])}")
        tp = {(r[0], r[1]) for r in f["test"]}
        if any((r[0], r[1]) in tp for r in f["train"]):
            add(f"leak:{fn}", f"pair {j}: a (user, item) pair occurs in both the training and the test part")
        if len(tp) != len(f["test"]):
            add(f"duplicate-test:{fn}", f"pair {j}: a test record occurs twice")
        if any(r not in rows for r in f["train"] + f["test"]):
            add(f"foreign-record:{fn}", f"pair {j}: a record (or its attributes) is not one of the original records")
        if temporal:
            continue
        exact = _srt(f["train"] + f["test"]) == rows
        if not exact:
            if call.get("test_only") and not f["train"]:
                pass  # test-only output requested: empty training part
            else:
                add(f"partition:{fn}", f"pair {j}: training and test parts together are not exactly the original records "
                                       f"({len(f['train'])}+{len(f['test'])} of {n}; test_only={call.get('test_only')})")

    # ---- record-based ------------------------------------------------------------------------------
    if fn in ("crossfold_records", "sample_records"):
        fallback = fn == "sample_records" and call["repeats"] is not None and call["disjoint"] and call["repeats"] * call["size"] >= n
        if fn == "crossfold_records" or fallback:
            k = call["k"] if fn == "crossfold_records" else call["repeats"]
            if len(folds) != k:
                add(f"fold-count:{fn}", f"{len(folds)} pairs for {k} partitions")
            elif _srt([r for f in folds for r in f["test"]]) != rows:
                add(f"cover-once:{fn}", "the test parts of the folds do not contain every record exactly once")
        else:
            want = 1 if call["repeats"] is None else max(call["repeats"], 0)
            if len(folds) != want:
                add(f"fold-count:{fn}", f"{len(folds)} pairs for repeats={call['repeats']}")
            for f in folds:
                if len(f["test"]) != call["size"]:
                    add(f"sample-size:{fn}", f"test part has {len(f['test'])} records, sample size is {call['size']}")
            if call["repeats"] is not None and call["disjoint"]:
                allp = [(r[0], r[1]) for f in folds for r in f["test"]]
                if len(allp) != len(set(allp)):
                    add(f"disjoint:{fn}", "disjoint samples share a record")
        return v

    # ---- user-based ----------------------------------------------------------------------------------
    if fn in ("crossfold_users", "sample_users"):
        h = call["holdout"]
        nu = len(users)
        fallback = fn == "sample_users" and call["repeats"] is not None and call["disjoint"] and call["repeats"] * call["size"] >= nu
        if fn == "crossfold_users" or fallback:
            k = call["k"] if fn == "crossfold_users" else call["repeats"]
            if len(folds) != k:
                add(f"fold-count:{fn}", f"{len(folds)} pairs for {k} partitions")
            elif sorted(u for f in folds for u in f["keys"]) != users:
                add(f"cover-once:{fn}", "the folds do not put every user on the test side exactly once")
        else:
            want = 1 if call["repeats"] is None else max(call["repeats"], 0)
            if len(folds) != want:
                add(f"fold-count:{fn}", f"{len(folds)} pairs for repeats={call['repeats']}")
            for f in folds:
                if len(f["keys"]) != call["size"] or len(set(f["keys"])) != len(f["keys"]):
                    add(f"sample-size:{fn}", f"{len(f['keys'])} test users, sample size is {call['size']}")
            if call["repeats"] is not None and call["disjoint"]:
                allu = [u for f in folds for u in f["keys"]]
                if len(allu) != len(set(allu)):
                    add(f"disjoint:{fn}", "disjoint user samples share a user")
        tfield = 3 if h.get("field") == "timestamp" else 2
        for j, f in enumerate(folds):
            keyset = set(f["keys"])
            if any(u not in by_user for u in f["keys"]):
                add(f"unknown-test-user:{fn}", "a test key is not a user of the dataset")
                continue
            te_by = {}
            for r in f["test"]:
                te_by.setdefault(r[0], []).append(r)
            for u in f["keys"]:
                held = te_by.get(u, [])
                row = by_user[u]
                want = _holdout_count(h, len(row))
                if want is not None and len(held) != want:
                    add(f"holdout-count:{h['kind']}", f"user with {len(row)} rows: {len(held)} rows held out, the rule asks for {want}")
                if h["kind"] in ("LastN", "LastFrac") and h["field"] in ("timestamp", "rating") and held:
                    kept = [r for r in row if r not in held]
                    if kept and min(r[tfield] for r in held) < max(r[tfield] for r in kept):
                        add(f"holdout-order:{h['kind']}", f"user with {len(row)} rows: a held-out row is older than a kept row")
            stray = [r for r in f["test"] if r[0] not in keyset]
            if stray:
                add(f"stray-test:{fn}", "test records of a user that is not a test user")
            if f["train"] or not call.get("test_only"):
                tr_by = {}
                for r in f["train"]:
                    tr_by.setdefault(r[0], []).append(r)
                for u in users:
                    if u not in keyset and tr_by.get(u, []) != by_user[u]:
                        add(f"other-users:{fn}", f"pair {j}: rows of a user outside the test users are missing from the training part")
        return v

    # ---- temporal ----------------------------------------------------------------------------------------
    if fn == "split_global_time":
        cuts = [_cut_value(c, data) for c in call["cuts"]]
        end = None if call["end"] is None else _cut_value(call["end"], data)
    else:
        cuts = [_cut_value({"k": "num", "v": obs["cut"]["v"]}, data)]
        end = None
        test_n = len(folds[0]["test"]) if folds else 0
    if len(folds) != len(cuts):
        add(f"fold-count:{fn}", f"{len(folds)} pairs for {len(cuts)} cut-offs")
        return v
    for j, f in enumerate(folds):
        t2 = cuts[j + 1] if j + 1 < len(cuts) else end
        want_train = [r for r in rows if r[3] < cuts[j]]
        want_test = [r for r in rows if r[3] >= cuts[j] and (t2 is None or r[3] < t2)]
        if f["train"] != want_train:
            add(f"temporal-train:{fn}", f"pair {j}: training part has {len(f['train'])} records, {len(want_train)} lie strictly before the cut")
        if f["test"] != want_test:
            add(f"temporal-test:{fn}", f"pair {j}: test part has {len(f['test'])} records, {len(want_test)} lie in [cut, next cut or end)")
    return v


# ---------------------------------------------------------------------------------------------
# bookkeeping
# ---------------------------------------------------------------------------------------------


def nontrivial(case, obs):
    if case["kind"] == "tz":
        return any(nontrivial(c, o) for c, o in zip(case["sub"], obs["sub"]))
    if obs["error"] or len(case["data"]["rows"]) < 2:
        return False
    if case["call"]["fn"] == "filter_interactions":
        return 0 < len(obs["rows"]) < len(case["data"]["rows"])
    return any(f["test"] and (f["train"] or case["call"].get("test_only")) for f in obs["folds"])


def counters(case, obs):
    if case["kind"] == "tz":
        yield "tz=" + case["tz"]
        for c, o in zip(case["sub"], obs["sub"]):
            for x in counters(c, o):
                yield "tz/" + x
        return
    call, data = case["call"], case["data"]
    fn = call["fn"]
    yield "fn=" + fn
    yield "style=" + case["style"]
    yield "tcol=" + data["tcol"]
    yield "ids=" + data["ids"]
    if data.get("build"):
        st = data["build"]
        yield f"build=chunks:{sum(1 for x in st if x['op'] == 'interactions')}/declarations:{min(4, sum(1 for x in st if x['op'] != 'interactions'))}"
        us = obs.get("users") or []
        if len(us) > 1:
            dense = max(us) - min(us) == len(us) - 1
            yield "stored-user-order=" + ("dense" if dense else "sparse") + ("/sorted" if us == sorted(us) else "/unsorted")
        if any(x["op"] == "interactions" and x["missing"] == "error" for x in st):
            yield "build/chunk-with-missing=error"
        if any(x.get("dup") for x in st):
            yield "build/re-declared-entities"
    if data.get("space"):
        g = data["space"]["users"] * data["space"]["items"]
        yield "id-space=" + (">2^32" if g > 2**32 else ">2^31" if g > 2**31 else "small")
    yield f"error={obs['error']}"
    lens = Counter({u: 0 for u in _all_users(data)}) if (data.get("space") or data.get("build")) else Counter()
    lens.update(r[0] for r in data["rows"])
    if 0 in lens.values():
        yield "has-user-without-rows"
    if 1 in lens.values():
        yield "has-single-row-user"
    ts = [r[3] for r in data["rows"]]
    if len(set(ts)) < len(ts) and data["tcol"] != "none":
        yield "ties-in-time"
    if data.get("tunit"):
        q = 10**9 // UNIT[data["tunit"]] if data["tcol"] == "ts" else 1
        yield f"time-resolution={'timestamp' if data['tcol'] == 'ts' else 'int'}[{data['tunit']}]"
        yield "time-magnitude" + (">=2^53" if any(abs(t // q) >= 2**53 for t in ts) else "<2^53")
        per = {}
        for r in data["rows"]:
            per.setdefault(r[0], []).append((r[1], r[3] // q))
        if any(abs(a - b) == 1 for xs in per.values() for _, a in xs for _, b in xs):
            yield "resolution/times-of-a-user-one-unit-apart"
        if any(a != b and float(a) == float(b) for xs in per.values() for _, a in xs for _, b in xs):
            yield "resolution/distinct-times-of-a-user-equal-as-binary64"
        if any(i < j and a > b for xs in per.values() for i, a in xs for j, b in xs):
            yield "resolution/item-order-disagrees-with-time"
    n, nu = len(data["rows"]), len(lens)
    if "holdout" in call:
        h = call["holdout"]
        yield "holdout=" + h["kind"]
        cnts = [_holdout_count(h, ln) for ln in lens.values()]
        if any(c == 0 for c in cnts):
            yield "holdout-count-0-for-some-user"
        if h["kind"] in ("SampleN", "LastN") and any(ln <= h["n"] for ln in lens.values()):
            yield "user-not-larger-than-holdout"
    if call.get("test_only"):
        yield "test_only"
    if fn in ("sample_records", "sample_users"):
        tot = n if fn == "sample_records" else nu
        if call["repeats"] is None:
            yield "branch=single" + ("/test_only-ignored" if call["test_only"] else "")
        elif call["disjoint"] and call["repeats"] * call["size"] >= tot:
            yield "branch=crossfold-fallback" + ("/test_only-ignored" if call["test_only"] else "")
        else:
            yield "branch=" + ("disjoint" if call["disjoint"] else "independent")
    if fn in ("crossfold_records", "crossfold_users"):
        tot = n if fn == "crossfold_records" else nu
        yield "partitions" + ("<" if call["k"] < tot else "=" if call["k"] == tot else ">") + "population"
    if fn == "split_global_time":
        yield f"cuts={len(call['cuts'])}" + ("/single" if call["single"] else "") + ("/end" if call["end"] else "")
        for c in call["cuts"] + ([call["end"]] if call["end"] else []):
            yield "cut-kind=" + c["k"] + ("/float" if c.get("float") or Fraction(c["v"]).denominator != 1 else "")
    if not obs["error"]:
        if any(not f["train"] for f in obs["folds"]):
            yield "some-empty-train"
        if any(not f["test"] for f in obs["folds"]):
            yield "some-empty-test"
        yield f"folds={min(len(obs['folds']), 5)}"


def sample(case, obs):
    if case["kind"] == "tz":
        return {"tz": case["tz"], "first": sample(case["sub"][0], obs["sub"][0])}
    return {"case": case, "observation": {"error": obs["error"], "folds": [{k: f[k][:40] for k in ("train", "test", "keys")} for f in obs["folds"][:3]]}}


_SHRINKS = [0]      # oracle keys shrunk so far in this run (capped: every trial re-runs the splitter)


def shrink(case, fails):
    _SHRINKS[0] += 1
    if _SHRINKS[0] > 5:
        return case
    if case["kind"] == "tz":
        subs = common.shrink_list(case["sub"], lambda xs: bool(xs) and fails({**case, "sub": xs}), 12)
        return {**case, "sub": subs}
    c = dict(case)
    steps = 10 if case["data"].get("space") else 60      # a run over a large identifier space takes seconds
    # (the chunks and declarations of an incrementally assembled dataset refer to rows by their (user, item) pair,
    # so removing rows keeps the build plan meaningful; a chunk left without rows is skipped)
    rows = common.shrink_list(case["data"]["rows"], lambda xs: bool(xs) and fails({**c, "data": {**case["data"], "rows": xs}}), steps)
    c["data"] = {**case["data"], "rows": rows}
    return c
