"""C11 -- seeded operations are reproducible and independent of threads and request order (DESIGN.md section 4, C11)."""

from __future__ import annotations

import hashlib
import json
import subprocess
from concurrent.futures import ThreadPoolExecutor

import c11_ambient as A
import c18_lib as L
import common
from common import cbool, clist, cstr, cz
from framework import TranslateError  # noqa: F401

PID = "C11"
PROPS_FILE = "Props/C11.v"
GEN_FILES = ["Gen/C11_rng.v"]
MODEL_FILES = ["Model/C11_seeds.v", "Gen/C11_rng.v"]      # what the case terms need; they still evaluate when a proof breaks
ALLOWED_AXIOMS: list[str] = []
CASE_HEADER = ("From Coq Require Import ZArith Bool String.\n"
               "From LK Require Import Model.C11_seeds Gen.C11_rng.")
SHARD = 80
TRUSTED = [
    "Coq 8.16.1 kernel + vm_compute (no native_compute); Print Assumptions of every theorem in Props/C11.v: closed under the global context",
    "graph extractor harness/translate/c11.py (Python ast -> per function that takes randomness: draws, calls to other such functions with the "
    "class of their randomness argument, uses of process-global randomness; shapes of random_generator, DerivingRNG.__call__, the three stochastic "
    "rankers and the three fork/join loops); name-based call resolution and the coarse 'mentions a derived name' rule are stated at the top of that file; "
    "the normalisation primitives of lenskit.random are modelled by hand; which expressions count as ambient state (logging level, environment, "
    "thread / CPU counts, warnings filters, interpreter flags) is the table AMBIENT of that file",
    "numpy PCG64/SeedSequence, torch generators and the BLAS/torch/numba kernels are exercised, not verified: that equal generator states give equal "
    "draws and that per-row arithmetic gives the same bits under different thread counts are runtime facts observed by the relational runs "
    "(this is the PARTIAL part of chunking_irrelevant_partial); on matrices of about 2^20 entries BLAS with 2 backend threads sums in a "
    "different order than with 1 (implicit ALS, TruncatedSVD differ in the last bits on the unchanged tree), so across backend-thread counts the "
    "large models are compared up to 1e-6 of their scale, and not at all for TruncatedSVD / FlexMF (not continuous in rounding)",
    "a SeedSequence OBJECT given to Pipeline.train is spawned from (numpy counts its children in the caller's object), a Generator advances: "
    "both are the caller's state, so one options object reused across trainings is judged for int / list seeds everywhere and for "
    "SeedSequence objects in direct component trainings",
    "relational harness: every operation is run twice (or under several configurations / request orders) and sha256-based digests of the canonical "
    "results are compared inside Coq",
]
ASSUMPTIONS = [
    "an explicit seed (or a freshly seeded generator) is passed; with rng=None the global generator / OS entropy is used by design",
    "seeded components from outside LensKit (implicit, hpfrec) are configured through their own random_state, not TrainingOptions.rng",
    "a ranker configured with 'user' and no base seed derives from fresh entropy per ranker object: order-free within the object, not across objects",
    "anonymous requests (no user id) to a user-derived ranker advance a spawn counter; the order-freedom statement is about identified users",
]
RULE = ("relational cases: splitters (crossfold/sample, records/users, every branch: single, disjoint, overlapping, oversized -> cross-fold fallback) "
        "with seeded random hold-outs, negative sampling (uniform/popular, with re-sampling), the three stochastic rankers with fixed seeds, "
        "trainings of every LensKit-native model and of seeded pipelines, each run twice with the same seed and once with another seed; "
        "user-derived rankers under permuted and interleaved request sequences; trainings on a 230-user dataset under LK_NUM_THREADS / "
        "LK_NUM_BACKEND_THREADS in {1,2,8} in separate processes and item-kNN block sizes {250,64,7,1}; a batch of seeded operations whose "
        "seed derivation or bookkeeping involves names / text ids / sets / dicts (seeds handed to named probe components by Pipeline.train, models "
        "trained through standard pipelines and directly on text-id data, user-derived rankers with text user ids, splitters, negative sampling) "
        "in separate interpreter processes with PYTHONHASHSEED in {0, 1, random}.  Seed VALUES are a generated dimension for every seeded "
        "operation (0, the empty sequence, [s], 2^31, 2^32-1, 2^32, 2^63-1, 2^63, 2^64-1, 2^64, 2^128+5; as int / list / SeedSequence / Generator / "
        "BitGenerator where accepted) plus grids ranker x edge seed and splitter x seed 0.  Every in-process operation is also repeated under "
        "another AMBIENT state (DEBUG / TRACE logging for the lenskit loggers, warnings filter, re-seeded numpy / random / torch / lenskit global "
        "generators) and must give the same result (grid: every model under DEBUG logging).  Every training case also hands ONE "
        "TrainingOptions object (seed-like rng: int / list / SeedSequence) to a sequence of three trainings -- the case's own, a second "
        "(same kind with another configuration or another kind, direct or through a pipeline), the first again (re-training the same "
        "object or a new one) -- and each must equal the training done with a fresh, equal options object (grid: every model, sweep + "
        "re-training).  One large-matrix case per quick run: models whose "
        "user and item embedding matrices have more entries than the largest size constant found in the graph sources (at least 2^20), one epoch, "
        "about one rating per row, worker threads {1,2,4} with one backend thread (bit-identical required) and (1,2) (equal up to rounding "
        "required for ALS / implicit ALS / FunkSVD).  non-trivial = the operation consumed "
        "randomness and another seed gave a different result (splits/sampling/rankers/seeded trainings), or at least two configurations / "
        "request orders were compared; distinct = by hash of the case")


def translate():
    from translate import c11 as t
    from translate.pyq import TranslateError as TE
    try:
        return t.translate(common.SRC)
    except TE as e:
        raise TranslateError(str(e))


def dg(x) -> int:
    return int.from_bytes(hashlib.sha256(repr(x).encode()).digest()[:7], "big")


# ---------------------------------------------------------------------------------------------
# generator
# ---------------------------------------------------------------------------------------------

# seed VALUES are a generated dimension: 0, the empty sequence, the edges of the 32 / 63 / 64-bit ranges and beyond are
# all valid seeds and must behave like any other
SPECIAL_SEEDS = [0, 0, 0, 1, 2**31, 2**32 - 1, 2**32, 2**63 - 1, 2**63, 2**64 - 1, 2**64, 2**128 + 5]


def gen_seed(rng):
    return rng.choice(SPECIAL_SEEDS) if rng.chance(2, 5) else rng.randint(1, 10**6)


def gen_seed2(rng, seed):
    s2 = rng.randint(10**6 + 1, 2 * 10**6)
    return s2 if s2 != seed else s2 + 1


def seed_class(kind, seed):
    if kind == "emptylist":
        return "empty"
    if seed == 0:
        return "zero"
    return "small" if seed < 2**31 else ("32-bit-edge" if seed <= 2**32 else ("64-bit-edge" if seed <= 2**64 else "beyond-64-bit"))


# ambient state: not part of (seed, inputs, call sequence); see c11_ambient.ambient
def gen_ambient(rng):
    while True:
        st = {"log": rng.choice([None, "DEBUG", "DEBUG", "TRACE"]), "warnings": rng.choice([None, None, "always", "ignore"]),
              "global_rng": rng.choice([None, rng.randint(0, 2**32 - 1)])}
        if any(v is not None for v in st.values()):
            return st


SPLIT_OPS = ["crossfold_records", "crossfold_users", "sample_records", "sample_records", "sample_records", "sample_users", "sample_users", "sample_users"]
SEED_KINDS = ["int", "int", "int", "seedseq", "intlist", "list1", "emptylist", "generator", "bitgen"]
TRAIN_SEED_KINDS = ["int", "int", "int", "seedseq", "intlist", "list1", "emptylist"]
CONFIG_SEED_KINDS = ["int", "int", "int", "intlist", "list1", "emptylist"]        # what a component configuration accepts
TRAIN_KINDS = ["als", "ials", "funk", "svd", "flexe", "flexi", "iknn", "uknn", "bias"]
RANKERS = ["RandomSelector", "SoftmaxRanker", "StochasticTopNRanker"]


def gen_holdout(rng):
    k = rng.choice(["SampleN", "SampleN", "SampleFrac", "LastN", "LastFrac"])
    if k == "SampleN":
        return {"kind": k, "n": rng.randint(1, 3), "seed": gen_seed(rng)}
    if k == "SampleFrac":
        return {"kind": k, "frac": rng.choice([0.2, 0.5]), "seed": gen_seed(rng)}
    if k == "LastN":
        return {"kind": k, "n": rng.randint(1, 2)}
    return {"kind": k, "frac": 0.3}


def gen_split_case(rng):
    op = rng.choice(SPLIT_OPS)
    spec = L.gen_dataset(rng, 0)
    spec["timestamps"] = True
    nrec = len(spec["rows"])
    nusers = len({r[0] for r in spec["rows"]})
    c = {"type": "split", "op": op, "dataset": spec, "seed_kind": rng.choice(SEED_KINDS), "seed": gen_seed(rng)}
    c["seed2"] = gen_seed2(rng, c["seed"])
    c["ambient"] = gen_ambient(rng)
    if op == "crossfold_records":
        c["partitions"] = rng.randint(2, 5)
    elif op == "crossfold_users":
        c["partitions"] = rng.randint(2, max(2, nusers - 1))
        c["holdout"] = gen_holdout(rng)
    elif op == "sample_records":
        mode = rng.choice(["single", "disjoint", "overlap", "oversized"])
        c["mode"] = mode
        c["repeats"] = None if mode == "single" else rng.randint(2, 4)
        reps = c["repeats"] or 1
        c["size"] = (nrec // reps + 1) if mode == "oversized" else max(1, rng.randint(1, max(1, nrec // (reps + 1))))
        c["disjoint"] = mode != "overlap"
    else:
        mode = rng.choice(["single", "disjoint", "overlap", "oversized", "oversized"])
        c["mode"] = mode
        c["repeats"] = None if mode == "single" else rng.randint(2, 4)
        reps = c["repeats"] or 1
        c["size"] = (nusers // reps + 1) if mode == "oversized" else max(1, rng.randint(1, max(1, (nusers - 1) // (reps + 1))))
        c["disjoint"] = mode != "overlap"
        c["holdout"] = gen_holdout(rng)
    c["then"] = rng.choice([None, None, "crossfold_records"])   # a second operation drawing from the same generator object
    return c


def gen_neg_case(rng):
    spec = L.gen_dataset(rng, 0)
    users = sorted({r[0] for r in spec["rows"]})
    return {"type": "neg", "dataset": spec, "rows": [rng.below(len(users)) for _ in range(rng.randint(3, 12))],
            "weighting": rng.choice(["uniform", "popular"]), "n": rng.choice([None, 2, 3]), "verify": rng.chance(3, 4),
            "max_attempts": rng.choice([0, 2, 10]), "seed": gen_seed(rng), "seed2": rng.randint(10**6 + 1, 2 * 10**6),
            "seed_kind": rng.choice(["generator", "generator", "int", "int", "seedseq", "emptylist", "bitgen"]), "ambient": gen_ambient(rng)}


def gen_items(rng):
    n = rng.randint(3, 12)
    ids = rng.sample(list(range(100, 140)), n)
    return [[i, rng.randint(-4, 30)] for i in ids]


def gen_ranker_case(rng):
    cls = rng.choice(RANKERS)
    derived = rng.chance(3, 5)
    users = rng.sample(list(range(1, 30)), rng.randint(2, 5))
    if rng.chance(1, 4):
        users = [f"u{u}" for u in users]
    lists = [gen_items(rng) for _ in range(rng.randint(1, 2))]
    reqs = []
    for _ in range(rng.randint(4, 10)):
        reqs.append([rng.below(len(users)), rng.below(len(lists))])
    orders = [list(range(len(reqs)))]
    for _ in range(2):
        orders.append(rng.shuffle(list(range(len(reqs)))))
    c = {"type": "ranker", "cls": cls, "derived": derived, "users": users, "lists": lists, "requests": reqs, "orders": orders,
         "n": rng.choice([None, 2, 5, -1]), "seed": gen_seed(rng), "seed2": rng.randint(10**6 + 1, 2 * 10**6),
         "seed_kind": rng.choice(CONFIG_SEED_KINDS), "ambient": gen_ambient(rng),
         "base": rng.choice(["seeded", "seeded", "user-only"]) if derived else "seeded",
         "anonymous_at": rng.choice([None, None, 0, 2])}
    if cls == "StochasticTopNRanker":
        c["transform"] = rng.choice(["softmax", "linear", None])
    return c


def gen_train_case(rng):
    kind = rng.choice(TRAIN_KINDS)
    cfg = L.gen_config(rng, kind)
    c = {"type": "train", "kind": kind, "cfg": cfg, "dataset": L.gen_dataset(rng, 0), "seed_kind": rng.choice(TRAIN_SEED_KINDS),
         "seed": gen_seed(rng), "seed2": rng.randint(10**6 + 1, 2 * 10**6), "pipeline": rng.chance(1, 4), "ambient": gen_ambient(rng)}
    # ONE TrainingOptions object serving a sequence of trainings (parameter sweep, other components, re-training):
    # the case's own training, a second one (same kind with another configuration, or another kind; direct or through a
    # pipeline), then the first again -- on the component / pipeline object of the first call (re-training) or a new one
    r = rng.fork("reuse")
    k2 = kind if r.chance(1, 2) else r.choice(TRAIN_KINDS)
    c["reuse"] = {"second": {"kind": k2, "cfg": L.gen_config(r, k2), "pipeline": r.chance(1, 4)},
                  "third": r.choice(["retrain", "new"])}
    return c


def gen_big_dataset(rng):
    rows = []
    nu, ni = 230, 60
    for u in range(nu):
        k = rng.randint(3, 11)
        for i in rng.sample(list(range(ni)), k):
            rows.append([u, 100 + i, rng.randint(1, 10), 1_000_000 + rng.below(100000)])
    return {"tag": 0, "rows": rows, "timestamps": True}


THREAD_CONFIGS = [[1, 1], [2, 2], [8, 8], [1, 8], [8, 1]]


def gen_threads_case(rng, nconf):
    models = [
        ["als", "als", {"embedding_size": 4, "epochs": 2}],
        ["ials", "ials", {"embedding_size": 4, "epochs": 2, "use_ratings": rng.chance(1, 2)}],
        ["funk", "funk", {"features": 3, "epochs": 3}],
        ["svd", "svd", {"embedding_size": 3, "algorithm": rng.choice(["randomized", "arpack"]), "n_iter": 3}],
        ["flexe", "flexe", {"embedding_size": 4, "epochs": 1, "batch_size": 256, "reg_method": rng.choice(["L2", "AdamW"])}],
        ["flexi", "flexi", {"embedding_size": 4, "epochs": 1, "batch_size": 256, "loss": rng.choice(["logistic", "pairwise"])}],
        ["uknn", "uknn", {"max_nbrs": 5}],
        ["bias", "bias", {"damping": 5}],
    ]
    fb = rng.choice(["explicit", "implicit"])
    sv = rng.choice([None, 4])
    # session 2 (seed C11-10): magnitudes -- block sizes far above the item count (one block, any internal budget exceeded)
    for bs in (250, 64, 7, 1, 50000, 1000000):
        models.append([f"iknn-bs{bs}", "iknn", {"max_nbrs": 5, "block_size": bs, "feedback": fb, "save_nbrs": sv}])
    return {"type": "threads", "dataset": gen_big_dataset(rng), "seed": rng.randint(1, 10**6), "models": models,
            "configs": THREAD_CONFIGS[:nconf]}


# worker threads vary with the backend threads fixed: bit-identical models required.  The last configurations vary the
# backend threads: BLAS sums large matrix products in a different order then, so those runs are compared up to
# rounding (1e-6 of the scale), and not at all for models whose result is not a continuous function of rounding.
# ((4, 4) oversubscribes torch's fork/join by two orders of magnitude in time.)
LARGE_CONFIGS = [[1, 1], [2, 1], [4, 1], [1, 2], [3, 1], [2, 2]]
ROUNDING_UNSTABLE = {"svd": "singular vectors of (nearly) equal singular values rotate under rounding",
                     "flexe": "Adam's normalised steps amplify rounding", "flexi": "Adam's normalised steps amplify rounding"}


def thread_pairs(case, obs):
    """(configuration, run, label, mode) to compare with the first run: 'exact' or 'rounding'."""
    base_cfg, base = case["configs"][0], obs["runs"][0]
    for cfg, r in zip(case["configs"][1:], obs["runs"][1:]):
        for label in sorted(k for k in base if not k.startswith("_")):
            if not case.get("large") or cfg[1] == base_cfg[1] or base[label] == r[label]:
                yield cfg, r, label, "exact"
            elif label.split("-")[0] not in ROUNDING_UNSTABLE:
                yield cfg, r, label, "rounding"
_thresholds = None


def size_threshold():
    """Embedding matrices of the large-matrix trainings have more entries than the largest size constant the graph
    sources compare with (regenerated from the current source), and at least 2**20."""
    global _thresholds
    if _thresholds is None:
        try:
            from translate import c11 as t
            _thresholds = t.size_thresholds(common.SRC)
        except Exception:
            _thresholds = []
    return max([x for x in _thresholds if x <= 2**22] + [2**20])


def gen_large_threads_case(rng, nconf):
    """Trainings whose user AND item embedding matrices cross the size thresholds of the training code, with one epoch
    and about one rating per user / item so that the run stays cheap; same seed, separate processes, different
    LK_NUM_THREADS / LK_NUM_BACKEND_THREADS."""
    t = size_threshold()
    k = rng.choice([50, 64, 80])
    rows = -(-t // k)
    syn = {"users": rows + rng.randint(20, 400), "items": rows + rng.randint(20, 400), "extra": rng.randint(0, 2000),
           "seed": rng.randint(1, 10**6)}
    models = [
        ["als", "als", {"embedding_size": k, "epochs": 1}],
        ["ials", "ials", {"embedding_size": k, "epochs": 1, "use_ratings": rng.chance(1, 2)}],
        ["funk", "funk", {"features": k, "epochs": 1}],
        ["svd", "svd", {"embedding_size": k, "n_iter": 1}],
        ["flexe", "flexe", {"embedding_size": k, "epochs": 1, "batch_size": 8192}],
        ["flexi", "flexi", {"embedding_size": k, "epochs": 1, "batch_size": 8192, "loss": rng.choice(["logistic", "pairwise"])}],
    ]
    return {"type": "threads", "large": True, "synthetic": syn, "threshold": t, "seed": gen_seed(rng), "models": models,
            "configs": LARGE_CONFIGS[:nconf]}


HASHSEEDS = ["0", "1", "random", "4242"]


def gen_hashseed_case(rng, nproc):
    spec = L.gen_dataset(rng, 0)
    spec["timestamps"] = True
    spec["string_ids"] = True
    words = ["scorer", "ranker", "history", "candidates", "fallback", "popular", "bias", "als-model", "x", "neighbours", "Z9", "rerank"]
    pipelines = [rng.sample(words, rng.randint(2, 5)) for _ in range(rng.randint(3, 5))]
    users = sorted({r[0] for r in spec["rows"]})
    return {"type": "hashseed", "dataset": spec, "seed": rng.randint(1, 10**6), "hashseeds": HASHSEEDS[:nproc],
            "pipelines": pipelines, "seed_kinds": ["int", "seedseq", "intlist"],
            "std_pipelines": [["als-topn", "als", {"embedding_size": 3, "epochs": 2}, "topn"],
                              ["ials-predict", "ials", {"embedding_size": 3, "epochs": 1}, "predict"],
                              ["flexi-topn", "flexi", {"embedding_size": 2, "epochs": 1, "batch_size": 16}, "topn"]],
            "models": [["als", "als", {"embedding_size": 3, "epochs": 2}], ["funk", "funk", {"features": 2, "epochs": 2}],
                       ["svd", "svd", {"embedding_size": 2, "n_iter": 2}], ["flexe", "flexe", {"embedding_size": 2, "epochs": 1, "batch_size": 16}],
                       ["iknn", "iknn", {"max_nbrs": 3}], ["uknn", "uknn", {"max_nbrs": 3}]],
            "rank_users": ["u%d" % u for u in rng.sample(users, min(4, len(users)))] + ["alice", "bob"],
            "rank_items": rng.sample(list(range(100, 130)), 9)}


def gen_api_case(rng):
    return {"type": "api", "seed_kind": rng.choice(["int", "int", "seedseq", "intlist", "list1", "emptylist", "bitgen", "none"]), "seed": gen_seed(rng),
            "global": rng.choice([None, rng.randint(1, 10**6)]), "key": rng.choice([5, "alice", "u17", 2**40 + 3])}


def grid_cases(rng):
    """Small deterministic grids: every ranker x every edge seed value (fixed and user-derived), every trainable model
    under DEBUG logging, every splitter path with seed 0."""
    out = []
    for cls in RANKERS:
        for kind, seed in (("int", 0), ("emptylist", 0), ("list1", 0), ("int", 2**32 - 1), ("int", 2**63), ("intlist", 2**64)):
            for derived in (False, True):
                c = gen_ranker_case(rng.fork(("grid-ranker", cls, kind, seed, derived)))
                c.update(cls=cls, seed_kind=kind, seed=seed, derived=derived, base="seeded")
                if cls == "StochasticTopNRanker":
                    c.setdefault("transform", "softmax")
                else:
                    c.pop("transform", None)
                out.append(c)
    for kind in TRAIN_KINDS:
        for pipeline in (False, True):
            c = gen_train_case(rng.fork(("grid-train", kind, pipeline)))
            c.update(kind=kind, cfg=L.gen_config(rng.fork(("grid-cfg", kind, pipeline)), kind), pipeline=pipeline,
                     ambient={"log": "DEBUG", "warnings": None, "global_rng": None},
                     seed=0 if pipeline else c["seed"], seed_kind="int" if pipeline else c["seed_kind"],
                     # parameter sweep with one options object: the same kind with another configuration, then the first again
                     reuse={"second": {"kind": kind, "cfg": L.gen_config(rng.fork(("grid-cfg2", kind, pipeline)), kind), "pipeline": False},
                            "third": "new" if pipeline else "retrain"})
            out.append(c)
    for j in range(12):
        c = gen_split_case(rng.fork(("grid-split", j)))
        c.update(seed=0, seed_kind=["int", "list1", "emptylist", "seedseq"][j % 4])
        out.append(c)
    for j in range(4):
        c = gen_neg_case(rng.fork(("grid-neg", j)))
        c.update(seed=0, seed_kind=["int", "emptylist", "seedseq", "generator"][j])
        out.append(c)
    return out


def gen_cases(rng, tier):
    quick = tier == "quick"
    out = []
    for j in range(1 if quick else 2):
        out.append(gen_large_threads_case(rng.fork(("large-threads", j)), 4 if quick else 6))
    for j in range(2 if quick else 4):
        out.append(gen_threads_case(rng.fork(("threads", j)), 3 if quick else 5))
    for j in range(1 if quick else 4):
        out.append(gen_hashseed_case(rng.fork(("hashseed", j)), 3 if quick else 4))
    n = {"split": 150, "neg": 40, "ranker": 80, "train": 90, "api": 20} if quick else {"split": 1500, "neg": 400, "ranker": 900, "train": 500, "api": 100}
    gens = {"split": gen_split_case, "neg": gen_neg_case, "ranker": gen_ranker_case, "train": gen_train_case, "api": gen_api_case}
    out += grid_cases(rng.fork("grid"))
    for k, cnt in n.items():
        for j in range(cnt):
            out.append(gens[k](rng.fork((k, j))))
    return out


# ---------------------------------------------------------------------------------------------
# implementation driver
# ---------------------------------------------------------------------------------------------


def make_seed_obj(kind, seed):
    import numpy as np
    if kind == "int":
        return seed
    if kind == "seedseq":
        return np.random.SeedSequence(seed)
    if kind == "intlist":
        return [seed, 17]
    if kind == "list1":
        return [seed]
    if kind == "emptylist":
        return []
    if kind == "generator":
        return np.random.default_rng(seed)
    if kind == "bitgen":
        return np.random.PCG64(seed)
    return None


def under(case, fn):
    """fn() under the case's ambient state; when the result differs from `ref`, which single dimensions matter."""
    with A.ambient(case.get("ambient")):
        return fn()


def blame(case, fn, ref):
    out = []
    for st in A.single_dimensions(case.get("ambient")):
        with A.ambient(st):
            if fn() != ref:
                out.append(next(iter(st)))
    return out or ["combination"]


def make_holdout(h):
    from lenskit.splitting import holdout as H
    if h["kind"] == "SampleN":
        return H.SampleN(h["n"], rng=h["seed"])
    if h["kind"] == "SampleFrac":
        return H.SampleFrac(h["frac"], rng=h["seed"])
    if h["kind"] == "LastN":
        return H.LastN(h["n"])
    return H.LastFrac(h["frac"])


def canon_split(sp):
    test = sorted((repr(k), tuple(sorted(int(i) for i in il.ids().tolist()))) for k, il in sp.test)
    tr = sp.train.interaction_matrix(format="pandas", original_ids=True)
    train = sorted(zip(tr["user_id"].tolist(), tr["item_id"].tolist()))
    return dg((test, train)), sum(len(t[1]) for t in test)


def do_split(case, seed, seed_kind):
    import lenskit.splitting as S
    ds = L.dataset(case["dataset"])
    rng = make_seed_obj(seed_kind, seed)
    if seed_kind != "generator" and case.get("then"):
        import numpy as np
        rng = np.random.default_rng(rng)      # a shared generator object for the two operations
    op = case["op"]
    try:
        if op == "crossfold_records":
            res = list(S.crossfold_records(ds, case["partitions"], rng=rng))
        elif op == "crossfold_users":
            res = list(S.crossfold_users(ds, case["partitions"], make_holdout(case["holdout"]), rng=rng))
        elif op == "sample_records":
            r = S.sample_records(ds, case["size"], repeats=case["repeats"], disjoint=case["disjoint"], rng=rng)
            res = [r] if case["repeats"] is None else list(r)
        else:
            r = S.sample_users(ds, case["size"], make_holdout(case["holdout"]), repeats=case["repeats"], disjoint=case["disjoint"], rng=rng)
            res = [r] if case["repeats"] is None else list(r)
        if case.get("then"):
            res += list(S.crossfold_records(ds, 2, rng=rng))
    except (ValueError, KeyError, IndexError, TypeError) as e:
        return {"error": type(e).__name__}
    cs = [canon_split(s) for s in res]
    return {"digests": [c[0] for c in cs], "test_sizes": [c[1] for c in cs]}


def run_split(case):
    a = do_split(case, case["seed"], case["seed_kind"])
    b = do_split(case, case["seed"], case["seed_kind"])
    c = do_split(case, case["seed2"], case["seed_kind"])
    obs = {"a": a, "b": b, "other": c, "entry": case["op"]}
    if case.get("ambient"):
        obs["amb"] = under(case, lambda: do_split(case, case["seed"], case["seed_kind"]))
        if a == b and obs["amb"] != a:
            obs["blame"] = blame(case, lambda: do_split(case, case["seed"], case["seed_kind"]), a)
    return obs


def run_neg(case):
    import numpy as np
    ds = L.dataset(case["dataset"])
    m = ds.interactions().matrix()
    rows = np.array(case["rows"], dtype=np.int32)

    def one(seed, quiet=True):
        import warnings
        with warnings.catch_warnings():
            if quiet:
                warnings.simplefilter("ignore")
            r = m.sample_negatives(rows, weighting=case["weighting"], n=case["n"], verify=case["verify"],
                                   max_attempts=case["max_attempts"], rng=make_seed_obj(case.get("seed_kind", "generator"), seed))
        return [int(x) for x in np.asarray(r).ravel().tolist()]
    obs = {"a": one(case["seed"]), "b": one(case["seed"]), "other": one(case["seed2"]), "entry": "MatrixRelationshipSet.sample_negatives"}
    if case.get("ambient"):
        quiet = not case["ambient"].get("warnings")
        obs["amb"] = under(case, lambda: one(case["seed"], quiet))
        if obs["a"] == obs["b"] and obs["amb"] != obs["a"]:
            obs["blame"] = blame(case, lambda: one(case["seed"], quiet), obs["a"])
    return obs


def build_ranker(case, seed):
    import warnings
    sv = make_seed_obj(case.get("seed_kind", "int"), seed)
    if case["derived"]:
        spec = (sv, "user") if case["base"] == "seeded" else "user"
    else:
        spec = sv
    kw = {"rng": spec}
    if case["n"] is not None:
        kw["n"] = case["n"]
    with warnings.catch_warnings():
        warnings.simplefilter("ignore")
        if case["cls"] == "StochasticTopNRanker":
            from lenskit.stochastic import StochasticTopNRanker
            return StochasticTopNRanker(transform=case["transform"], **kw)
        from lenskit.basic import random as R
        return getattr(R, case["cls"])(**kw)


def serve(ranker, case, order):
    import numpy as np
    from lenskit.data import ItemList, RecQuery
    out = []
    for pos, k in enumerate(order):
        ui, li = case["requests"][k]
        items = case["lists"][li]
        il = ItemList(item_ids=np.array([i for i, _ in items], dtype=np.int64), scores=np.array([s / 4.0 for _, s in items], dtype=np.float32))
        if case["anonymous_at"] is not None and pos == case["anonymous_at"]:
            ranker(items=il, query=RecQuery())     # an anonymous request in between
        r = ranker(items=il, query=RecQuery(user_id=case["users"][ui]))
        out.append(dg(tuple(int(i) for i in r.ids().tolist())))
    return out


def run_ranker(case):
    L.setup()
    obs = {"entry": case["cls"] + ".__call__"}
    if case["derived"]:
        rk = build_ranker(case, case["seed"])
        obs["orders"] = [serve(rk, case, o) for o in case["orders"]]          # one object, three request orders
        if case["base"] == "seeded":
            obs["second_object"] = serve(build_ranker(case, case["seed"]), case, case["orders"][-1])
            if case.get("ambient"):      # a third object, built and used under another ambient state
                f = lambda: serve(build_ranker(case, case["seed"]), case, case["orders"][-1])
                obs["amb"] = under(case, f)
                if obs["amb"] != obs["second_object"] and obs["second_object"] == f():
                    obs["blame"] = blame(case, f, obs["second_object"])
        obs["other"] = serve(build_ranker(case, case["seed2"]), case, case["orders"][0])
    else:
        o = case["orders"][0]
        f = lambda: serve(build_ranker(case, case["seed"]), case, o)
        obs["a"] = f()
        obs["b"] = f()
        obs["other"] = serve(build_ranker(case, case["seed2"]), case, o)
        obs["permuted"] = serve(build_ranker(case, case["seed"]), case, case["orders"][1])
        if case.get("ambient"):
            obs["amb"] = under(case, f)
            if obs["a"] == obs["b"] and obs["amb"] != obs["a"]:
                obs["blame"] = blame(case, f, obs["a"])
    return obs


def build_trainee(step):
    """A new component, or a new standard pipeline around it."""
    c = L.make(step["kind"], step["cfg"])
    if step["pipeline"]:
        from lenskit.pipeline import topn_pipeline
        return topn_pipeline(c, predicts_ratings=True)
    return c


def trained_state(step, obj):
    if step["pipeline"]:
        from props.c18 import pipe_components
        st = {}
        for n, c, t in pipe_components(obj):
            if t:
                for k, v in L.store_of(c).items():
                    if not k.startswith("_"):
                        st[n + "." + k] = v
        return st
    return {k: v for k, v in L.store_of(obj).items() if not k.startswith("_")}


def train_once(case, seed, step=None):
    from lenskit.training import TrainingOptions
    step = step or case
    ds = L.dataset(case["dataset"])
    obj = build_trainee(step)
    obj.train(ds, TrainingOptions(rng=make_seed_obj(case["seed_kind"], seed)))
    return trained_state(step, obj)


def reuse_steps(case):
    """The trainings that share one options object.  Only seed-like values are judged: a Generator advances by design
    (its state is the caller's), and so does the child numbering of a SeedSequence OBJECT that Pipeline.train spawns
    from -- with a SeedSequence every step is a direct component training (default_rng(seq) leaves it untouched)."""
    ru = case.get("reuse")
    if not ru or case["seed_kind"] not in TRAIN_SEED_KINDS:
        return []
    first = {"kind": case["kind"], "cfg": case["cfg"], "pipeline": case["pipeline"]}
    steps = [dict(first, ref="a", on=None), dict(ru["second"], ref="fresh", on=None),
             dict(first, ref="a", on=0 if ru["third"] == "retrain" else None)]
    if case["seed_kind"] == "seedseq":
        steps = [dict(s, pipeline=False) for s in steps]
        if case["pipeline"]:
            for s in steps:
                s["ref"] = "fresh"
    return steps


def train_reusing(case):
    """One TrainingOptions(rng=<seed>) object handed to every training of the sequence; next to each result the same
    training done with a fresh, equal options object."""
    from lenskit.training import TrainingOptions
    steps = reuse_steps(case)
    ds = L.dataset(case["dataset"])
    opts = TrainingOptions(rng=make_seed_obj(case["seed_kind"], case["seed"]))
    objs, got, refs = [], [], {}
    for s in steps:
        obj = objs[s["on"]] if s["on"] is not None else build_trainee(s)
        objs.append(obj)
        obj.train(ds, opts)
        got.append(trained_state(s, obj))
    fresh = []
    for s in steps:
        if s["ref"] == "a":
            fresh.append(None)            # the case's first run
        else:
            key = json.dumps([s["kind"], s["cfg"], s["pipeline"]], sort_keys=True)
            if key not in refs:
                refs[key] = train_once(case, case["seed"], s)
            fresh.append(refs[key])
    return {"got": got, "fresh": fresh}


ENTRY_OF = {"als": "ALSBase.training_loop", "ials": "ALSBase.training_loop", "funk": "FunkSVDScorer.train", "svd": "BiasedSVDScorer.train",
            "flexe": "FlexMFScorerBase.training_loop", "flexi": "FlexMFScorerBase.training_loop", "iknn": "ItemKNNScorer.train",
            "uknn": None, "bias": None}


def run_train(case):
    L.setup()
    try:
        a = train_once(case, case["seed"])
        b = train_once(case, case["seed"])
        c = train_once(case, case["seed2"])
        obs = {"a": a, "b": b, "other": c, "entry": "Pipeline.train" if case["pipeline"] else ENTRY_OF[case["kind"]]}
        if case.get("ambient"):
            obs["amb"] = under(case, lambda: train_once(case, case["seed"]))
            if a == b and obs["amb"] != a:
                obs["blame"] = blame(case, lambda: train_once(case, case["seed"]), a)
        if reuse_steps(case):
            try:
                obs["reuse"] = train_reusing(case)
            except (KeyError, ValueError, RuntimeError) as e:     # the second component may refuse the data
                obs["reuse_error"] = type(e).__name__
    except (KeyError, ValueError, RuntimeError) as e:
        return {"error": type(e).__name__}
    return obs


def worker(job: str, env, what: str):
    """One worker process.  torch's thread pools occasionally abort at interpreter exit on a loaded machine
    ("terminate called without an active exception") after the result was written: a complete result is accepted,
    anything else is tried once more."""
    err = ""
    for attempt in range(2):
        p = subprocess.run([common.PY, "-W", "ignore", str(common.VERIF / "harness" / "c11_worker.py")], input=job, capture_output=True,
                           text=True, env=env, timeout=900)
        try:
            return json.loads(p.stdout[p.stdout.index("{"):])
        except ValueError:
            err = p.stderr[-800:]
    raise RuntimeError(f"worker {what} failed: {err}")


def run_threads(case):
    job = json.dumps({"dataset": case.get("dataset"), "synthetic": case.get("synthetic"), "seed": case["seed"], "models": case["models"]})

    def one(cfg):
        t, b = cfg
        env = common.base_env(LK_NUM_THREADS=t, LK_NUM_BACKEND_THREADS=b, OMP_NUM_THREADS=b, MKL_NUM_THREADS=b,
                              OPENBLAS_NUM_THREADS=b, NUMBA_NUM_THREADS=max(t, b), TQDM_DISABLE=1, VERIF_NO_SYNC=1)
        return worker(job, env, str(cfg))
    with ThreadPoolExecutor(len(case["configs"])) as ex:
        res = list(ex.map(one, case["configs"]))
    return {"runs": res}


def run_hashseed(case):
    """The same batch of seeded operations in separate interpreter processes that differ only in PYTHONHASHSEED."""
    job = json.dumps({**{k: v for k, v in case.items() if k not in ("type", "hashseeds")}, "mode": "hashseed"})

    def one(hs):
        env = common.base_env(PYTHONHASHSEED=hs, TQDM_DISABLE=1, VERIF_NO_SYNC=1)
        return worker(job, env, f"PYTHONHASHSEED={hs}")
    with ThreadPoolExecutor(len(case["hashseeds"])) as ex:
        res = list(ex.map(one, case["hashseeds"]))
    return {"runs": res, "entry": "Pipeline.train"}


def run_api(case):
    L.setup()
    import numpy as np
    import lenskit.random as LR
    saved = LR._global_rng
    try:
        LR._global_rng = None
        if case["global"] is not None:
            LR.set_global_rng(case["global"])
        seed = make_seed_obj(case["seed_kind"], case["seed"])
        g1 = LR.random_generator(seed)
        used_global = g1 is LR._global_rng
        d1 = [int(x) for x in g1.integers(0, 2**62, 4)]
        seed = make_seed_obj(case["seed_kind"], case["seed"])
        d2 = [int(x) for x in LR.random_generator(seed).integers(0, 2**62, 4)]
        # user-derived generators: same (base, key) -> same stream, whatever was derived in between
        f = LR.derivable_rng((case["seed"], "user"))
        from lenskit.data import RecQuery
        k1 = [int(x) for x in f(RecQuery(user_id=case["key"])).integers(0, 2**62, 3)]
        f(RecQuery(user_id="someone-else"))
        f(RecQuery())
        k2 = [int(x) for x in f(RecQuery(user_id=case["key"])).integers(0, 2**62, 3)]
        k3 = [int(x) for x in LR.derivable_rng((case["seed"], "user"))(RecQuery(user_id=case["key"])).integers(0, 2**62, 3)]
        ms = [int(x) for x in LR.make_seed(case["seed"], case["key"]).generate_state(2)]
        ms2 = [int(x) for x in LR.make_seed(case["seed"], case["key"]).generate_state(2)]
        # a fixed factory from a plain seed (whatever its value): two factories, same stream
        fx = []
        if case["seed_kind"] in ("int", "intlist", "list1", "emptylist"):
            for _ in range(2):
                fx.append([int(x) for x in LR.derivable_rng(make_seed_obj(case["seed_kind"], case["seed"]))(RecQuery(user_id=case["key"])).integers(0, 2**62, 3)])
    finally:
        LR._global_rng = saved
    return {"used_global": bool(used_global), "d1": d1, "d2": d2, "k1": k1, "k2": k2, "k3": k3, "ms": ms, "ms2": ms2, "fx": fx}


def run_impl(case):
    L.setup()
    return {"split": run_split, "neg": run_neg, "ranker": run_ranker, "train": run_train, "threads": run_threads, "api": run_api,
            "hashseed": run_hashseed}[case["type"]](case)


# ---------------------------------------------------------------------------------------------
# model side: the model predicts equality wherever the generated graph is closed
# ---------------------------------------------------------------------------------------------


def zl(xs):
    return clist(xs, cz)


def entry_closed(name):
    if name is None:
        return "true"
    return f"(match find_fn rng_graph {cstr(name)} with Some f => body_closed (fn_body f) | None => false end)"


def same_store(a: dict, b: dict) -> str:
    keys = sorted(set(a) | set(b))
    return f"zlist_eqb {zl([a.get(k, -1) for k in keys])} {zl([b.get(k, -2) for k in keys])}"


def reuse_pairs(obs):
    for got, ref in zip(obs["reuse"]["got"], obs["reuse"]["fresh"]):
        yield got, (obs["a"] if ref is None else ref)


def step_text(s):
    return s["kind"] + (" through a pipeline" if s["pipeline"] else "") + (" (re-training the object of call 1)" if s["on"] is not None else "")


def coq_term(case, obs):
    t = case["type"]
    if obs.get("error") or (t in ("split",) and (obs["a"].get("error") or obs["b"].get("error"))):
        if t == "split":
            return cbool(obs["a"].get("error") == obs["b"].get("error"))
        return None
    if t == "split":
        amb = f" && zlist_eqb {zl(obs['a']['digests'])} {zl(obs['amb'].get('digests', [-1]))}" if "amb" in obs else ""
        return f"{entry_closed(obs['entry'])} && zlist_eqb {zl(obs['a']['digests'])} {zl(obs['b']['digests'])}" + amb
    if t == "neg":
        amb = f" && zlist_eqb {zl(obs['a'])} {zl(obs['amb'])}" if "amb" in obs else ""
        return f"{entry_closed(obs['entry'])} && zlist_eqb {zl(obs['a'])} {zl(obs['b'])}" + amb
    if t == "train":
        amb = f" && {same_store(obs['a'], obs['amb'])}" if "amb" in obs else ""
        if "reuse" in obs:        # the generated plan of TrainingOptions predicts: every training equals its fresh-options twin
            amb += " && plan_fresh training_options_plan"
            for got, ref in reuse_pairs(obs):
                amb += f" && {same_store(got, ref)}"
        return f"{entry_closed(obs['entry'])} && {same_store(obs['a'], obs['b'])}" + amb
    if t == "ranker":
        if not case["derived"]:
            amb = f" && zlist_eqb {zl(obs['a'])} {zl(obs['amb'])}" if "amb" in obs else ""
            return f"{entry_closed(obs['entry'])} && zlist_eqb {zl(obs['a'])} {zl(obs['b'])}" + amb
        # table: (user index, payload = list index) -> answer of the first time it was served in the first order
        table, seen = [], set()
        for pos, k in enumerate(case["orders"][0]):
            key = tuple(case["requests"][k])
            if key not in seen:
                seen.add(key)
                table.append((key[0], key[1], obs["orders"][0][pos]))
        tq = clist(table, lambda r: f"({cz(r[0])}, {cz(r[1])}, {cz(r[2])})")
        terms = []
        runs = list(zip(case["orders"], obs["orders"]))
        if "second_object" in obs:
            runs.append((case["orders"][-1], obs["second_object"]))
        if "amb" in obs:
            runs.append((case["orders"][-1], obs["amb"]))
        for order, answers in runs:
            rq = clist([case["requests"][k] for k in order], lambda r: f"({cz(r[0])}, {cz(r[1])})")
            terms.append(f"agree_derived deriving_plan {tq} {rq} {zl(answers)}")
        return f"{entry_closed(obs['entry'])} && " + " && ".join(terms)
    if t == "threads":
        terms = []
        base = obs["runs"][0]
        for cfg, r, label, mode in thread_pairs(case, obs):
            if mode == "exact":
                terms.append(same_store(base[label], r[label]))
            else:
                fa, fb = base["_numeric"][label], r["_numeric"][label]
                for k in sorted(set(fa) | set(fb)):
                    x, y = A.scaled(fa.get(k, []), fb.get(k, [0.0]))
                    terms.append(f"zlist_close 1000 {zl(x)} {zl(y)}")
        # block sizes: the iknn models of one run agree with each other
        ik = sorted(k for k in base if k.startswith("iknn-bs"))
        for r in obs["runs"]:
            for k in ik[1:]:
                terms.append(same_store(r[ik[0]], r[k]))
        return " && ".join(f"({x})" for x in terms)
    if t == "hashseed":
        base = obs["runs"][0]
        labels = sorted(k for k in base if not k.startswith("_"))
        terms = [entry_closed("Pipeline.train")]
        for r in obs["runs"][1:]:
            for lb in labels:
                terms.append(f"zlist_eqb {zl(base[lb])} {zl(r.get(lb, [-1]))}")
        return " && ".join(f"({x})" for x in terms)
    if t == "api":
        want_global = "UseGlobal" if obs["used_global"] else "FromArgument"
        plan = f"match random_generator_plan {cbool(case['seed_kind'] != 'none')} {cbool(case['global'] is not None)}, {want_global} with UseGlobal, UseGlobal => true | FromArgument, FromArgument => true | _, _ => false end"
        eq = "true" if case["seed_kind"] == "none" else f"zlist_eqb {zl(obs['d1'])} {zl(obs['d2'])}"
        fx = f" && zlist_eqb {zl(obs['fx'][0])} {zl(obs['fx'][1])}" if obs.get("fx") else ""
        return f"({plan}) && {eq} && zlist_eqb {zl(obs['k1'])} {zl(obs['k2'])} && zlist_eqb {zl(obs['k1'])} {zl(obs['k3'])} && zlist_eqb {zl(obs['ms'])} {zl(obs['ms2'])}" + fx
    return None


# ---------------------------------------------------------------------------------------------
# the property as a predicate on implementation output (independent of the Coq model)
# ---------------------------------------------------------------------------------------------


def split_path(case):
    if case["op"].startswith("crossfold"):
        return case["op"]
    return f"{case['op']}:{case['mode']}"


def seed_text(case):
    k = case.get("seed_kind", "int")
    return f"seed {'[]' if k == 'emptylist' else case['seed']} ({k})"


def ambient_check(case, obs, what, v):
    """Same seed, inputs and call sequence under another ambient state (logging verbosity, warnings filter, global
    generators) must give the same result."""
    if "amb" not in obs:
        return
    ref = obs["second_object"] if case["type"] == "ranker" and case["derived"] else obs["a"]
    if obs["amb"] != ref:
        dims = obs.get("blame") or ["combination"]
        st = case["ambient"]
        v.append((f"ambient-dependent:{what}:{'+'.join(dims)}",
                  f"{what} with {seed_text(case)} gives a different result under ambient state {st} than under the default state "
                  f"(decisive: {', '.join(dims)}): the outcome depends on something that is not the seed, the inputs or the call sequence"))


def oracle(case, obs):
    t = case["type"]
    v = []
    if t == "split":
        a, b = obs["a"], obs["b"]
        if a.get("error") or b.get("error"):
            if a.get("error") != b.get("error"):
                v.append((f"not-reproducible:{split_path(case)}", f"same seed: one run raised {a.get('error')}, the other {b.get('error')}"))
        elif a["digests"] != b["digests"]:
            v.append((f"not-reproducible:{split_path(case)}" + (":then" if case.get("then") and a["digests"][:-2] == b["digests"][:-2] else ""),
                      f"{case['op']} with the same {seed_text(case)} gave different splits (hold-out {case.get('holdout', {}).get('kind')}"
                      + (f" with seed {case['holdout']['seed']}" if case.get("holdout", {}).get("seed") is not None else "") + ")"))
        else:
            ambient_check(case, obs, split_path(case), v)
    elif t == "neg":
        if obs["a"] != obs["b"]:
            v.append((f"not-reproducible:sample_negatives:{case['weighting']}", f"negative sampling with the same {seed_text(case)} gave different items"))
        else:
            ambient_check(case, obs, f"sample_negatives:{case['weighting']}", v)
    elif t == "train":
        if obs.get("error"):
            return []
        what = f"train:{case['kind']}" + (":pipeline" if case["pipeline"] else "")
        if obs["a"] != obs["b"]:
            bad = sorted(k for k in set(obs["a"]) | set(obs["b"]) if obs["a"].get(k) != obs["b"].get(k))
            v.append((f"not-reproducible:{what}", f"training twice with the same {seed_text(case)} gave different {bad}"))
        else:
            ambient_check(case, obs, what, v)
            if "reuse" in obs:
                steps = reuse_steps(case)
                for j, ((got, ref), s) in enumerate(zip(reuse_pairs(obs), steps)):
                    if got != ref:
                        bad = sorted(k for k in set(got) | set(ref) if got.get(k) != ref.get(k))
                        v.append((f"options-object-reused:train:{s['kind']}" + (":pipeline" if s["pipeline"] else ""),
                                  f"ONE TrainingOptions object ({seed_text(case)}) handed to {len(steps)} trainings "
                                  f"({'; '.join(step_text(t) for t in steps)}): training #{j + 1} differs in {bad} from the same training "
                                  "with a fresh, equal options object -- something is carried from one training to the next"))
                        break
    elif t == "ranker":
        if case["derived"]:
            ans = {}
            runs = list(zip(case["orders"], obs["orders"]))
            if "second_object" in obs:
                runs.append((case["orders"][-1], obs["second_object"]))
            for order, answers in runs:
                for pos, k in enumerate(order):
                    key = tuple(case["requests"][k])
                    if ans.setdefault(key, answers[pos]) != answers[pos]:
                        v.append((f"order-dependent:{case['cls']}", f"user {case['users'][key[0]]!r} got different lists for the same request depending on what was served before "
                                  f"(ranker seeded with ({seed_text(case)}, 'user'))"))
            if not v:
                ambient_check(case, obs, case["cls"] + ":derived", v)
        else:
            if obs["a"] != obs["b"]:
                v.append((f"not-reproducible:{case['cls']}", f"two rankers configured with the same {seed_text(case)} and given the same request sequence gave different lists"))
            else:
                ambient_check(case, obs, case["cls"], v)
    elif t == "threads":
        base = obs["runs"][0]
        for cfg, r, label, mode in thread_pairs(case, obs):
            if mode == "rounding":
                fa, fb = base["_numeric"][label], r["_numeric"][label]
                bad = sorted(k for k in set(fa) | set(fb) if not A.close(fa.get(k, []), fb.get(k, [0.0])))
                if bad:
                    v.append((f"thread-dependent:{label.split('-')[0]}:large:beyond-rounding",
                              f"{label} trained with seed {case['seed']} and threads={cfg} differs from threads={case['configs'][0]} in {bad} by more than 1e-6 of "
                              f"the scale ({obs['runs'][0].get('_sizes')} users/items/ratings, matrices beyond {case['threshold']} entries)"))
            elif base[label] != r[label]:
                bad = sorted(k for k in base[label] if base[label][k] != r[label].get(k))
                size = f" ({obs['runs'][0].get('_sizes')} users/items/ratings, matrices beyond {case['threshold']} entries)" if case.get("large") else ""
                v.append((f"thread-dependent:{label.split('-')[0]}" + (":large" if case.get("large") else ""),
                          f"{label} trained with seed {case['seed']} and threads={cfg} differs from threads={case['configs'][0]} in {bad}{size}"))
        ik = sorted(k for k in base if k.startswith("iknn-bs"))
        for r in obs["runs"]:
            for k in ik[1:]:
                if r[k] != r[ik[0]]:
                    v.append(("block-size-dependent:iknn", f"item-kNN model with {k} differs from {ik[0]}"))
    elif t == "hashseed":
        base = obs["runs"][0]
        for hs, r in zip(case["hashseeds"][1:], obs["runs"][1:]):
            for lb in sorted(k for k in base if not k.startswith("_")):
                if base[lb] != r.get(lb):
                    kind = lb.split(":")[0] + (":" + lb.split(":")[1] if lb.startswith(("split", "ranker")) else "")
                    v.append((f"process-dependent:{kind}", f"{lb}: same program, same seed {case['seed']}, PYTHONHASHSEED={hs} vs {case['hashseeds'][0]} "
                              "gave different results (seed material or bookkeeping depends on the interpreter's string hashing)"))
    elif t == "api":
        if case["seed_kind"] != "none":
            if obs["used_global"]:
                v.append(("explicit-seed-used-global", "random_generator(seed) returned the global generator"))
            if obs["d1"] != obs["d2"]:
                v.append(("not-reproducible:random_generator", "random_generator(seed) twice gave different streams"))
        if obs["k1"] != obs["k2"] or obs["k1"] != obs["k3"]:
            v.append(("order-dependent:derivable_rng", "user-derived generator for the same (seed, user) differs"))
        if obs["ms"] != obs["ms2"]:
            v.append(("not-reproducible:make_seed", "make_seed gave different seeds for equal keys"))
        if obs.get("fx") and obs["fx"][0] != obs["fx"][1]:
            v.append(("not-reproducible:derivable_rng", f"two fixed factories made by derivable_rng from the same {seed_text(case)} gave different streams"))
    seen, out = set(), []
    for k, w in v:
        if k not in seen:
            seen.add(k)
            out.append((k, w))
    return out


def nontrivial(case, obs):
    t = case["type"]
    if t in ("split",):
        return not obs["a"].get("error") and obs["a"]["digests"] != obs["other"].get("digests")
    if t == "neg":
        return obs["a"] != obs["other"]
    if t == "train":
        return not obs.get("error") and obs["a"] != obs["other"]
    if t == "ranker":
        return (obs["orders"][0] if case["derived"] else obs["a"]) != obs["other"]
    if t == "threads":
        if case.get("large"):
            sz, k = obs["runs"][0]["_sizes"], case["models"][0][2]["embedding_size"]
            return len(obs["runs"]) >= 2 and min(sz[0], sz[1]) * k > case["threshold"]
        return len(obs["runs"]) >= 2
    if t == "hashseed":
        return len({tuple(r["_hashseed"]) for r in obs["runs"]}) >= 2      # the processes really hashed strings differently
    return case["seed_kind"] != "none"


def counters(case, obs):
    t = case["type"]
    yield "type=" + t
    if t in ("split", "neg", "ranker", "train", "api") and case.get("seed_kind") != "none":
        yield "seed-value=" + seed_class(case.get("seed_kind", "int"), case["seed"])
    if case.get("ambient") and "amb" in obs:
        yield "ambient=" + "+".join(f"{d}:{case['ambient'][d] if d != 'global_rng' else 'set'}" for d in A.DIMENSIONS if case["ambient"].get(d) is not None)
    if t == "split":
        yield "path=" + split_path(case)
        yield "seed-kind=" + case["seed_kind"]
        if case.get("holdout"):
            yield "holdout=" + case["holdout"]["kind"]
        if case.get("then"):
            yield "shared-generator-two-operations"
        if obs["a"].get("error"):
            yield "split-error=" + obs["a"]["error"]
    elif t == "neg":
        yield f"neg={case['weighting']}/n={case['n']}/verify={case['verify']}/attempts={case['max_attempts']}"
    elif t == "ranker":
        yield f"ranker={case['cls']}/{'derived-' + case['base'] if case['derived'] else 'fixed'}"
        yield "seed-kind=" + case.get("seed_kind", "int")
        if case["anonymous_at"] is not None:
            yield "ranker-anonymous-request-interleaved"
        if not case["derived"]:
            yield "fixed-ranker-permuted-" + ("same" if obs["permuted"] == obs["a"] else "differs")
    elif t == "train":
        yield f"train={case['kind']}" + ("/pipeline" if case["pipeline"] else "")
        yield "seed-kind=" + case["seed_kind"]
        if obs.get("error"):
            yield "train-error=" + obs["error"]
        else:
            yield "other-seed-" + ("differs" if obs["a"] != obs["other"] else "same")
        if obs.get("reuse_error"):
            yield "options-object-reused-error=" + obs["reuse_error"]
        if "reuse" in obs:
            st = reuse_steps(case)
            yield "options-object-reused=" + "/".join(("pipeline" if s["pipeline"] else "direct") + ("-retrain" if s["on"] is not None else "") for s in st)
            yield "options-object-reused-second=" + ("same-kind" if st[1]["kind"] == st[0]["kind"] else "other-kind")
    elif t == "threads":
        for cfg, r in zip(case["configs"], obs["runs"]):
            yield f"threads={cfg[0]}/backend={cfg[1]}/torch={r['_config']['torch_threads']}/interop={r['_config']['torch_interop']}"
        if case.get("large"):
            sz = obs["runs"][0]["_sizes"]
            k = case["models"][0][2]["embedding_size"]
            yield f"large-matrix-training/threshold={case['threshold']}/user-entries>={sz[0] * k > case['threshold']}/item-entries>={sz[1] * k > case['threshold']}"
    elif t == "hashseed":
        for hs in case["hashseeds"]:
            yield "PYTHONHASHSEED=" + hs
        yield f"hashseed-operations={len([k for k in obs['runs'][0] if not k.startswith('_')])}"
        yield f"hashseed-distinct-string-hashes={len({tuple(r['_hashseed']) for r in obs['runs']})}"
    else:
        yield f"api={case['seed_kind']}/global={'set' if case['global'] is not None else 'unset'}/used_global={obs['used_global']}"


def sample(case, obs):
    if case["type"] == "threads":
        return {"case": {"type": "threads", "configs": case["configs"], "models": [m[0] for m in case["models"]],
                         "rows": len(case["dataset"]["rows"]) if "dataset" in case else case["synthetic"]},
                "observation": {"configs": [r["_config"] for r in obs["runs"]], "als": [r["als"] for r in obs["runs"]]}}
    small = {k: v for k, v in case.items() if k != "dataset"}
    if case["type"] == "hashseed":
        return {"case": small, "observation": {"labels": sorted(obs["runs"][0]), "string_hash_per_process": [r["_hashseed"][1] for r in obs["runs"]]}}
    return {"case": small, "observation": {k: v for k, v in obs.items()}}


_shrunk = [0]


def shrink(case, fails):
    if "dataset" not in case or case["type"] in ("threads", "hashseed"):
        return case
    _shrunk[0] += 1
    if _shrunk[0] > 5:        # at most five oracle keys are shrunk per run
        return case
    c = dict(case)
    if c.get("ambient"):      # keep only the ambient dimensions that matter
        for st in A.single_dimensions(c["ambient"]):
            if fails({**c, "ambient": {**{d: None for d in A.DIMENSIONS}, **st}}):
                c["ambient"] = {**{d: None for d in A.DIMENSIONS}, **st}
                break

    def with_rows(rows):
        d = dict(c["dataset"])
        d["rows"] = rows
        return {**c, "dataset": d}
    rows = common.shrink_list(c["dataset"]["rows"], lambda xs: len(xs) >= 2 and fails(with_rows(xs)), 30)
    return with_rows(rows)
