"""C04 -- scorers keep items aligned, tolerate unknowns, and score each item independently
(DESIGN.md section 4, C04; notes/design/C04.md)."""

from __future__ import annotations

import math
from fractions import Fraction

import common
from common import clist, copt, cq, cz, fjson, fparse
from framework import TranslateError  # noqa: F401

PID = "C04"
PROPS_FILE = "Props/C04.v"
GEN_FILES = ["Gen/C04_sites.v", "Gen/C04_numbers.v"]
MODEL_FILES = ["Model/C04_scatter.v", "Model/C04_repr.v"]
MODEL_INDEPENDENT_OF_GEN = True
ALLOWED_AXIOMS: list[str] = []
CASE_HEADER = (
    "From Coq Require Import ZArith QArith.\n"
    "From LK Require Import Lib.QLib Model.C04_scatter Model.C04_repr Gen.C04_numbers.\n"
    "Open Scope Q_scope."
)
SHARD = 25
TRUSTED = [
    "Coq 8.16.1 kernel + vm_compute (no native_compute); Print Assumptions of every theorem in Props/C04.v: closed under the global context",
    "sites extractor harness/translate/c04.py (Python ast -> Gen/C04_sites.v): classification of the receiver of every `.numbers(`/`.number(` call in the "
    "listed scorer functions, the `missing=` constant, and the shape of every `return` of a scorer entry point; fail-closed on unlisted scorer classes, "
    "unclassified receivers and non-constant policies",
    "that each numeric kernel (torch/BLAS/scipy products, neighbourhood selection, embedding look-ups, the `implicit` library) is pointwise is NOT proved: "
    "it is observed by the metamorphic runs (permutation, two halves, every candidate alone, repetition, a fresh query object) evaluated inside Coq on exact rationals; tolerance of the "
    "comparisons ACROSS evaluation paths (permuted list, halves against the full list: single-precision products computed by a different BLAS / torch kernel "
    "when the list size changes, error ~ eps32 * sum|terms|, not relative to a result with cancellation): |x - y| <= 2^-16 * max(1, |x|, |y|) "
    "(Model/C04_scatter.v `tol_meta`, `score_close`; the same formula in the Python oracle); exact equality for repeated calls, for the call made again "
    "after the others, and for the fresh query object",
    "extractor of ItemList.ids / ItemList.numbers (harness/translate/c04.py -> Gen/C04_numbers.v): accepts only the statement lists that Model/C04_repr.v "
    "models (ast.unparse-normalised comparison), fail-closed otherwise; that pickle / to_df+from_df / to_arrow+from_arrow / copies keep identifiers and "
    "numbers and drop the vocabulary as `transport1` says is compared per case (the numbers the list resolves to in the dataset vocabulary, `resolves_ok`)",
    "correspondence harness harness/props/c04.py + harness/c04_impl.py (construction of datasets, queries and candidate lists; exact float->rational conversion; "
    "reading the caller's query and candidate list back after every call: the history's (item, rating) pairs are compared inside Coq (`kept_ok`), the remaining "
    "fields, storage types, object identity and raw buffers by the harness, entering the Coq term as one flag per call)",
    "scan of the scorers' configuration classes for integer fields (harness/translate/c04.py `config_int_fields` -> Gen/C04_sites.v): classes named *Config* or "
    "referred to by a `config:` annotation in the scorer files, fields whose annotation mentions an integer type outside Literal[...]; fail-closed on "
    "unresolvable bases; Model/C04_scatter.v `explored_int_fields` is compared with the generator's KNOBS table on every run",
    "HPF (hpfrec not installed) is covered by the sites table only (its integer field is listed as undriven)",
]
ASSUMPTIONS = [
    "candidate lists contain distinct item identifiers",
    "histories supplied in a query carry a rating field (explicit-feedback scorers document an error otherwise)",
]
RULE = ("structured generator: one scorer x configuration per case (bias: entity subsets/damping; popularity: 3 score modes; known-rating: score x source; "
        "item/user k-NN: both feedback modes, small max_nbrs so the truncating path is taken, min_nbrs 1-2; BiasedMF/ImplicitMF: each user-embedding policy, "
        "use_ratings; FunkSVD with/without range; BiasedSVD; FlexMF explicit/implicit, 1-2 epochs; implicit ALS/BPR; EVERY integer field of a scorer "
        "configuration class -- the list is regenerated from the source, theorem int_fields_explored -- set to small values: item-kNN block_size 1-3, FlexMF "
        "batch_size 1-8 (fewer than the known candidates of a list), negative_count, n_iter, embedding sizes, epochs) trained on a random 3-9 x 3-10 "
        "or (half of the cases) 8-20 x 6-14 half-star dataset (optionally with users/items without data); RATING VALUES engineered so that exact zeros occur "
        "inside the scorers (two thirds of the cases: profiles of users / of items / the whole table symmetric about a half-star mean that some rating hits, "
        "now and then all ratings of a user equal; a third of the non-empty query histories likewise); 3-5 queries per case drawn from id / history / both / neither, known and unknown users, "
        "histories with unknown items or empty, histories stored as writable float32 / float64 NumPy arrays, Python lists, Arrow arrays or a torch tensor, optionally with a second "
        "(timestamp) field; candidate lists with unknown items, empty lists, extra fields, ordered lists, lists given by item number against the dataset vocabulary; "
        "PROVENANCE of the candidate list (base / repeat / first half) and of the history as a generated dimension: built from identifiers, from item numbers or both "
        "against the dataset vocabulary, against a catalogue that numbers the items differently (sorted or shuffled superset with the unknown items) or against the "
        "vocabulary of a filtered subset, then 0-3 steps out of ids() / numbers() (caches), pickle, deepcopy, to_df/from_df, to_arrow/from_arrow with and without numbers, "
        "copy constructor, clone, slice, take; a seventh call with a FRESH query object whose history and candidates are given plainly by identifier; "
        "integer or string identifiers; ONE query object per query is handed to the base call, the repeated call (same candidate list object too), the permuted call, "
        "the two halves, EVERY candidate ALONE (at most 5 one-item calls per query) and once more at the end, and after every call the query (user, history ids and every field, storage types, the supplied arrays bit for bit) "
        "and the candidate list are compared with what was supplied; non-trivial = the scorer trained, at least one call returned >= 2 finite scores and at "
        "least one candidate list contained an unknown item or the query an unknown user/history item; distinct = by hash of the case")

# tolerance of the comparisons across evaluation paths (permuted / half lists against the full list): see Model/C04_scatter.v `score_close`
TOL = Fraction(1, 2**16)


def close(x, y):
    return abs(x - y) <= TOL * max(1, abs(x), abs(y))


def translate():
    import re
    from translate import c04 as t
    from translate.pyq import TranslateError as TE
    # the Coq mirror of KNOBS / UNDRIVEN is what theorem int_fields_explored speaks about: it must BE this table
    text = (common.COQ / "Model" / "C04_scatter.v").read_text()
    for name, table in (("explored_int_fields", list(KNOBS)), ("undriven_int_fields", UNDRIVEN)):
        m = re.search(r"Definition " + name + r" [^=]*:=\s*\[(.*?)\]%string\.", text, re.S)
        got = re.findall(r'\("(\w+)", "(\w+)"\)', m.group(1)) if m else None
        if got is None or sorted(got) != sorted(table):
            raise TranslateError(f"Model/C04_scatter.v {name} is not the table of harness/props/c04.py: {got} vs {sorted(table)}")
    try:
        return t.translate(common.SRC)
    except TE as e:
        raise TranslateError(str(e))


# ---------------------------------------------------------------------------------------------
# generator
# ---------------------------------------------------------------------------------------------

UNKNOWN_ITEMS = [950, 951, 952]
UNKNOWN_HIST = [900, 901, 902]


def gen_scorer(rng):
    s = rng.weighted([("bias", 2), ("popularity", 1), ("known-rating", 2), ("item-knn", 4), ("user-knn", 4), ("biased-mf", 3),
                      ("implicit-mf", 3), ("funksvd", 2), ("biased-svd", 2), ("flexmf-explicit", 1), ("flexmf-implicit", 1),
                      ("implicit-als", 2), ("implicit-bpr", 1)])
    c = {"scorer": s}
    if s == "bias":
        c["entities"] = rng.choice([["user", "item"], ["user"], ["item"], []])
        c["damping"] = rng.choice(["0/1", "5/1", {"user": "2/1", "item": "1/2"}])
    elif s == "popularity":
        c["score"] = rng.choice(["quantile", "rank", "count"])
    elif s == "known-rating":
        c["score"] = rng.choice([None, "rating", "indicator"])
        c["source"] = rng.choice(["training", "query"])
    elif s in ("item-knn", "user-knn"):
        c["feedback"] = rng.choice(["explicit", "implicit"])
        c["max_nbrs"] = rng.choice([1, 2, 3, 20])
        c["min_nbrs"] = rng.choice([1, 1, 2])
        if s == "item-knn":
            c["save_nbrs"] = rng.choice([None, None, 2, 4])
    elif s in ("biased-mf", "implicit-mf"):
        c["k"] = rng.randint(1, 4)
        c["epochs"] = rng.randint(1, 2)
        c["user_embeddings"] = rng.weighted([(True, 4), (False, 2), ("prefer", 3)])
        if s == "implicit-mf":
            c["use_ratings"] = rng.chance(1, 2)
            c["weight"] = rng.choice(["40/1", "1/1", "5/2"])
    elif s == "funksvd":
        c["k"] = rng.randint(1, 3)
        c["range"] = rng.choice([None, ["1/2", "5/1"]])
    elif s == "biased-svd":
        c["k"] = rng.randint(1, 2)
    elif s == "flexmf-explicit":
        c["k"] = rng.randint(1, 3)
        c["epochs"] = rng.randint(1, 2)
    elif s == "flexmf-implicit":
        c["k"] = rng.randint(1, 3)
        c["epochs"] = rng.randint(1, 2)
        c["loss"] = rng.choice(["logistic", "pairwise"])
    elif s in ("implicit-als", "implicit-bpr"):
        c["k"] = rng.randint(2, 4)
        c["seed"] = rng.randint(1, 1000)
    return c


# Integer fields of the scorers' configuration classes and the SMALL values the generator gives them, so that whatever path
# such a field gates (blocks, batches, truncated neighbourhoods, chunked products) runs on the small datasets of the cases.
# (configuration class, field) -> (key in the case's "knobs", values).  Gen/C04_sites.v `config_int_fields` lists the fields
# the source HAS (regenerated on every run); Model/C04_scatter.v `explored_int_fields` mirrors this table (compared by
# `translate`), theorem `int_fields_explored` fails when the source gains an integer field that is not here.
KNOBS = {
    ("ItemKNNConfig", "max_nbrs"): ("max_nbrs", [1, 2, 3, 20]),
    ("ItemKNNConfig", "min_nbrs"): ("min_nbrs", [1, 1, 2]),
    ("ItemKNNConfig", "save_nbrs"): ("save_nbrs", [None, None, 2, 4]),
    ("ItemKNNConfig", "block_size"): ("block_size", [1, 2, 3, 250]),
    ("UserKNNConfig", "max_nbrs"): ("max_nbrs", [1, 2, 3, 20]),
    ("UserKNNConfig", "min_nbrs"): ("min_nbrs", [1, 1, 2]),
    ("ALSConfig", "embedding_size"): ("k", [1, 2, 3, 4]),
    ("ALSConfig", "epochs"): ("epochs", [1, 2]),
    ("FunkSVDConfig", "features"): ("k", [1, 2, 3]),
    ("FunkSVDConfig", "epochs"): ("epochs", [1, 2, 3]),
    ("BiasedSVDConfig", "embedding_size"): ("k", [1, 2]),
    ("BiasedSVDConfig", "n_iter"): ("n_iter", [1, 2, 3]),
    ("FlexMFConfigBase", "embedding_size"): ("k", [1, 2, 3]),
    ("FlexMFConfigBase", "batch_size"): ("batch_size", [1, 2, 3, 5, 8, 8192]),
    ("FlexMFConfigBase", "epochs"): ("epochs", [1, 2]),
    ("FlexMFImplicitConfig", "negative_count"): ("negative_count", [1, 2]),
}
# integer fields of components the harness cannot drive (hpfrec is not installed: HPF is covered by the sites table only)
UNDRIVEN = [("HPFConfig", "embedding_size")]
# scorer of the generator -> configuration classes whose integer fields it takes
KNOB_CLASSES = {
    "item-knn": ["ItemKNNConfig"], "user-knn": ["UserKNNConfig"], "biased-mf": ["ALSConfig"], "implicit-mf": ["ALSConfig"],
    "funksvd": ["FunkSVDConfig"], "biased-svd": ["BiasedSVDConfig"], "flexmf-explicit": ["FlexMFConfigBase"],
    "flexmf-implicit": ["FlexMFConfigBase", "FlexMFImplicitConfig"],
}
# fields drawn by gen_scorer from the main stream already (kept there so that earlier cases keep their values)
KNOBS_MAIN = {"max_nbrs", "min_nbrs", "save_nbrs", "k", "epochs"}


def gen_knobs(r, scorer):
    """the integer configuration fields not drawn by gen_scorer, from a fork of the case stream"""
    out = {}
    for (cls, _field), (key, values) in KNOBS.items():
        if cls in KNOB_CLASSES.get(scorer, []) and key not in KNOBS_MAIN:
            out[key] = r.choice(values)
    return out


HALF = Fraction(1, 2)


def centred_profile(r, n):
    """n half-star ratings whose mean is itself a half-star value m and is HIT by at least one of them (n >= 1): pairs m-d / m+d and
    the rest m, so that `rating - mean` is exactly 0 somewhere whatever the precision (m * n / n is exact in float32); now and
    then all n are equal."""
    m = HALF * r.randint(2, 9)                                   # 1.0 .. 4.5
    room = int(min(m - HALF, 5 - m) / HALF)                      # largest d (in half stars) with 0.5 <= m-d, m+d <= 5
    pairs = 0 if r.chance(1, 6) or n < 2 else (r.randint(0, 1) if n == 2 else r.randint(1, (n - 1) // 2))
    vals = []
    for _ in range(pairs):
        d = HALF * r.randint(1, max(1, room))
        vals += [m - d, m + d]
    vals += [m] * (n - len(vals))
    return r.shuffle(vals)


def centre_ratings(r, ratings, axis):
    """rewrite the rating values (the sparsity pattern stays) so that, for about two thirds of the users (axis 0) / items (axis 1),
    the profile is a `centred_profile`; axis 2: the whole table"""
    groups = {}
    for k, row in enumerate(ratings):
        groups.setdefault(0 if axis == 2 else row[axis], []).append(k)
    for g in sorted(groups):
        if axis == 2 or r.chance(2, 3):
            for k, v in zip(groups[g], centred_profile(r, len(groups[g]))):
                ratings[k][2] = fjson(v)


def gen_case(rng, tier):
    nu, ni = rng.randint(3, 9), rng.randint(3, 10)
    # half of the cases on a larger dataset (neighbourhood scorers rarely find a neighbour with positive similarity among 3-9
    # users: nearly all their scores are missing there, and paths that need several contributing neighbours never run)
    rs = rng.fork("size")
    if rs.chance(1, 2):
        nu, ni = rs.randint(8, 20), rs.randint(6, 14)
    uids = rng.sample(list(range(1, 60)), nu)
    iids = rng.sample(list(range(100, 180)), ni)
    dens = rng.choice([4, 6, 8])
    ratings = []
    for u in uids:
        for i in iids:
            if rng.chance(dens, 10):
                ratings.append([u, i, fjson(Fraction(rng.randint(1, 10), 2))])
    if len(ratings) < 3:
        ratings = [[uids[0], iids[0], "4/1"], [uids[1], iids[0], "2/1"], [uids[1], iids[1], "5/1"]]
    users, items = list(uids), list(iids)
    if rng.chance(1, 3):
        users += [61, 62][: rng.randint(1, 2)]
        items += [181, 182][: rng.randint(1, 2)]
    if rng.chance(1, 3):
        users, items = rng.shuffle(users), rng.shuffle(items)
    queries = []
    for _ in range(rng.randint(3, 5)):
        uk = rng.weighted([("known", 6), ("unknown", 2), ("none", 2)])
        user = rng.choice(users) if uk == "known" else (999 if uk == "unknown" else None)
        hk = rng.weighted([("none", 4), ("known", 3), ("mixed", 3), ("unknown", 1), ("empty", 1)])
        if hk == "none":
            hist = None
        elif hk == "empty":
            hist = []
        else:
            pool = {"known": items, "mixed": items + UNKNOWN_HIST, "unknown": UNKNOWN_HIST}[hk]
            hist = [[i, fjson(Fraction(rng.randint(1, 10), 2))] for i in rng.sample(pool, rng.randint(1, min(6, len(pool))))]
        n = rng.weighted([(0, 1), (1, 1), (2, 2), (4, 3), (len(items), 3), (len(items) + 2, 2)])
        by_number = rng.chance(1, 5)
        cands = rng.sample(items if by_number else items + UNKNOWN_ITEMS, min(n, len(items) + (0 if by_number else 3)))
        q = {"user": user, "history": hist, "items": cands, "by_number": by_number, "perm": rng.shuffle(list(range(len(cands)))),
             "split": rng.randint(0, len(cands)), "extra": rng.chance(1, 2), "ordered": rng.chance(1, 4),
             "form": rng.choice(["query", "query", "id", "list"])}
        # storage form of the history handed to the scorer (drawn from a fork: the main stream is not advanced)
        r2 = rng.fork(f"history-form-{len(queries)}")
        q["hist_form"] = r2.weighted([("f32", 4), ("f64", 3), ("list", 2), ("arrow", 2), ("torch", 1)])
        q["hist_extra"] = r2.chance(1, 3)
        # how the candidate list and the history identify their items, and the journey they made (another fork)
        r3 = rng.fork(f"provenance-{len(queries)}")
        q["cand_prov"] = gen_prov(r3, by_number)
        q["hist_prov"] = gen_prov(r3, False)
        # every candidate (at most 5 of a longer list) is also scored ALONE: the strongest probe of "not on which other candidates
        # accompany it" -- a one-item call takes whatever path a list-size / stored-entry count threshold selects for tiny inputs
        r4 = rng.fork(f"singles-{len(queries)}")
        q["singles"] = r4.sample(list(range(len(cands))), min(5, len(cands)))
        # a history whose ratings hit their own mean exactly (centred value 0)
        r5 = rng.fork(f"history-profile-{len(queries)}")
        if hist and r5.chance(1, 3):
            for h, v in zip(hist, centred_profile(r5, len(hist))):
                h[1] = fjson(v)
            q["hist_profile"] = "centred"
        # session 2 (seed C04-10): the history's rating field stored with an INTEGER dtype (whole-star ratings, as a pandas int
        # column gives them) -- a storage type of the supplied field, drawn from a fork; the ratings are rounded up to whole stars
        r6 = rng.fork(f"history-int-{len(queries)}")
        if hist and r6.chance(1, 6):
            for h in hist:
                h[1] = fjson(Fraction(math.ceil(fparse(h[1]))))
            q["hist_form"] = "i64"
            q.pop("hist_profile", None)
        queries.append(q)
    # the other vocabularies lists are built against: a catalogue (superset, numbering differs) and a filtered subset
    rc = rng.fork("catalogue")
    others = [i for i in range(100, 180) if i not in iids]
    cat = list(items) + UNKNOWN_ITEMS + UNKNOWN_HIST + rc.sample(others, rc.randint(1, 6)) + ([95] if rc.chance(1, 2) else [])
    reorder = rc.chance(2, 3)
    if not reorder:
        cat = rc.shuffle(cat)
    subset = sorted(rc.sample(list(items), rc.randint(1, len(items))))
    # rating values engineered so that EXACT zeros occur inside the scorers (a rating equal to its user's / item's / the global
    # mean, users whose ratings are all equal): the sparsity pattern is the one drawn above
    rp = rng.fork("profiles")
    profiles = rp.weighted([("random", 3), ("user-centred", 3), ("item-centred", 2), ("global-centred", 1)])
    if profiles != "random":
        centre_ratings(rp, ratings, {"user-centred": 0, "item-centred": 1, "global-centred": 2}[profiles])
    case = {"users": users, "items": items, "ratings": ratings, "seed": rng.randint(0, 2**31 - 1),
            "ids": rng.weighted([("int", 3), ("str", 1)]), "scorer": gen_scorer(rng), "queries": queries,
            "catalogue": {"ids": cat, "reorder": reorder}, "subset": subset, "profiles": profiles}
    case["scorer"].update(gen_knobs(rng.fork("knobs"), case["scorer"]["scorer"]))
    return case


def gen_prov(r, by_number):
    built = "own-nums" if by_number else r.weighted([("ids", 6), ("cat-ids", 3), ("cat-nums", 2), ("cat-both", 2), ("sub-ids", 1), ("own-ids", 1),
                                                      ("own-nums", 1)])
    n = r.weighted([(0, 4), (1, 4), (2, 3), (3, 1)])
    steps = [r.weighted([("ids", 1), ("numbers", 3), ("pickle", 3), ("deepcopy", 1), ("frame", 3), ("arrow", 1), ("arrow-nums", 2), ("copy", 1),
                         ("clone", 1), ("slice", 1), ("take", 1)]) for _ in range(n)]
    return {"built": built, "steps": steps}


def gen_cases(rng, tier):
    n = 500 if tier == "quick" else 4000
    return [gen_case(rng.fork(k), tier) for k in range(n)]


# ---------------------------------------------------------------------------------------------
# implementation driver
# ---------------------------------------------------------------------------------------------


def run_impl(case):
    import c04_impl
    return c04_impl.run(case)


# ---------------------------------------------------------------------------------------------
# model side: the checks of Model/C04_scatter.v evaluated on the observed answers
# ---------------------------------------------------------------------------------------------

KINDS = ("base", "repeat", "perm", "half_a", "half_b", "again")


def sequence(c):
    """the calls made with ONE query object, in the order they were made: [(label, observation)]"""
    singles = [(f"single-{k}", o) for k, o in enumerate(c.get("singles", []))]
    return [(k, c[k]) for k in KINDS[:5]] + singles + [("again", c["again"])]


def unknown_policy(case):
    s = case["scorer"]
    if s["scorer"] == "bias":
        return "UBaseline"            # "Unknown users and items are assumed to have zero bias"
    if s["scorer"] == "known-rating" and s.get("score") == "indicator":
        return "UAny"                 # indicator mode: 0 for items absent from the user's list, nothing when there is no list
    return "UMissing"


def c_obs(o):
    sc = o["scores"] if o["scores"] is not None else [None] * len(o["ids"])
    return clist(list(zip(o["ids"], sc)), lambda p: f"({cz(p[0])}, {copt(None if p[1] is None else fparse(p[1]), cq)})")


def c_hist(snap):
    """the (item, rating) pairs of a query snapshot as an `option hist`"""
    h = snap.get("history")
    if h is None:
        return "None"
    r = h["fields"].get("rating", [None] * len(h["ids"]))
    r = list(r) + [None] * (len(h["ids"]) - len(r))
    return "(Some " + clist(list(zip(h["ids"], r)), lambda p: f"({cz(p[0])}, {copt(None if p[1] is None else fparse(p[1]), cq)})") + ")"


def rest_kept(supplied, o):
    """everything of the caller's inputs that is compared outside Coq (see Model/C04_scatter.v, `kept_ok`)"""
    a = o["query_after"]
    if "unreadable" in a or "unreadable" in o["cand_after"] or o["cand_after"] != o["cand_before"] or o["cand_after"]["scored"]:
        return False
    hs, ha = supplied.get("history"), a.get("history")
    if (hs is None) != (ha is None) or a.get("user") != supplied.get("user") or not a.get("same_history_object", True):
        return False
    if hs is None:
        return True
    strip = lambda h: {k: ({n: v for n, v in h[k].items() if n != "rating"} if k == "fields" else h[k]) for k in h if k != "ids"}
    return strip(hs) == strip(ha) and all(ha["raw_intact"].values()) and len(ha["fields"].get("rating", [])) == len(hs["fields"].get("rating", []))


def c_nums(ns):
    return clist(ns, lambda n: "None" if n is None else f"(Some {int(n)}%nat)")


TAGS = {"own": 0, "cat": 1, "sub": 2}


def c_ilist(built, ids, obs):
    """the identification state of a list built as `built` (Model/C04_repr.v `ilist`); vocabularies as the driver made them"""
    if built == "ids":
        return f"{{| il_ids := Some {clist(ids, cz)}; il_nums := None; il_vocab := None |}}"
    which, how = built.split("-")
    keys = obs["items"] if which == "own" else obs["vocab"][which]
    pos = {i: k for k, i in enumerate(keys)}
    cids = f"Some {clist(ids, cz)}" if how in ("ids", "both") else "None"
    cnums = f"Some {c_nums([pos.get(i) for i in ids])}" if how in ("nums", "both") else "None"
    return f"{{| il_ids := {cids}; il_nums := {cnums}; il_vocab := Some {{| v_tag := {TAGS[which]}; v_keys := {clist(keys, cz)} |}} |}}"


def c_resolves(obs, built, journey, ids, resolved):
    if isinstance(resolved, dict):
        return "false"
    own = f"{{| v_tag := 0; v_keys := {clist(obs['items'], cz)} |}}"
    return f"resolves_ok foreign_rule_in_source {own} {c_ilist(built, ids, obs)} {clist(journey, lambda m: '(' + m + ')')} {c_nums(resolved)}"


def coq_term(case, obs):
    if obs.get("train_error"):
        return None
    vocab = clist(obs["items"], cz)
    parts = []
    for q, c in zip(case["queries"], obs["calls"]):
        # what each list handed to the scorer resolves to in the dataset vocabulary: the model's numbers_in after the same journey
        for k, kids in (("base", q["items"]), ("half_a", q["items"][: q["split"]])):
            if "built" in c[k]:
                parts.append(c_resolves(obs, c[k]["built"], c[k]["journey"], kids, c[k]["resolved"]))
        if c.get("hist_resolved") is not None and q["history"] is not None:
            parts.append(c_resolves(obs, c["hist_built"], c["hist_journey"], [h[0] for h in q["history"]], c["hist_resolved"]))
        if any(o["error"] or o.get("type") != "ItemList" or (o["scores"] is None and o["ids"]) for _, o in sequence(c) + [("fresh", c["fresh"])]):
            parts.append("false")
            continue
        ids = q["items"]
        perm = [ids[j] for j in q["perm"]]
        h = q["split"]
        rec = (f"{{| c_cands := {clist(ids, cz)}; c_perm := {clist(perm, cz)}; c_half_a := {clist(ids[:h], cz)}; c_half_b := {clist(ids[h:], cz)}; "
               f"c_base := {c_obs(c['base'])}; c_repeat := {c_obs(c['repeat'])}; c_permuted := {c_obs(c['perm'])}; "
               f"c_a := {c_obs(c['half_a'])}; c_b := {c_obs(c['half_b'])}; c_again := {c_obs(c['again'])}; c_fresh := {c_obs(c['fresh'])} |}}")
        parts.append(f"call_kept_ok tol_meta {unknown_policy(case)} {vocab} {rec} {c_hist(c['supplied'])} "
                     + clist([o for _, o in sequence(c)], lambda o: f"({c_hist(o['query_after'])}, {'true' if rest_kept(c['supplied'], o) else 'false'})"))
        if c.get("singles"):
            parts.append(f"singles_ok tol_meta {c_obs(c['base'])} {clist([ids[j] for j in q['singles']], cz)} {clist(c['singles'], c_obs)}")
    return "(" + ")\n && (".join(parts) + ")" if parts else "true"


# ---------------------------------------------------------------------------------------------
# the property as a predicate on implementation output (independent of the Coq model)
# ---------------------------------------------------------------------------------------------


def describe(case, q):
    s = case["scorer"]
    return f"{s['scorer']} {dict((k, v) for k, v in s.items() if k != 'scorer')} user={q['user']} history={q['history']}" + (
        "" if q["history"] is None else f" as {q.get('hist_form', 'f32')}")


def inputs_kept(name, case, q, c):
    """the query handed to the six calls is, after every one of them, what the caller supplied"""
    v = []
    form = q.get("hist_form", "f32")
    sup = c["supplied"]
    want_user = q["user"] if not (q.get("form") == "list" and q["user"] is None and q["history"] is not None) else None
    hs = sup.get("history")
    if q["history"] is None:
        if hs is not None or sup.get("user") != want_user:
            v.append((f"{name}:query-not-as-constructed", f"{describe(case, q)}: the query object reads {sup}"))
    else:
        want = {"ids": [h[0] for h in q["history"]], "rating": [h[1] for h in q["history"]]}
        got = None if hs is None else {"ids": hs["ids"], "rating": hs["fields"].get("rating", [])}
        if got != want or sup.get("user") != want_user or hs["len"] != len(q["history"]):
            v.append((f"{name}:history-not-as-constructed:{form}", f"{describe(case, q)}: a history built from {want} ({form}) reads {sup}"))
    labels = [k for k, _ in sequence(c)]
    for n, (k, o) in enumerate(sequence(c)):
        a = o["query_after"]
        where = f"after the {k} call (calls so far on this query object: {', '.join(labels[: n + 1])})"
        if "unreadable" in a:
            v.append((f"{name}:history-modified:{form}", f"{describe(case, q)}: the query cannot be read back {where}: {a['unreadable']}"))
            break
        if a.get("user") != sup.get("user") or not a.get("same_history_object", True) or (a.get("history") is None) != (hs is None):
            v.append((f"{name}:query-modified", f"{describe(case, q)}: the caller's query object was altered {where}: user {sup.get('user')} -> {a.get('user')}, "
                      f"history object replaced: {not a.get('same_history_object', True)}"))
            break
        ha = a.get("history")
        if ha is not None and ha != hs:
            diffs = []
            if ha["ids"] != hs["ids"] or ha["len"] != hs["len"] or ha["ordered"] != hs["ordered"]:
                diffs.append(f"items {hs['ids']} -> {ha['ids']}")
            for n in sorted(set(hs["fields"]) | set(ha["fields"])):
                if hs["fields"].get(n) != ha["fields"].get(n) or hs["dtypes"].get(n) != ha["dtypes"].get(n):
                    show = lambda d, t: None if d.get(n) is None else ([None if x is None else float(fparse(x)) for x in d[n]], t.get(n))
                    diffs.append(f"field {n} {show(hs['fields'], hs['dtypes'])} -> {show(ha['fields'], ha['dtypes'])}")
            diffs += [f"the supplied {n} array was written to" for n, ok in ha["raw_intact"].items() if not ok]
            v.append((f"{name}:history-modified:{form}", f"{describe(case, q)}: the caller's history was altered {where}: " + "; ".join(diffs)))
            break
    return v


def travel_tag(journey):
    tags = {"STransport TPickle": "pickled", "STransport TFrame": "frame", "STransport TArrowIds": "arrow", "STransport TArrowNums": "arrow-nums"}
    last = [tags[m] for m in journey if m in tags]
    return last[-1] if last else ("copied" if "STransport TCopy" in journey else "as-built")


def how(built, journey):
    steps = [m.split()[-1] for m in journey]
    return f"built as {built}" + (f", then {' -> '.join(steps)}" if steps else "")


def oracle(case, obs):
    v = []
    name = case["scorer"]["scorer"]
    if obs.get("train_error"):
        return [(f"{name}:train-error:{obs['train_error']}", f"training raised {obs['train_error']}: {obs.get('msg')}")]
    known = set(obs["items"])
    number = {i: k for k, i in enumerate(obs["items"])}
    pol = unknown_policy(case)
    for q, c in zip(case["queries"], obs["calls"]):
        ids = q["items"]
        expect = {"base": ids, "repeat": ids, "again": ids, "perm": [ids[j] for j in q["perm"]],
                  "half_a": ids[: q["split"]], "half_b": ids[q["split"]:], "fresh": ids}
        expect.update({f"single-{n}": [ids[j]] for n, j in enumerate(q.get("singles", []))})
        every = dict(sequence(c) + [("fresh", c["fresh"])])
        bad = False
        # every list handed to the scorer resolves, in the dataset vocabulary, to the numbers of ITS identifiers -- however it was
        # built and whatever round trips it made
        hb, hj = c.get("hist_built", "ids"), c.get("hist_journey", [])
        if q["history"] is not None and c.get("hist_resolved") is not None:
            want = [number.get(h[0]) for h in q["history"]]
            if c["hist_resolved"] != want:
                v.append((f"itemlist:resolves-other-items:history:{travel_tag(hj)}",
                          f"a history list of items {[h[0] for h in q['history']]} ({how(hb, hj)}) resolves in the vocabulary {obs['items']} to the numbers "
                          f"{c['hist_resolved']}; its identifiers have the numbers {want}"))
        for k, o in every.items():
            cb, cj = o.get("built", "ids"), o.get("journey", [])
            if "resolved" in o and o["resolved"] != [number.get(i) for i in expect[k]]:
                v.append((f"itemlist:resolves-other-items:candidates:{travel_tag(cj)}",
                          f"a candidate list of items {expect[k]} ({how(cb, cj)}) resolves in the vocabulary {obs['items']} to the numbers "
                          f"{o['resolved']}; its identifiers have the numbers {[number.get(i) for i in expect[k]]}"))
            if "unreadable" not in o["cand_before"] and o["cand_before"]["ids"] != expect[k]:
                v.append((f"{name}:candidates-not-as-constructed:{travel_tag(cj)}",
                          f"{describe(case, q)}: a candidate list of items {expect[k]} ({how(cb, cj)}) reads {o['cand_before']} before the call"))
            if o["error"]:
                v.append((f"{name}:raised:{o['error']}", f"{describe(case, q)} items={expect[k]}: raised {o['error']} ({o['msg']})"))
                bad = True
                continue
            if o.get("type") != "ItemList":
                v.append((f"{name}:not-an-item-list", f"{describe(case, q)}: returned {o.get('type')}"))
                bad = True
                continue
            if o["ids"] != expect[k] or o["len"] != len(expect[k]):
                v.append((f"{name}:alignment", f"{describe(case, q)}: result items {o['ids']} are not the input items {expect[k]}"))
                bad = True
            if o["scores"] is None and expect[k]:
                v.append((f"{name}:no-scores", f"{describe(case, q)}: result carries no score field"))
                bad = True
            elif o["scores"] is not None and len(o["scores"]) != len(expect[k]):
                v.append((f"{name}:score-count", f"{describe(case, q)}: {len(o['scores'])} scores for {len(expect[k])} items"))
                bad = True
            if "unreadable" in o["cand_after"] or o["cand_after"] != o["cand_before"] or o["cand_after"]["scored"] or o["cand_after"]["ids"] != expect[k]:
                v.append((f"{name}:input-modified", f"{describe(case, q)}: the caller's candidate list was modified by the {k} call: "
                          f"{o['cand_before']} -> {o['cand_after']}"))
        v.extend(inputs_kept(name, case, q, c))
        if bad:
            continue
        b = c["base"]
        if q.get("extra"):
            want_p = [fjson(Fraction(i % 7) + Fraction(1, 2)) for i in ids]
            want_t = [i * 3 for i in ids]
            for k in ("base", "repeat"):
                if c[k].get("price") != want_p or c[k].get("tag") != want_t:
                    v.append((f"{name}:fields-lost", f"{describe(case, q)}: extra fields of the candidate list not preserved (price {c[k].get('price')}, tag {c[k].get('tag')})"))
        if bool(q.get("ordered")) != b["ordered"]:
            v.append((f"{name}:ordered-flag", f"{describe(case, q)}: ordered flag {b['ordered']} differs from the input's {q.get('ordered')}"))
        base = dict(zip(b["ids"], b["scores"] or []))
        for i, s in base.items():
            if i not in known:
                if pol == "UMissing" and s is not None:
                    v.append((f"{name}:unknown-item-scored", f"{describe(case, q)}: unknown item {i} received score {float(fparse(s))}"))
                if pol == "UBaseline" and s is None:
                    v.append((f"{name}:unknown-item-no-baseline", f"{describe(case, q)}: unknown item {i} received no baseline score"))
        cb, cj = b.get("built", "ids"), b.get("journey", [])
        show = lambda sc: [None if x is None else float(fparse(x)) for x in sc]
        if c["repeat"]["scores"] != b["scores"]:
            v.append((f"{name}:repeat-differs", f"{describe(case, q)}: calling again (repeat) returned different scores: {c['repeat']['scores']} vs {b['scores']}"))
        elif c["again"]["scores"] != b["scores"] and (cb != "ids" or cj):
            # same query object, same items in the same order: the base call got the list in another representation
            v.append((f"{name}:depends-on-representation:candidates",
                      f"{describe(case, q)}: the candidate list {ids} {how(cb, cj)} is scored {show(b['scores'])} (twice), the same items given plainly by "
                      f"identifier {show(c['again']['scores'])}"))
        elif c["again"]["scores"] != b["scores"]:
            v.append((f"{name}:repeat-differs", f"{describe(case, q)}: calling again (again) returned different scores: {c['again']['scores']} vs {b['scores']}"))
        if c["fresh"]["scores"] != c["again"]["scores"]:
            hb, hj = c.get("hist_built", "ids"), c.get("hist_journey", [])
            if q["history"] is not None and (hb != "ids" or hj):
                v.append((f"{name}:depends-on-representation:history",
                          f"{describe(case, q)}: with the history {how(hb, hj)} the items {ids} are scored {show(c['again']['scores'])}, with the same history "
                          f"given plainly by identifier {show(c['fresh']['scores'])}"))
            else:
                v.append((f"{name}:fresh-query-differs", f"{describe(case, q)}: a fresh query object of the same content is scored {show(c['fresh']['scores'])} "
                          f"on the items {ids}, the query object used for the earlier calls {show(c['again']['scores'])}"))
        num = lambda x: None if x is None else float(fparse(x))
        for k, o in [(k, every[k]) for k in ("perm", "half_a", "half_b")] + [("single", o) for o in c.get("singles", [])]:
            for i, s in zip(o["ids"], o["scores"] or []):
                w = base[i]
                if (s is None) != (w is None) or (s is not None and not close(fparse(s), fparse(w))):
                    v.append((f"{name}:depends-on-companions:{k}", f"{describe(case, q)}: item {i} scored {num(s)} in the {k} list {o['ids']} but {num(w)} "
                              f"in the full list {ids}"))
                    break
    seen, out = set(), []
    for k, w in v:
        if k not in seen:
            seen.add(k)
            out.append((k, w))
    return out


def nontrivial(case, obs):
    if obs.get("train_error"):
        return False
    known = set(obs["items"])
    finite = any(not c["base"]["error"] and c["base"].get("scores") and sum(1 for s in c["base"]["scores"] if s is not None) >= 2 for c in obs["calls"])
    unknown = any(any(i not in known for i in q["items"]) or q["user"] == 999 or any(h[0] not in known for h in (q["history"] or []))
                  for q in case["queries"])
    return finite and unknown


def counters(case, obs):
    s = case["scorer"]
    yield "scorer=" + s["scorer"]
    yield "ids=" + case.get("ids", "int")
    for k in ("feedback", "user_embeddings", "score", "source", "loss", "block_size", "batch_size", "n_iter", "negative_count"):
        if k in s:
            yield f"{s['scorer']}.{k}={s[k]}"
    yield "profiles=" + case.get("profiles", "random")
    yield "dataset=" + ("larger (8-20 users)" if len(case["users"]) >= 10 else "small")
    # a training rating equal to its user's mean (centred value exactly 0), in single precision as the scorers compute it
    byu = {}
    for r in case["ratings"]:
        byu.setdefault(r[0], []).append(fparse(r[2]))
    if any(sum(v) / len(v) in v and len(set(v)) > 1 for v in byu.values()):
        yield "training-rating-equals-user-mean"
    if any(len(set(v)) == 1 and len(v) > 1 for v in byu.values()):
        yield "training-user-with-constant-ratings"
    if obs.get("train_error"):
        yield "train-error"
        return
    known = set(obs["items"])
    for q, c in zip(case["queries"], obs["calls"]):
        yield "query=" + ("id" if q["user"] is not None else "noid") + "+" + ("history" if q["history"] is not None else "nohistory")
        if q["user"] == 999:
            yield "unknown-user"
        if q["history"] and any(h[0] not in known for h in q["history"]):
            yield "history-with-unknown-items"
        if q["history"] == []:
            yield "empty-history"
        if q["history"] is not None:
            yield "history-form=" + q.get("hist_form", "f32")
            if q.get("hist_extra"):
                yield "history-extra-field"
            if q["history"] and all(h[0] in known for h in q["history"]):
                yield "history-all-known=" + q.get("hist_form", "f32")
        if q.get("hist_profile"):
            yield "history-rating-equals-its-mean"
        if c.get("singles"):
            yield "one-item-calls=" + str(len(c["singles"]))
            if any(not o["error"] and o.get("scores") and o["scores"][0] is not None for o in c["singles"]):
                yield "one-item-call-with-a-score"
        if "batch_size" in s and sum(1 for i in q["items"] if i in known) > s["batch_size"] and any(i not in known for i in q["items"]):
            yield "more-known-candidates-than-batch_size+unknown-item"
        if not q["items"]:
            yield "empty-candidate-list"
        if any(i not in known for i in q["items"]):
            yield "candidates-with-unknown-items"
        if q.get("extra"):
            yield "extra-fields"
        if q.get("by_number") and q["items"]:
            yield "candidates-by-number"
        b = c["base"]
        yield "candidates-built=" + b.get("built", "ids")
        yield "candidates-arrive=" + travel_tag(b.get("journey", []))
        if q["history"]:
            yield "history-built=" + c.get("hist_built", "ids")
            yield "history-arrives=" + travel_tag(c.get("hist_journey", []))
        for kind, bb, jj, ii in (("candidates", b.get("built", "ids"), b.get("journey", []), q["items"]),
                                 ("history", c.get("hist_built", "ids"), c.get("hist_journey", []), [h[0] for h in q["history"] or []])):
            # the state the lead's seeded change C04-6 needs: numbers of ANOTHER numbering travelling without their vocabulary
            if ii and bb.split("-")[0] in ("cat", "sub") and travel_tag(jj) in ("pickled", "frame", "arrow-nums"):
                yield kind + "-foreign-numbers-without-vocabulary"
        b = c["base"]
        if not b["error"] and b.get("scores"):
            yield "scored-items=" + str(min(5, sum(1 for x in b["scores"] if x is not None)))


def sample(case, obs):
    q = case["queries"][0]
    o = None if obs.get("train_error") else {k: (obs["calls"][0][k].get("scores"), obs["calls"][0][k].get("error")) for k in ("base", "perm")}
    return {"case": {"scorer": case["scorer"], "n_users": len(case["users"]), "n_items": len(case["items"]), "n_ratings": len(case["ratings"]),
                     "first_query": q}, "observation": o}


SHRINK_CAP = 5
_SHRUNK: dict = {}


def shrink(case, fails):
    try:
        keys = tuple(sorted({k for k, _ in oracle(case, run_impl(case))}))
    except Exception:
        keys = ("?",)
    if keys in _SHRUNK or len(_SHRUNK) >= SHRINK_CAP:        # one shrink per set of keys, at most SHRINK_CAP per run
        return case
    _SHRUNK[keys] = 1
    c = dict(case)
    c["queries"] = common.shrink_list(case["queries"], lambda xs: bool(xs) and fails({**c, "queries": xs}), 12)
    c["ratings"] = common.shrink_list(case["ratings"], lambda xs: len(xs) >= 2 and fails({**c, "ratings": xs}), 30)
    return c
