"""C19 -- random selection and stochastic ranking give valid samples at configured odds (DESIGN.md section 4, C19)."""

from __future__ import annotations

import math
from fractions import Fraction

import common
from common import cbool, clist, cnat, copt, cq, cz, fjson, fparse, frac_of_float
from framework import TranslateError  # noqa: F401

PID = "C19"
PROPS_FILE = "Props/C19.v"
GEN_FILES = ["Gen/C19_len.v", "Gen/C03_len.v"]
MODEL_FILES = ["Model/C19_select.v", "Model/C19_seed.v"]
ALLOWED_AXIOMS = [        # Print Assumptions prints the short path, coqchk the full one
    r"(Coq\.Reals\.)?ClassicalDedekindReals\.sig_forall_dec",
    r"(Coq\.Reals\.)?ClassicalDedekindReals\.sig_not_dec",
    r"(Coq\.Logic\.)?FunctionalExtensionality\.functional_extensionality_dep",
    r"(Coq\.Logic\.)?Classical_Prop\.classic",
]
CASE_HEADER = ("From Coq Require Import ZArith QArith.\n"
               "From LK Require Import Lib.QLib Lib.PyInt Lib.TopN Gen.C03_len Gen.C19_len Model.C19_select.\nOpen Scope Z_scope.")
TRUSTED = [
    "Coq 8.16.1 kernel + vm_compute (no native_compute); Print Assumptions: closed under the global context for every structural theorem, "
    "uniform_symmetric and linear_weights_prob; key_tail and first_pick_probability_partial (Coquelicot, classical reals) depend on the "
    "standard-library axioms ClassicalDedekindReals.sig_forall_dec, ClassicalDedekindReals.sig_not_dec, "
    "FunctionalExtensionality.functional_extensionality_dep, Classical_Prop.classic (allowed, listed in ALLOWED_AXIOMS)",
    "translators harness/translate/c19.py + c03.py: Python ast -> Gallina for the length resolution of RandomSelector / SoftmaxRanker / "
    "StochasticTopNRanker, their eligibility masks, the key rule log(uniform)/max(weight, tiny) (matched textually), argtopn's branch structure, "
    "every use each __call__ makes of its generator (one rng.choice(len(items), n, replace=False) / one rng.uniform(0, 1, N)), and the text of "
    "lenskit/random.py's _bytes_seed, make_seed, DerivingRNG, FixedRNG.__call__ and derivable_rng (user-derived seeds)",
    "seed derivation (not verified): numpy.random.SeedSequence gives independent streams for different (entropy, spawn key) pairs; MD5 is not "
    "modelled -- theorem derived_streams states that str / bytes / UUID users get different streams exactly when the digest separates their bytes, "
    "and the frequency exercise counts users of look-alike id families that were handed the same list",
    "generator contract (not verified): rng.choice(N, m, replace=False) returns m distinct positions below N; rng.uniform(0,1,N) returns N reals "
    "in [0,1) -- the theorems quantify over every such outcome; the distribution statements assume an ideal generator (all permutations equally "
    "likely, independent uniform draws); NumPy's PCG64 is not modelled",
    "correspondence harness: a recording subclass of numpy.random.Generator wrapped around the component's own generator; the sort keys are "
    "recomputed by the harness in float64 from the recorded uniform draws and its own re-implementation of the weight transforms, then compared "
    "inside Coq (weights against the rational model within 2^-40, the implementation's output against top-n of those keys, exactly)",
]
ASSUMPTIONS = [
    "candidate lists have distinct item identifiers",
    "a configured length of 0 is treated as outside the claim (the code reads it as 'unlimited', like C03)",
    "a negative run-time length is unspecified by the property when a positive length is configured (the rankers fall back to the configured one, the selector returns everything); the model follows the code, the oracle accepts either",
    "scale factors between -2 and 1000, including 0 and 2^-20 (scaled scores stay finite in float64)",
]
RULE = ("structured generator: lists of 0-15 items with distinct ids, a second field, scores that are float32-exact quarter steps with blocks of "
        "equal / zero / negative values, NaN, +-inf, very large (2^100, 2^127) and very small magnitudes, empty and all-missing lists; component "
        "RandomSelector / SoftmaxRanker / StochasticTopNRanker (softmax, linear, raw) with scale in {-2,-1/2,0,2^-20,1/4,1/2,1,2,10,1000}, plus a fixed grid of "
        "every transform x every scale on each run; configured and run-time n in "
        "{None, -1, 1..20} (+ run-time 0); integer seeds and (seed, 'user') derived seeds with and without a query user; malformed stream: rankers on "
        "a list without scores.  Distribution exercise (extra): 76 frequency tables, each a SEQUENCE of calls on one component -- uniform selection and "
        "the rankers with fixed and (seed,'user')-derived seeds, anonymous queries, a few identified users, a new user on every call (identified users "
        "re-asked afterwards must get the same sample), every transform with negative / zero / tiny / unit / large scale.  non-trivial = at least 3 eligible items, a non-empty output shorter than the eligible count or a ranker output of "
        "length >= 2; distinct = by hash of the case")

TINY_F4 = Fraction(1, 2 ** 126)
# scale factors: negative, zero, tiny, moderate, large
SCALES = [Fraction(-2), Fraction(-1, 2), Fraction(0), Fraction(1, 2 ** 20), Fraction(1, 4), Fraction(1, 2), Fraction(1), Fraction(2), Fraction(10), Fraction(1000)]


def translate():
    from translate import c19 as t
    from translate.pyq import TranslateError as TE
    try:
        return t.translate(common.SRC)
    except TE as e:
        raise TranslateError(str(e))


# ---------------------------------------------------------------------------------------------
# generator
# ---------------------------------------------------------------------------------------------


def gen_n(rng):
    return rng.weighted([(None, 5), (-1, 3), (1, 2), (2, 3), (3, 3), (5, 2), (8, 2), (12, 1), (20, 1), (rng.randint(1, 20), 3)])


def gen_score(rng, style):
    if style == "clean":
        return fjson(Fraction(rng.randint(-8, 24), 4))
    if style == "equal":
        return fjson(Fraction(rng.choice([0, 2, 2, 2, -3]), 1))
    k = rng.weighted([("num", 10), ("nan", 3), ("inf", 1), ("-inf", 1), ("zero", 1), ("big", 1), ("huge", 1), ("small", 1), ("negbig", 1)])
    if k == "num":
        return fjson(Fraction(rng.randint(-8, 24), 4))
    if k in ("nan", "inf", "-inf"):
        return k
    return fjson({"zero": Fraction(0), "big": Fraction(2 ** 100), "huge": Fraction(2 ** 127), "small": Fraction(1, 2 ** 100),
                  "negbig": Fraction(-(2 ** 100))}[k])


def gen_user(rng):
    """the query of a single call: anonymous, an integer user, or a string / bytes / UUID user id (JSON-able spec, see mk_query)"""
    k = rng.weighted([("none", 3), ("int", 4), ("str", 2), ("bytes", 1), ("uuid", 1)])
    if k == "none":
        return None
    if k == "int":
        return rng.choice([0, 3, 17, 42, 2 ** 40 + 1])
    return user_id_spec({"type": k, "style": rng.choice(["dec", "pad", "hex"] if k != "uuid" else ["time", "text"]),
                         "prefix": rng.choice(["user", "u-", "alice.", ""])}, rng.randint(0, 2500))


def user_id_spec(fam, k):
    """the k-th member of a family of look-alike user ids (common prefix + running number; UUIDs: successive
    time stamps of one node, or the 16 characters of a padded text id)"""
    t, style, prefix = fam["type"], fam["style"], fam.get("prefix", "user")
    if t == "uuid":
        if style == "time":
            import uuid
            return {"uuid": uuid.UUID(fields=((0x5F3A0000 + 10007 * k) & 0xFFFFFFFF, 0x1C2D, 0x11EE, 0x9A, 0x3B, 0x0242AC120002)).hex}
        return {"uuid": (prefix + "0" * 16)[:4].encode("latin1").hex() + ("%012d" % k).encode("latin1").hex()}
    text = {"dec": f"{prefix}{k}", "pad": f"{prefix}{k:06d}", "hex": f"{prefix}{k:x}"}[style]
    return {t: text}


def mk_query(u):
    """query input of a call from its JSON-able spec"""
    if u is None or isinstance(u, int):
        return u
    if "str" in u:
        return u["str"]
    if "bytes" in u:
        return u["bytes"].encode("latin1")
    import uuid
    return L.RecQuery(user_id=uuid.UUID(hex=u["uuid"]))


def user_label(u):
    if u is None or isinstance(u, int):
        return repr(u)
    if "str" in u:
        return repr(u["str"])
    if "bytes" in u:
        return "b" + repr(u["bytes"])
    return "UUID(%s)" % u["uuid"]


def gen_case(rng, malformed=False):
    comp = rng.weighted([("random", 3), ("softmax", 2), ("stochastic", 6)])
    ni = rng.weighted([(0, 1), (1, 1), (2, 1), (3, 2), (5, 3), (8, 3), (12, 2), (15, 1)])
    ids = rng.sample(list(range(1, 60)), ni)
    style = rng.weighted([("clean", 4), ("wild", 5), ("equal", 1), ("allnan", 1)])
    items = []
    for i in ids:
        s = "nan" if style == "allnan" else gen_score(rng, style)
        items.append([i, s, rng.randint(0, 9)])
    c = {
        "comp": comp, "cfg_n": gen_n(rng), "run_n": gen_n(rng) if not rng.chance(1, 25) else 0,
        "rng": {"seed": rng.below(2 ** 31), "user": rng.chance(1, 3)},
        "user": gen_user(rng),
        "transform": rng.choice(["softmax", "linear", None]) if comp == "stochastic" else None,
        "scale": fjson(rng.choice(SCALES + [Fraction(1), Fraction(1)])) if comp == "stochastic" else "1/1",
        "items": items, "scores": True, "style": style,
    }
    if malformed and comp != "random":
        c["scores"] = False
        c["style"] = "malformed"
    return c


def gen_cases(rng, tier):
    n = 560 if tier == "quick" else 5000
    out = [gen_case(rng.fork(k), malformed=(k % 25 == 24)) for k in range(n)]
    # a fixed grid on every run: each transform with each scale factor (negative, zero, tiny, ..., large)
    k = 0
    for rep_ in range(1 if tier == "quick" else 4):
        for tr in ("softmax", "linear", None):
            for sc in SCALES:
                c = gen_case(rng.fork(f"grid{k}"))
                k += 1
                ni = rng.fork(f"gridn{k}").randint(3, 9)
                r2 = rng.fork(f"gridi{k}")
                c.update(comp="stochastic", transform=tr, scale=fjson(sc), scores=True, style="grid",
                         items=[[i, fjson(Fraction(r2.randint(-8, 24), 4)), r2.randint(0, 9)] for i in r2.sample(list(range(1, 60)), ni)])
                out.append(c)
    return out


# ---------------------------------------------------------------------------------------------
# implementation driver
# ---------------------------------------------------------------------------------------------

_ready = False


def _setup():
    global _ready, np, L, RecGen
    if _ready:
        return
    common.use_repo()
    import types

    import numpy as np
    import structlog
    structlog.configure(wrapper_class=structlog.make_filtering_bound_logger(50), logger_factory=structlog.ReturnLoggerFactory())
    from lenskit.basic.random import RandomSelector, SoftmaxRanker
    from lenskit.data import ItemList, RecQuery
    from lenskit.stochastic import StochasticTopNRanker

    class RecGen(np.random.Generator):
        """numpy Generator that records the draws the components ask for (same bit stream)."""

        def __init__(self, bitgen):
            super().__init__(bitgen)
            self.calls = []

        def choice(self, a, size=None, replace=True, p=None, axis=0, shuffle=True):
            r = super().choice(a, size, replace, p, axis, shuffle)
            self.calls.append({"fn": "choice", "a": a if isinstance(a, int) else None, "size": size, "replace": bool(replace),
                               "p": p is not None, "result": np.asarray(r).tolist()})
            return r

        def uniform(self, low=0.0, high=1.0, size=None):
            r = super().uniform(low, high, size)
            self.calls.append({"fn": "uniform", "low": low, "high": high, "size": size, "result": np.asarray(r).tolist()})
            return r

    L = types.SimpleNamespace(**{k: v for k, v in locals().items() if k not in ("types",)})
    _ready = True


def sval(s):
    if s == "nan":
        return float("nan")
    if s == "inf":
        return float("inf")
    if s == "-inf":
        return float("-inf")
    return float(fparse(s))


def srepr(x):
    x = float(x)
    if math.isnan(x):
        return "nan"
    if math.isinf(x):
        return "inf" if x > 0 else "-inf"
    return fjson(Fraction(x))


def make_component(case, record=True):
    _setup()
    spec = case["rng"]["seed"] if not case["rng"]["user"] else (case["rng"]["seed"], "user")
    if case["rng"]["user"] and case["rng"]["seed"] is None:
        spec = "user"                       # derived from fresh entropy (frequency exercise only)
    if case["comp"] == "random":
        comp = L.RandomSelector(n=case["cfg_n"], rng=spec)
    elif case["comp"] == "softmax":
        comp = L.SoftmaxRanker(n=case["cfg_n"], rng=spec)
    else:
        comp = L.StochasticTopNRanker(n=case["cfg_n"], rng=spec, transform=case["transform"], scale=float(fparse(case["scale"])))
    gens = []
    if record:
        orig = comp._rng_factory

        def factory(query, _orig=orig):
            g = RecGen(_orig(query).bit_generator)
            gens.append(g)
            return g

        comp._rng_factory = factory
    return comp, gens


def make_items(case):
    ids = [r[0] for r in case["items"]]
    kw = {"rating": np.array([float(r[2]) for r in case["items"]], dtype=np.float64)}
    if case["scores"]:
        kw["scores"] = np.array([sval(r[1]) for r in case["items"]], dtype=np.float64)
    return L.ItemList(item_ids=np.array(ids, dtype=np.int64), **kw)


def harness_weights(case, valid_scores):
    """float64 re-implementation of the documented transforms (independent of the component)."""
    scale = float(fparse(case["scale"]))
    if case["comp"] == "softmax":
        return list(valid_scores), float(np.float32(1.0e-10))
    s = [x * scale for x in valid_scores]
    tiny = float(TINY_F4)
    t = case["transform"]
    if t is None:
        return s, tiny
    if t == "softmax":
        m = max(s)
        e = [math.exp(x - m) for x in s]
        tot = math.fsum(e)
        return [x / tot for x in e], tiny
    lb, ub = min(s), max(s)
    r = ub - lb
    w = None
    if r > 0:
        s2 = [(x - lb) / r for x in s]
        tot = math.fsum(s2)
        if tot > 0:
            w = [x / tot for x in s2]
    if w is None:
        w = [1.0 / len(s)] * len(s)
    return w, tiny


def run_impl(case):
    _setup()
    if case.get("freq"):
        return _freq_counts(case)
    comp, gens = make_component(case)
    il = make_items(case)
    obs = {"error": None}
    try:
        out = comp(items=il, query=mk_query(case["user"]), n=case["run_n"])
    except ValueError as e:
        obs["error"] = "EValue:" + str(e)[:60]
        return obs
    except Exception as e:  # noqa: BLE001
        obs["error"] = f"E:{type(e).__name__}:{str(e)[:80]}"
        return obs
    ids = [int(x) for x in out.ids()]
    sc = out.scores()
    rt = out.field("rating")
    obs["out"] = [[i, None if sc is None else srepr(sc[k]), None if rt is None else int(rt[k])] for k, i in enumerate(ids)]
    obs["ordered"] = bool(out.ordered)
    obs["calls"] = [c for g in gens for c in g.calls]
    obs["n_generators"] = len(gens)
    if case["comp"] != "random" and case["scores"]:
        # what the ranker saw: float32 scores
        seen = [float(x) for x in il.scores()]
        vpos = [k for k, x in enumerate(seen) if math.isfinite(x)]
        obs["finite_pos"] = vpos
        u = [c for c in obs["calls"] if c["fn"] == "uniform"]
        if len(u) == 1 and isinstance(u[0]["result"], list):
            # eligible positions as the component sees them = as many as it drew; recompute keys for
            # the finite-score positions when the counts agree, else for the not-NaN positions
            cand = vpos if len(u[0]["result"]) == len(vpos) else [k for k, x in enumerate(seen) if not math.isnan(x)]
            obs["key_pos"] = cand
            if len(cand) == len(u[0]["result"]) and all(math.isfinite(seen[k]) for k in cand):
                w, tiny = harness_weights(case, [seen[k] for k in cand])
                if all(math.isfinite(x) for x in w):
                    obs["weights"] = [fjson(Fraction(x)) for x in w]
                    keys = [math.log(uu) / max(ww, tiny) if uu > 0 else -math.inf for uu, ww in zip(u[0]["result"], w)]
                    if all(math.isfinite(k) for k in keys):
                        obs["keys"] = [fjson(Fraction(k)) for k in keys]
                    obs["tiny"] = fjson(Fraction(tiny))
    return obs


# ---------------------------------------------------------------------------------------------
# model side
# ---------------------------------------------------------------------------------------------


def c_fscore(s):
    if s == "nan":
        return "SNan"
    if s == "inf":
        return "SPInf"
    if s == "-inf":
        return "SNInf"
    return f"(SNum {cq(fparse(s))})"


def c_row(r):
    return f"({cz(r[0])}, {c_fscore(r[1])}, {cz(r[2])})"


def f32(s):
    """a score as the item list stores it (float32)"""
    import struct
    if s in ("nan", "inf", "-inf"):
        return s
    x = struct.unpack("f", struct.pack("f", float(fparse(s))))[0]
    return srepr(x)


def c_pyv(n):
    return copt(n, cz)


def coq_term(case, obs):
    if obs["error"] or not case["scores"] or case.get("freq"):
        return None
    items = clist([[r[0], f32(r[1]), r[2]] for r in case["items"]], c_row)
    if any(r[1] is None or r[2] is None for r in obs["out"]):
        return "false"                                           # a field was dropped
    out = clist(obs["out"], c_row)
    n, cfg = c_pyv(case["run_n"]), c_pyv(case["cfg_n"])
    calls = obs["calls"]
    if case["comp"] == "random":
        if len(calls) > 1 or any(c["fn"] != "choice" or c["replace"] or c["p"] or c["a"] is None for c in calls):
            return "false"
        call = "None" if not calls else f"(Some ({cz(calls[0]['a'])}, {cz(calls[0]['size'])}))"
        picked = clist(calls[0]["result"] if calls else [], cnat)
        return f"agree_random {items} {n} {cfg} {call} {picked} {out} {cbool(obs['ordered'])}"
    if len(calls) > 1 or any(c["fn"] != "uniform" or c["low"] != 0 or c["high"] != 1 for c in calls):
        return "false"
    which = "softmax" if case["comp"] == "softmax" else "stochastic"
    ucall = "None" if not calls else f"(Some {cz(calls[0]['size'])})"
    if calls and "keys" not in obs:
        # keys not computable by the harness (non-finite weights): structural part only, with dummy keys
        return None
    keys = clist([fparse(k) for k in obs.get("keys", [])], cq)
    t = f"agree_rank {which}_mask {which}_len {items} {n} {cfg} {ucall} {keys} {out} {cbool(obs['ordered'])}"
    if calls and "weights" in obs and case["comp"] == "stochastic":
        w = clist([fparse(x) for x in obs["weights"]], cq)
        sc = cq(fparse(case["scale"]))
        if case["transform"] == "softmax":
            t = f"({t}) && (agree_softmax_shape {sc} {which}_mask {items} {w})"
        else:
            tr = "TLinear" if case["transform"] == "linear" else "TRaw"
            t = f"({t}) && (agree_weights {tr} {sc} {which}_mask {items} {w})"
    return t


# ---------------------------------------------------------------------------------------------
# the property as a predicate on implementation output (independent of the Coq model)
# ---------------------------------------------------------------------------------------------


def eligible_rows(case):
    rows = [[r[0], f32(r[1]), r[2]] for r in case["items"]]
    if case["comp"] == "random":
        return rows
    return [r for r in rows if r[1] not in ("nan", "inf", "-inf")]


def want_lengths(case, n_elig):
    """lengths the property text allows (a set: one value except where the text is silent)."""
    run, cfg = case["run_n"], case["cfg_n"]

    def lim(n):
        return n_elig if n is None or n < 0 else min(n, n_elig)
    if run is not None and run >= 0:
        return {lim(run)}
    if run is None:
        return {lim(cfg)}
    return {lim(cfg), n_elig}          # negative run-time length: configured or unlimited


def oracle(case, obs):
    v = []
    if case.get("freq"):
        return _freq_oracle(case, obs)
    if case["cfg_n"] == 0:
        return v
    if not case["scores"]:
        if case["comp"] != "random" and not (obs["error"] or "").startswith("EValue"):
            v.append(("no-scores-not-raised", "a ranker accepted a list without scores"))
        return v
    if obs["error"]:
        v.append(("error", f"component raised {obs['error']}"))
        return v
    tag = case["comp"] + ("" if case["comp"] != "stochastic" else ":" + str(case["transform"]))
    elig = eligible_rows(case)
    emap = {r[0]: r for r in elig}
    allmap = {r[0]: [r[0], f32(r[1]), r[2]] for r in case["items"]}
    out = obs["out"]
    ids = [r[0] for r in out]
    if len(set(ids)) != len(ids):
        v.append((f"{tag}:duplicate", f"an item was selected twice: {ids}"))
    for kind, bad in (("not-in-input", [i for i in ids if i not in allmap]),
                      ("nan-score", [i for i in ids if i in allmap and i not in emap and allmap[i][1] == "nan"]),
                      ("infinite-score", [i for i in ids if i in allmap and i not in emap and allmap[i][1] in ("inf", "-inf")])):
        if bad:
            v.append((f"{tag}:ineligible:{kind}", f"selected {bad} ({kind}; scores {[allmap.get(i, [None, None])[1] for i in bad]}): not an eligible input"))
    if any(r != allmap.get(r[0]) for r in out):
        v.append((f"{tag}:fields", "a selected item's fields differ from the input's"))
    want = want_lengths(case, len(elig))
    n_inf = sum(1 for r in case["items"] if r[1] in ("inf", "-inf"))
    if len(out) not in want and case["comp"] == "softmax" and n_inf and len(out) in want_lengths(case, len(elig) + n_inf):
        # same root cause as the selection of infinite-score items: they are counted as eligible
        v.append((f"{tag}:ineligible:infinite-score", f"length {len(out)} counts the {n_inf} infinite-score item(s) as eligible (finite: {len(elig)})"))
    elif len(out) not in want:
        v.append((f"{tag}:length", f"length {len(out)}, expected min(n, eligible={len(elig)}) in {sorted(want)} "
                                   f"(configured {case['cfg_n']}, run-time {case['run_n']})"))
    if case["comp"] != "random" and not obs["ordered"]:
        v.append((f"{tag}:not-ordered", "ranker output is not flagged as ordered"))
    if "keys" in obs and not v:
        _check_keys(v, tag, case, obs)
    return v


def _check_keys(v, tag, case, obs):
    """Given the uniform draws the ranker made, its output must be the top-n of log(U)/max(w, tiny) where w is the
    documented transform of scale*score (weights recomputed here, independently of the component)."""
    rows = [[r[0], f32(r[1]), r[2]] for r in case["items"]]
    ids = [rows[k][0] for k in obs["key_pos"]]
    key = dict(zip(ids, [fparse(k) for k in obs["keys"]]))
    out = [r[0] for r in obs["out"]]
    if any(i not in key for i in out):
        return
    ks = [key[i] for i in out]

    def above(a, b):                     # a is above b by more than rounding noise
        return a > b and (a - b) > Fraction(1, 10 ** 9) * max(abs(a), abs(b))
    desc = f"transform {case['transform']}, scale {case['scale']}, seed {case['rng']}, uniform draws {[round(x, 6) for x in obs['calls'][0]['result']]}"
    if any(above(b, a) for a, b in zip(ks, ks[1:])):
        v.append((f"{tag}:keys-order", f"output {out} is not in decreasing order of log(U)/max(weight, tiny) for the documented weights "
                                       f"{[round(float(fparse(w)), 6) for w in obs['weights']]} ({desc})"))
    elif ks:
        low = min(ks)
        better = [i for i in ids if i not in out and above(key[i], low)]
        if better:
            v.append((f"{tag}:keys-topn", f"items {better} have a larger key than a selected item under the documented weights "
                                          f"{[round(float(fparse(w)), 6) for w in obs['weights']]} ({desc})"))


def nontrivial(case, obs):
    if obs["error"] or not case["scores"]:
        return False
    ne = len(eligible_rows(case))
    k = len(obs["out"])
    return ne >= 3 and ((0 < k < ne) or (case["comp"] != "random" and k >= 2))


def counters(case, obs):
    yield "comp=" + case["comp"] + ("" if case["comp"] != "stochastic" else "/" + str(case["transform"]))
    yield "style=" + case["style"]
    yield "seed=" + ("user-derived" if case["rng"]["user"] else "fixed") + ("+user" if case["user"] is not None else "")
    yield "user-id=" + ("none" if case["user"] is None else "int" if isinstance(case["user"], int) else next(iter(case["user"])))
    yield "cfg_n=" + ("None" if case["cfg_n"] is None else "-1" if case["cfg_n"] < 0 else "pos")
    yield "run_n=" + ("None" if case["run_n"] is None else "-1" if case["run_n"] < 0 else "0" if case["run_n"] == 0 else "pos")
    yield "items=" + ("0" if not case["items"] else "1-3" if len(case["items"]) <= 3 else "4+")
    if obs["error"]:
        yield "error=" + obs["error"].split(":")[0]
        return
    ne = len(eligible_rows(case))
    yield "eligible=" + ("none" if ne == 0 else "all" if ne == len(case["items"]) else "some")
    yield "out=" + ("empty" if not obs["out"] else "all-eligible" if len(obs["out"]) == ne else "subset")
    if any(r[1] in ("inf", "-inf") for r in case["items"]):
        yield "has-infinite-score"
    if "keys" in obs:
        yield "keys-recomputed"
    elif case["comp"] != "random" and obs["calls"]:
        yield "keys-not-recomputed"
    if case["comp"] == "stochastic":
        yield "scale=" + case["scale"]


def sample(case, obs):
    return {"case": {k: case[k] for k in ("comp", "cfg_n", "run_n", "transform", "scale", "items")},
            "observation": {k: obs.get(k) for k in ("error", "out", "ordered")}}


_shrunk = set()


def shrink(case, fails):
    if case.get("freq") or len(_shrunk) >= 5:        # at most 5 inputs are minimised per run
        return case
    _shrunk.add(common.digest(case))
    c = dict(case)
    c["items"] = common.shrink_list(case["items"], lambda xs: fails({**c, "items": xs}), 60)
    return c


# ---------------------------------------------------------------------------------------------
# distribution: fixed-seed frequency tables (an exercise, not a proof)
# ---------------------------------------------------------------------------------------------


def _seq_user(f, k):
    """the query of the k-th call of a sequence (JSON-able spec, see mk_query): anonymous, an integer, or the k-th member
    of a family of look-alike string / bytes / UUID user ids"""
    u = f.get("users", {"kind": "anonymous"})
    if u["kind"] == "anonymous":
        return None
    if u["kind"] == "distinct":
        return 1000 + k                       # a new identified user on every call
    if u["kind"] == "family":
        return user_id_spec(u, k)             # a new user on every call: 'user0', 'user1', ... / b'user0' ... / UUIDs
    return u["ids"][k % len(u["ids"])]        # "cycle"


def _users_label(u):
    if u["kind"] != "family":
        return u["kind"]
    return f"family of {u['type']} ids {user_label(user_id_spec(u, 0))}, {user_label(user_id_spec(u, 1))}, ..."


def _freq_counts(case):
    """run_impl of a frequency case: a sequence of calls on ONE component; how often every item is at every output
    position (first, included = anywhere), for user-derived seeds whether an identified user gets the same sample again,
    and -- where every call has a different user and the space of possible lists is huge -- how many users were handed
    a list that an earlier, different user already got."""
    f = case["freq"]
    comp, _ = make_component(case, record=False)
    il = make_items(case)
    ids = [r[0] for r in case["items"]]
    pos = {i: [0] * len(ids) for i in ids}
    memo = {}
    changed = []
    lists, repeats, shared = {}, 0, []
    for k in range(f["draws"]):
        u = _seq_user(f, k)
        o = comp(items=il, query=mk_query(u), n=case["run_n"]).ids().tolist()
        for p, i in enumerate(o):
            pos[i][p] += 1
        if u is not None and len(memo) < 200:
            memo.setdefault(user_label(u), (u, o))
        if f.get("expect_distinct"):
            t = tuple(o)
            if t in lists:
                repeats += 1
                if len(shared) < 3:
                    shared.append([lists[t], user_label(u), o])
            else:
                lists[t] = user_label(u)
    if case["rng"]["user"]:
        for lab, (u, o) in list(memo.items())[:100]:     # the same identified users once more, after everything else
            o2 = comp(items=il, query=mk_query(u), n=case["run_n"]).ids().tolist()
            if o2 != o:
                changed.append([lab, o, o2])
    return {"error": None, "first": [[i, pos[i][0]] for i in ids], "included": [[i, sum(pos[i])] for i in ids],
            "positions": [[i, pos[i]] for i in ids],
            "rechecked_users": min(len(memo), 100) if case["rng"]["user"] else 0, "changed": changed[:3],
            "users_sharing_a_list": repeats if f.get("expect_distinct") else None, "shared": shared}


def _tail(n, p, got):
    """probability of a count at least this far from n*p on the observed side (exact binomial)"""
    from scipy.stats import binom
    p = min(1.0, max(0.0, p))
    return float(binom.sf(got - 1, n, p) if got >= n * p else binom.cdf(got, n, p))


def _freq_rows(case, obs):
    f = case["freq"]
    n = f["draws"]
    rows = []

    def row(i, what, got, p):
        sd = math.sqrt(n * p * (1 - p)) if 0 < p < 1 else 0.0
        z = abs(got - n * p) / sd if sd > 0 else (0.0 if got == round(n * p) else 1e9)
        r = {"item": i, "what": what, "count": got, "expected": round(n * p, 1), "z": round(z, 2)}
        if z > 6:
            r["tail"] = _tail(n, p, got)      # decides (the normal band is too narrow for very small expected counts)
        rows.append(r)
    for what, exp in (("first", f["expect_first"]), ("included", f["expect_included"])):
        if exp is None:
            continue
        for (i, got), p in zip(obs[what], exp):
            row(i, what, got, p)
    if f.get("expect_positions"):
        for (i, got), ps in zip(obs["positions"], f["expect_positions"]):
            for k in range(1, len(ps)):
                row(i, f"at position {k + 1}", got[k], ps[k])
    return rows


TAIL = 1e-9          # two-sided 6 sigma of a normal is 2e-9
MAX_SHARED = 2       # users (out of thousands) allowed to repeat another user's list of 16 items by chance


def _freq_oracle(case, obs):
    f = case["freq"]
    users = f.get("users", {"kind": "anonymous"})
    seed = "'user'" if case["rng"]["seed"] is None else ("(%d, user)" % case["rng"]["seed"] if case["rng"]["user"] else case["rng"]["seed"])
    who = (f"{case['comp']} transform={case['transform']} scale={case['scale']} n: configured {case['cfg_n']}, run-time {case['run_n']}, "
           f"{len(case['items'])} items; seed={seed} calls={f['draws']} x {_users_label(users)} queries on one component")
    v = [(f"frequency:{f['name']}", f"{f['name']}: item {r['item']} {r['what']} {r['count']} times in {f['draws']} successive calls, expected {r['expected']} "
                                    f"(z = {r['z']} > 6, binomial tail {r['tail']:.1e}) [{who}]")
         for r in _freq_rows(case, obs) if r["z"] > 6 and r["tail"] < TAIL][:1]
    if obs.get("changed"):
        u, o, o2 = obs["changed"][0]
        v.append((f"sequence:{f['name']}:user-not-reproducible", f"user-derived seed: user {u} got {o} and later {o2} from the same component [{who}]"))
    if (obs.get("users_sharing_a_list") or 0) > MAX_SHARED:
        a, b, o = obs["shared"][0]
        v.append((f"sequence:{f['name']}:users-share-a-sample",
                  f"user-derived seed: {obs['users_sharing_a_list']} of {f['draws']} different users were handed exactly the list an earlier user got, "
                  f"e.g. users {a} and {b} both got {o}; independent draws repeat a list of {len(o)} items about never (more than {MAX_SHARED} is a violation) [{who}]"))
    return v


def position_odds(rates, m):
    """P(item i is at output position p), p < m, when the first m of successive draws without replacement are taken
    with odds proportional to the rates (the order in which independent exponential clocks with these rates ring;
    equal rates = a uniformly random arrangement).  Exact, by enumeration (small lists only)."""
    from itertools import permutations
    rates = [Fraction(r) for r in rates]
    tot = sum(rates)
    out = [[Fraction(0)] * m for _ in rates]
    for perm in permutations(range(len(rates)), m):
        rest, pr = tot, Fraction(1)
        for i in perm:
            pr *= rates[i] / rest
            rest -= rates[i]
        for p, i in enumerate(perm):
            out[i][p] += pr
    return [[float(x) for x in r] for r in out]


_freq_done = False


def search(rng, rep):
    """called when an obligation broke and no structural input failed: the frequency tables are the remaining search"""
    before = len(rep.violations)
    extra(rep, rep.tier, rng)
    return len(rep.violations) > before


def freq_cases(tier, rng):
    draws = 20000 if tier == "quick" else 200000
    grid_draws = 3000 if tier == "quick" else 30000
    n_users = 2000 if tier == "quick" else 10000
    seed = lambda: rng.below(2 ** 31)  # noqa: E731
    base = {"cfg_n": None, "user": None, "scores": True, "style": "freq", "scale": "1/1", "transform": None}
    cases = []
    anonymous, distinct, cycle = {"kind": "anonymous"}, {"kind": "distinct"}, {"kind": "cycle", "ids": [3, 17, 42]}
    families = [{"kind": "family", "type": "str", "style": "dec", "prefix": "user"},
                {"kind": "family", "type": "bytes", "style": "dec", "prefix": "user"},
                {"kind": "family", "type": "uuid", "style": "text", "prefix": "user"},
                {"kind": "family", "type": "str", "style": "pad", "prefix": "u-"},
                {"kind": "family", "type": "uuid", "style": "time"},
                {"kind": "family", "type": "str", "style": "hex", "prefix": rng.choice(["alice", "bob", "reader", "acct"]) + rng.choice([".", "_", ""])},
                {"kind": "family", "type": "bytes", "style": "pad", "prefix": rng.choice(["k", "id:", "cust-"])}]

    def fam_name(u):
        return f"{u['type']} ids like {user_label(user_id_spec(u, 120))}"

    def ways(m, N):
        """the ways a resolved length m can be asked for: (label, configured n, run-time n)"""
        other = 2 if m != 2 else 3
        w = [("n configured", m, None), ("n at run time", None, m), ("run-time n over a configured one", other, m)]
        if m == N:
            w += [("configured -1", -1, None), ("run-time n beyond the list", None, N + 3)]
        return w

    # uniform selection: 2 of 6, every item equally likely (inclusion n/k, first 1/k); fixed and user-derived seeds,
    # anonymous and identified queries, always as a sequence of calls on one component
    items = [[i, fjson(Fraction(i, 2)), 0] for i in range(1, 7)]
    for name, derived, users in (("uniform 2 of 6 / fixed seed / anonymous", False, anonymous),
                                 ("uniform 2 of 6 / fixed seed / identified users", False, cycle),
                                 ("uniform 2 of 6 / user-derived seed / anonymous", True, anonymous),
                                 ("uniform 2 of 6 / user-derived seed / new user each call", True, distinct)):
        cases.append({**base, "comp": "random", "run_n": 2, "items": items, "rng": {"seed": seed(), "user": derived},
                      "freq": {"name": name, "draws": draws, "users": users, "expect_first": [1 / 6] * 6, "expect_included": [2 / 6] * 6,
                               "expect_positions": position_odds([1] * 6, 2)}})

    # uniform selection at the ends of the range: resolved length 1, N-1 and N (every item at every position)
    k = 0
    for N in (2, 3, 5, 8):
        items_n = [[20 + i, fjson(Fraction(i, 4)), i % 3] for i in range(N)]
        for m in sorted({1, N - 1, N}):
            for rep_ in range(2):
                k += 1
                w = ways(m, N)
                how, cfg, run = w[k % len(w)]
                derived = k % 2 == 0
                users = anonymous if not derived else (anonymous, distinct, families[0], families[1])[(k // 2) % 4]
                cases.append({**base, "comp": "random", "cfg_n": cfg, "run_n": run, "items": items_n, "rng": {"seed": seed(), "user": derived},
                              "freq": {"name": f"uniform {m} of {N} / {how}", "draws": 2 * grid_draws, "users": users,
                                       "expect_first": [1 / N] * N, "expect_included": [m / N] * N,
                                       "expect_positions": position_odds([1] * N, m) if N <= 5 else None}})

    scores = [Fraction(1, 2), Fraction(1), Fraction(2), Fraction(4)]
    items = [[10 + k, fjson(s), 0] for k, s in enumerate(scores)]

    def ranker_case(name, comp, tr, scale, derived, users, n_draws, cfg_n=None, run_n=2, its=items):
        c = {**base, "comp": comp, "transform": tr, "scale": scale, "cfg_n": cfg_n, "run_n": run_n, "items": its,
             "rng": {"seed": seed(), "user": derived}}
        w, tiny = harness_weights(c, [float(fparse(r[1])) for r in its])
        r = [max(x, tiny) for x in w]
        m = len(its) if (run_n if run_n is not None else cfg_n) in (None, -1) else min(run_n if run_n is not None else cfg_n, len(its))
        c["freq"] = {"name": name, "draws": n_draws, "users": users}
        if len(its) <= 5:
            odds = position_odds(r, m)
            c["freq"].update(expect_first=[o[0] for o in odds], expect_included=[min(1.0, sum(o)) for o in odds], expect_positions=odds)
        else:
            c["freq"].update(expect_first=[x / sum(r) for x in r], expect_included=[1.0] * len(its) if m == len(its) else None)
        return c

    cases.append(ranker_case("SoftmaxRanker / fixed seed / anonymous", "softmax", None, "1/1", False, anonymous, draws))
    cases.append(ranker_case("SoftmaxRanker / user-derived seed / anonymous", "softmax", None, "1/1", True, anonymous, grid_draws))
    cases.append(ranker_case("linear / user-derived seed / new user each call", "stochastic", "linear", "1/1", True, distinct, grid_draws))
    # every transform with negative, zero, tiny, unit and large scale factors; seeds alternate fixed / user-derived
    k = 0
    for tr in (None, "linear", "softmax"):
        for sc in (Fraction(-2), Fraction(-1, 2), Fraction(0), Fraction(1, 2 ** 20), Fraction(1, 2), Fraction(1), Fraction(10)):
            k += 1
            cases.append(ranker_case(f"{tr or 'raw'} scale {fjson(sc)}", "stochastic", tr, fjson(sc), k % 2 == 0, anonymous,
                                     draws if sc == 1 else grid_draws))
    # the rankers at the ends of the range: resolved length 1, N-1 and N
    k = 0
    for label, comp, tr in (("SoftmaxRanker", "softmax", None), ("raw", "stochastic", None), ("linear", "stochastic", "linear"),
                            ("softmax", "stochastic", "softmax")):
        for m in (1, 3, 4):
            k += 1
            w = ways(m, 4)
            how, cfg, run = w[k % len(w)]
            derived = k % 2 == 1
            users = anonymous if not derived else (distinct, anonymous, families[0])[(k // 2) % 3]
            cases.append(ranker_case(f"{label} {m} of 4 / {how}", comp, tr, "1/1", derived, users, grid_draws, cfg_n=cfg, run_n=run))

    # user-derived seeds, a different user on every call, user ids that look alike (strings / bytes / UUIDs with a common
    # prefix and a running number): whole lists of 16 items -- across users the lists must differ (independent streams)
    # and the pooled first positions must follow the configured odds
    items16 = [[101 + i, fjson(1 + Fraction(i, 16)), i % 4] for i in range(16)]
    for u in families:
        cases.append({**base, "comp": "random", "cfg_n": -1, "run_n": None, "items": items16, "rng": {"seed": seed(), "user": True},
                      "freq": {"name": f"uniform 16 of 16 / user-derived seed / {fam_name(u)}", "draws": n_users, "users": u, "expect_distinct": True,
                               "expect_first": [1 / 16] * 16, "expect_included": [1.0] * 16}})
    cases.append({**base, "comp": "random", "cfg_n": -1, "run_n": None, "items": items16, "rng": {"seed": None, "user": True},
                  "freq": {"name": f"uniform 16 of 16 / seed spec 'user' (fresh entropy: counts vary between runs) / {fam_name(families[0])}",
                           "draws": n_users, "users": families[0], "expect_distinct": True, "expect_first": [1 / 16] * 16, "expect_included": [1.0] * 16}})
    k = 0
    for label, comp, tr, sc in (("raw", "stochastic", None, "1/1"), ("softmax scale 1/2", "stochastic", "softmax", "1/2"), ("SoftmaxRanker", "softmax", None, "1/1")):
        for rep_ in range(2):
            u = families[k % len(families)]
            k += 1
            c = ranker_case(f"{label} 16 of 16 / user-derived seed / {fam_name(u)}", comp, tr, sc, True, u, n_users, cfg_n=-1, run_n=None, its=items16)
            c["freq"]["expect_distinct"] = True
            cases.append(c)
    return cases


def extra(rep, tier, rng):
    global _freq_done
    if _freq_done:
        return
    _freq_done = True
    _setup()
    tables = []
    n_reported = 0
    for c in freq_cases(tier, rng):
        obs = run_impl(c)
        rows = _freq_rows(c, obs)
        tables.append({"table": c["freq"]["name"], "draws": c["freq"]["draws"], "seed": c["rng"], "calls": _users_label(c["freq"]["users"]),
                       "n": {"configured": c["cfg_n"], "run_time": c["run_n"]},
                       "rechecked_users": obs["rechecked_users"], "users_sharing_a_list": obs["users_sharing_a_list"],
                       "max_z": max(r["z"] for r in rows), "rows_checked": len(rows),
                       # the evidence keeps the first-position / inclusion rows of the small tables and every row beyond 4 sigma
                       "rows": [r for r in rows if r["z"] > 4 or (len(c["items"]) <= 8 and r["what"] in ("first", "included"))]})
        for key, what in oracle(c, obs):
            n_reported += 1
            if n_reported <= 8:                  # the first few name the input; the tables in the evidence carry the rest
                rep.violation(key, what, {"case": c, "observation": obs})
    rep.coverage["frequency_tables"] = tables
    rep.coverage["tolerances"] = {"weights": "2^-40 relative (float64 harness re-implementation vs rational model)",
                                  "frequencies": "6 sigma binomial band and exact binomial tail below 1e-9",
                                  "users sharing a list": f"at most {MAX_SHARED} of the users of a table may repeat an earlier user's list of 16 items",
                                  "keys": "an excluded key must not exceed an included one by more than 1e-9 relative"}
