"""C13 -- a pipeline's configuration reproduces it and its hash is stable across processes
(DESIGN.md section 4, C13)."""

from __future__ import annotations

import hashlib
import json
import os
import subprocess
import tempfile
from concurrent.futures import ThreadPoolExecutor
from pathlib import Path

import common
from common import cbool, clist, cnat
from framework import TranslateError  # noqa: F401

PID = "C13"
PROPS_FILE = "Props/C13.v"
GEN_FILES = ["Gen/C13_shape.v"]
MODEL_FILES = ["Model/C13_json.v", "Model/C13_config.v", "Model/C13_literal.v", "Model/C13_text.v"]
ALLOWED_AXIOMS: list[str] = []
CASE_HEADER = ("From Coq Require Import String List.\nFrom LK Require Import Lib.StrDict Gen.C13_shape Model.C13_json Model.C13_config Model.C13_literal Model.C13_text.\n"
               "Import ListNotations.\nOpen Scope string_scope.")
SHARD = 16
SEARCH_CASES = 0     # the generic one-case-at-a-time search would start five interpreters per case; see search()
TRUSTED = [
    "Coq 8.16.1 kernel + vm_compute (no native_compute); Print Assumptions of every theorem in Props/C13.v: closed under the global context",
    "shape extractor harness/translate/c13.py (declared field order of the five configuration classes, sorted wiring/aliases/type sets, "
    "validate-after-defaults, exclude_none in hash_config, order of the from_config passes, name/version kept) -- regenerated and re-proved on every run",
    "Section hypotheses (library/component contracts): H (SHA-256) injective on serialisations; norm (validate then dump a component's settings) "
    "idempotent on dumped settings; set_of (building a Python set) returns a duplicate-free permutation",
    "hand-written model of PipelineBuilder / build_config / from_config / Pipeline.from_config (Model/C13_config.v) and of pydantic's compact JSON "
    "printer on strings that need no escaping (Model/C13_json.v), tied by the correspondence cases: the model's serialisation must equal "
    "model_dump_json() and model_dump_json(exclude_none=True) character for character, in five interpreter processes with different PYTHONHASHSEED",
    "number/bool/null tokens inside settings and literals are rendered by pydantic_core.to_json (library contract); pickle/base85 text of non-JSON "
    "literals and uuid5 literal names are taken from the implementation; pydantic's parser (JSON text -> PipelineConfig) is exercised, not modelled",
    "pickle_contract (Props/C13.v): the base85 pickle text of a literal value can be loaded again to the same value (pickle / base64 library contract); "
    "the description of a literal's type structure handed to the model (harness/props/c13.py cpyv) and the pickle text are computed by the harness from "
    "the case description, not taken from lenskit; the form of PipelineLiteral.represent / decode / _json_exact is pinned by the shape extractor "
    "(literal_json_iff_exact; any other form fails closed)",
    "equality of run results of the original, the clone and the reloaded pipelines is checked by the oracle on generated inputs, not proved "
    "(the theorems show the rebuilt node table, wiring, aliases and default are equal)",
]
ASSUMPTIONS = [
    "strings (node names, aliases, pipeline name/version, string settings) contain no double quote, backslash or control character",
    "literal values: anything whose pickle does not depend on the process (sets hold numbers, not strings: lenskit documents that the hash of a pickled "
    "literal is only as stable as the pickle byte stream); strings inside literals need no JSON escaping",
    "components are importable functions or Component classes whose behaviour before training is determined by class and dumped settings",
    "unchecked builder calls are used as documented: literal names are fresh, replace_component names an existing component, "
    "default connections point to member nodes",
]
RULE = ("literal values as a generated dimension: None, bools, ints (also beyond 2**63), floats (-0.0, subnormal, 1e308, nan, +-inf), strings, lists, tuples, "
        "nested tuples, dicts with str / int / bool / None / float / tuple keys, OrderedDict, NumPy arrays (int64/int32/float64/float32/bool, 1-D, 2-D, empty, "
        "with nan) and scalars, sets, frozensets, bytes, objects, str / IntEnum subclass instances; a quarter of them drawn as an equal-looking value of ANOTHER "
        "type of a literal already in the graph (tuple<->list, 1<->True<->1.0<->numpy.int64(1), 0.0<->-0.0, key 1<->key '1', array<->list, set<->frozenset); wired "
        "(3/5 of their parameters) into components whose results render the type of every part of what they receive (describe, describe2, lookup, extend, "
        "total); every reload route compared on run results, hash, text and warning: clone, from_config(configuration object), from_config(json.loads(text)), "
        "from_config(model_validate_json(text)), four other processes; each literal node must yield the value the caller passed; a literal declared JSON must "
        "mean, as JSON text, the value the pipeline holds; the same history with one literal replaced by a value of another type must hash differently; "
        "builder histories: the same PipelineBuilder is observed (config_hash / meta / build_config / build, then hash, built pipeline and its clone) at 2-5 "
        "points with edits of every kind in between (name, version, default node, aliases, connections, replaced components and settings, literals, default "
        "connections), and a builder loaded from the document is edited once more and built; generated graphs: 1-4 inputs (0-4 types each incl. None, generics, unions, nested classes), 0-2 named literals, 1-7 components over 17 "
        "importable functions/classes (class+dict, instance, plain function, non-Component callable; settings incl. alias-validated fields, nulls, "
        "nested lists/dicts, floats), connections in shuffled declaration order, later connect/clear/replace edits, default connections, aliases "
        "(also of aliases), default node, named/unnamed/versioned; a second declaration order of the same graph; 1/8 malformed (name clashes, "
        "missing nodes, wiring an input, cycles incl. through a default connection, invalid settings, missing default); standard pipelines "
        "(topn_pipeline, predict_pipeline, RecPipelineBuilder) around every shipped scorer/ranker with random settings; every case is built in "
        "5 processes (PYTHONHASHSEED 0,1,2,3,random) and its document plus 3-6 tampered documents reloaded in the 4 other processes; "
        "non-trivial = built, >= 2 components, >= 1 connection, and an alias / resolved default connection / multi-type input / literal / "
        "settings present; distinct = by hash of the case")

SEEDS = ["0", "1", "2", "3", "random"]

# ---------------------------------------------------------------------------------------------
# what the generator knows about the importable components (harness/vcomp.py)
# ---------------------------------------------------------------------------------------------

SIGS = {"const7": [], "inc": ["x"], "neg": ["x"], "add": ["x", "y"], "mix3": ["a", "b", "c"], "user_item": ["user", "item"],
        "opt_first": ["x", "y"], "lazy_pick": ["x", "y"], "anyval": ["v"], "twice": ["x"], "first_of": ["primary", "fallback"],
        "Scale": ["x"], "Affine": ["x", "y"], "Aliased": ["user"], "NoSettings": ["x"], "Shift": ["x"], "Bare": ["x"],
        # results depend on the TYPE as well as the value of what they are given (harness/c13_lit.py)
        "describe": ["v"], "describe2": ["a", "b"], "lookup": ["table", "key"], "extend": ["xs", "x"], "total": ["xs"]}
TYPE_SENSITIVE = {"describe": {"v": None, }, "describe2": {"a": None, "b": None}, "lookup": {"table": "map"}, "extend": {"xs": "seq"},
                  "total": {"xs": "seq"}}
CODES = {k: ("c13_lit:" if k in TYPE_SENSITIVE else "vcomp:") + k for k in SIGS}
CODES.update({"twice": "vcomp:Box.twice", "Shift": "vcomp:Box.Shift", "first_of": "lenskit.pipeline.components:fallback_on_none"})
STYLES = {k: ["fn"] for k in SIGS}
STYLES.update({"Scale": ["class", "instance"], "Affine": ["class", "instance"], "Aliased": ["class", "instance"],
               "NoSettings": ["class", "instance"], "Shift": ["class", "instance"], "Bare": ["bare"]})
TYPE_NAMES = {"int": ["int"], "str": ["str"], "float": ["float"], "bool": ["bool"], "None": ["None"], "list": ["list"], "dict": ["dict"],
              "list[int]": ["list"], "int|str": ["int", "str"], "Token": ["vcomp.Token"], "Inner": ["vcomp:Outer.Inner"],
              "ItemList": ["lenskit.data.items.ItemList"], "ndarray": ["numpy.ndarray"], "bytes": ["bytes"]}
FLOATS = [0.0, 0.5, 2.5, 1e-7, 1e22, 3.0, -1.25, 0.1]
STRS = ["s", "lab", "é", "a b", "x-1", ""]

# ---------------------------------------------------------------------------------------------
# literal values as a generated dimension (encoded; harness/c13_lit.py turns them into Python values)
# ---------------------------------------------------------------------------------------------

L_INTS = [0, 1, 2, 7, -3, 5, 2 ** 31, 2 ** 53 + 1, 2 ** 70, -2 ** 63 - 1]
L_FLOATS = [0.0, -0.0, 0.5, 2.5, 1.0, 1e-7, 1e22, 1e308, 5e-324, 0.1, -1.25]
L_STRS = ["s", "héllo", "", "a b", "1", "None"]
L_KEYS = ["a", "b", "x", "é", "1", "2", "k y"]


def gen_scalar(rng):
    k = rng.weighted([("none", 1), ("bool", 2), ("int", 4), ("float", 4), ("nonfinite", 1), ("str", 3)])
    if k == "none":
        return None
    if k == "bool":
        return rng.chance(1, 2)
    if k == "int":
        return rng.choice(L_INTS)
    if k == "float":
        return rng.choice(L_FLOATS)
    if k == "nonfinite":
        return {"__float__": rng.choice(["nan", "inf", "-inf"])}
    return rng.choice(L_STRS)


def gen_lit(rng, pool=None, family=None, depth=0):
    """an encoded literal value: None, bools, ints (also beyond 2**63), floats (-0.0, subnormal, huge, non-finite), strings,
    lists, tuples, nested tuples, dicts with str / int / bool / None / float / tuple keys, NumPy arrays and scalars, sets,
    bytes, objects, instances of subclasses of the basic types; `pool` (the literals already used in this graph) makes
    equal-looking values of different types meet in one graph"""
    import c13_lit
    if pool and depth == 0 and family is None and rng.chance(1, 4):
        sibs = c13_lit.siblings(rng.choice(pool))
        if sibs:
            v = rng.choice(sibs)
            pool.append(v)
            return v
    if depth >= 2:
        return gen_scalar(rng)

    def elems(lo=0, hi=3):
        return [gen_lit(rng, None, None, depth + 1) for _ in range(rng.randint(lo, hi))]
    if family == "seq":
        kinds = [("list", 3), ("tuple", 4), ("np", 2), ("set", 1), ("frozenset", 1)]
    elif family == "map":
        kinds = [("dict", 3), ("idict", 4), ("odict", 1)]
    elif depth == 0:
        kinds = [("scalar", 6), ("list", 3), ("tuple", 3), ("dict", 3), ("idict", 2), ("np", 2), ("nps", 2), ("set", 1), ("frozenset", 1),
                 ("bytes", 1), ("token", 1), ("odict", 1), ("strs", 1), ("inte", 1)]
    else:
        kinds = [("scalar", 8), ("list", 1), ("tuple", 2), ("dict", 1), ("nps", 1), ("idict", 1)]
    k = rng.weighted(kinds)
    if k == "scalar":
        v = gen_scalar(rng)
    elif k == "list":
        v = elems()
    elif k == "tuple":
        v = {"__tuple__": elems()}
    elif k == "dict":
        v = {key: gen_lit(rng, None, None, depth + 1) for key in rng.sample(L_KEYS, rng.randint(0, 3))}
    elif k == "odict":
        v = {"__odict__": [[key, gen_lit(rng, None, None, depth + 1)] for key in rng.sample(L_KEYS, rng.randint(0, 2))]}
    elif k == "idict":
        fam = rng.weighted([("int", 4), ("bool", 1), ("mixed", 2)])
        keys = {"int": [0, 1, 2, 7, -3, 10], "bool": [True, False], "mixed": [None, 2.5, {"__tuple__": [1, 2]}, 3, "3"]}[fam]
        v = {"__idict__": [[key, gen_lit(rng, None, None, depth + 1)] for key in rng.sample(keys, rng.randint(1, min(3, len(keys))))]}
    elif k == "np":
        dt = rng.choice(["int64", "float64", "float32", "bool", "int32"])
        def cell():
            if dt == "bool":
                return rng.chance(1, 2)
            if dt.startswith("int"):
                return rng.choice([0, 1, 2, 7, -3])
            return rng.choice([0.0, -0.0, 0.5, 2.5, {"__float__": "nan"}, 1.0])
        v = {"__np__": [dt, [[cell(), cell()], [cell(), cell()]] if rng.chance(1, 4) else [cell() for _ in range(rng.randint(0, 4))]]}
    elif k == "nps":
        v = {"__nps__": rng.choice([["float64", 2.5], ["float64", 1.0], ["float64", {"__float__": "nan"}], ["int64", 3], ["int64", 1], ["float32", 0.5],
                                    ["bool", True], ["bool", False], ["int32", 7]])}
    elif k in ("set", "frozenset"):
        v = {"__" + k + "__": rng.sample([0, 1, 2, 7, -3, 2.5, 100], rng.randint(0, 3))}
    elif k == "bytes":
        v = {"__bytes__": rng.choice(["6162", "", "00ff", "31"])}
    elif k == "token":
        v = {"__token__": rng.randint(0, 9)}
    elif k == "strs":
        v = {"__strs__": rng.choice(L_STRS)}
    else:
        v = {"__inte__": rng.choice([1, 2, 7])}
    if pool is not None and depth == 0:
        pool.append(v)
    return v


def lit_kind(e):
    import c13_lit
    t = c13_lit.tag_of(e)
    if t is not None:
        return t.strip("_") + (":" + e[t][0] if t in ("__np__", "__nps__") else "")
    return type(e).__name__


def lit_sites(ops):
    "every place of a history where a literal value is written: (op index, where, encoded value)"
    out = []
    for i, o in enumerate(ops):
        if o["op"] == "literal":
            out.append((i, ("value",), o["value"]))
        elif o["op"] == "defconn" and "lit" in o["target"]:
            out.append((i, ("target",), o["target"]["lit"]))
        for j, (p_, t) in enumerate(o.get("ins", []) if o["op"] in ("add", "replace", "connect") else []):
            if "lit" in t:
                out.append((i, ("ins", j), t["lit"]))
    return out


def type_change_visible(ops, site, sib):
    """anonymous literal nodes are named after their value, so equal values written at several places share ONE node: replacing
    the value at `site` by `sib` must change the configuration when the old value occurs nowhere else (its node disappears)
    or the new one occurs nowhere yet (a node appears); otherwise the two histories may legitimately build the same graph"""
    vals = [json.dumps(v, sort_keys=True) for _, _, v in lit_sites(ops)]
    return vals.count(json.dumps(site[2], sort_keys=True)) == 1 or json.dumps(sib, sort_keys=True) not in vals


def with_lit(ops, site, value):
    i, where, _ = site
    ops = [dict(o) for o in ops]
    o = ops[i]
    if where == ("value",):
        o["value"] = value
    elif where == ("target",):
        o["target"] = {"lit": value}
    else:
        o["ins"] = [list(x) for x in o["ins"]]
        o["ins"][where[1]] = [o["ins"][where[1]][0], {"lit": value}]
    return ops

# shipped scorers / rankers and generators of random settings (field -> values)
SHIPPED_SCORERS = {
    "lenskit.als._explicit:BiasedMFScorer": {"features": [3, 20], "embedding_size": [7], "epochs": [2, 5], "regularization": [0.1, 0.05, {"user": 0.1, "item": 0.02}],
                                             "user_embeddings": [True, False, "prefer"], "damping": [5.0, 0.0, {"user": 2.0, "item": 3.0}]},
    "lenskit.als._implicit:ImplicitMFScorer": {"features": [4], "embedding_size": [9], "epochs": [3], "regularization": [0.01], "weight": [40, 10.5],
                                               "use_ratings": [True, False]},
    "lenskit.basic.bias:BiasScorer": {"entities": [["user", "item"], ["item"], ["user"], []], "damping": [0.0, 5, {"user": 1.0, "item": 2.5}]},
    "lenskit.basic.popularity:PopScorer": {"score": ["quantile", "rank", "count"]},
    "lenskit.basic.popularity:TimeBoundedPopScore": {"score": ["quantile", "count"], "cutoff": ["2020-01-01T00:00:00", "2015-06-01T12:30:00"]},
    "lenskit.basic.history:KnownRatingScorer": {"score": [None, "rating", "indicator"], "source": ["training", "query"], "interaction_class": [None, "rating"]},
    "lenskit.flexmf._explicit:FlexMFExplicitScorer": {"embedding_size": [8], "batch_size": [1024], "learning_rate": [0.005, 0.01], "epochs": [2],
                                                      "reg": [0.1, 0.0], "reg_method": ["L2", "AdamW", None]},
    "lenskit.flexmf._implicit:FlexMFImplicitScorer": {"embedding_size": [8], "epochs": [2], "loss": ["logistic", "pairwise"],
                                                      "negative_strategy": ["uniform", "popular"], "negative_count": [1, 3],
                                                      "positive_weight": [1.0, 2.5], "user_bias": [None, True, False], "item_bias": [True, False]},
    "lenskit.funksvd:FunkSVDScorer": {"features": [5, 10], "epochs": [3], "learning_rate": [0.001, 0.01], "regularization": [0.015],
                                      "damping": [5.0, {"user": 1.0, "item": 2.0}], "range": [None, [1, 5], [0.5, 5.0]]},
    "lenskit.implicit:ALS": {"weight": [40.0, 5.5], "factors": [10, 16], "iterations": [3]},
    "lenskit.implicit:BPR": {"factors": [8], "iterations": [2]},
    "lenskit.knn.item:ItemKNNScorer": {"k": [5, 20], "max_nbrs": [7], "min_nbrs": [1, 2], "min_sim": [1e-6, 0.05], "save_nbrs": [None, 50],
                                       "feedback": ["explicit", "implicit"], "block_size": [250, 100]},
    "lenskit.knn.user:UserKNNScorer": {"k": [5], "max_nbrs": [10, 30], "min_nbrs": [1, 3], "min_sim": [1e-6, 0.1], "feedback": ["explicit", "implicit"]},
    "lenskit.sklearn.svd:BiasedSVDScorer": {"features": [6], "embedding_size": [12], "damping": [5, 2.5], "algorithm": ["randomized", "arpack"], "n_iter": [5, 3]},
}
SHIPPED_RANKERS = {
    "lenskit.basic.topn:TopNRanker": {"n": [None, 10, -1]},
    "lenskit.basic.random:SoftmaxRanker": {"n": [None, 5], "rng": [None, 42, [1, 2], "user", [7, "user"], [None, "user"]]},
    "lenskit.basic.random:RandomSelector": {"n": [None, 8], "rng": [None, 3, "user"]},
    "lenskit.stochastic._ranker:StochasticTopNRanker": {"n": [None, 10], "rng": [None, 11, [3, "user"]], "transform": ["softmax", "linear", None], "scale": [1.0, 0.5]},
}
SELECTORS = ["lenskit.basic.candidates:AllTrainingItemsCandidateSelector", "lenskit.basic.candidates:UnratedTrainingItemsCandidateSelector"]
# exclusive alternatives (alias-validated fields): at most one of each group
EXCLUSIVE = [("features", "embedding_size"), ("k", "max_nbrs")]


def translate():
    from translate import c13 as t
    from translate.pyq import TranslateError as TE
    try:
        return t.translate(common.SRC)
    except TE as e:
        raise TranslateError(str(e))


# ---------------------------------------------------------------------------------------------
# generator
# ---------------------------------------------------------------------------------------------


def gen_settings(rng, comp, bad=False):
    if bad:
        return {"Scale": {"factor": "many"}, "Affine": {"a": [1]}, "Aliased": {"size": "x"}, "Shift": {"b": None},
                "NoSettings": {"factor": "many"}}.get(comp, None)
    s = {}
    if comp == "Scale":
        if rng.chance(2, 3):
            s["factor"] = rng.randint(1, 9)
        if rng.chance(1, 2):
            s["offset"] = rng.choice(FLOATS)
        if rng.chance(1, 2):
            s["label"] = rng.choice([None, "lab", "é", "a b"])
        if rng.chance(1, 3):
            s["tags"] = [rng.choice(STRS) for _ in range(rng.randint(0, 3))]
        if rng.chance(1, 3):
            s["opts"] = {k: rng.choice([None, 1, 2, -5]) for k in rng.sample(["z", "a", "m", "é"], rng.randint(0, 3))}
    elif comp in ("Affine", "Shift"):
        if rng.chance(2, 3):
            s["a"] = rng.randint(-3, 9)
        if rng.chance(1, 2):
            s["b"] = rng.randint(0, 100)
        if rng.chance(1, 3):
            s["flag"] = rng.chance(1, 2)
        if rng.chance(1, 3):
            s["ws"] = [rng.choice(FLOATS) for _ in range(rng.randint(0, 3))]
    elif comp == "Aliased":
        if rng.chance(3, 4):
            s[rng.choice(["size", "k", "features"])] = rng.randint(1, 40)
        if rng.chance(1, 2):
            s["rate"] = rng.choice([None, 0.25, 1e-7])
    else:
        return None if rng.chance(1, 2) else {}
    if not s and rng.chance(1, 2):
        return None
    items = rng.shuffle(list(s.items()))
    return dict(items)


def gen_graph(rng, malformed=False):
    # boundary value: the EMPTY string is a name / version of its own, not "no name" (session 2, seed C13-11)
    name = rng.choice([None, None, "pipe", "Pipe-é", "p 1", ""])
    version = rng.choice([None, None, "1", "2025.1", ""])
    ops = []
    nodes = []          # real node names usable as wiring targets
    comps = []          # (name, comp key)
    aliases = []
    in_names = rng.sample(["a", "b", "c", "d", "user", "item", "query"], rng.randint(1, 4))
    input_types = {}
    pool = []           # literal values used so far in this graph (equal-looking values of other types are drawn from it)
    for n in in_names:
        k = rng.weighted([(0, 1), (1, 4), (2, 3), (3, 2), (4, 1)])
        ts = rng.sample(list(TYPE_NAMES), k)
        if rng.chance(1, 2) and "int" not in ts:
            ts = ["int"] + ts
        ops.append({"op": "input", "name": n, "types": ts})
        nodes.append(n)
        input_types[n] = ts
    for j in range(rng.weighted([(0, 3), (1, 2), (2, 1)])):
        ln = f"L{j + 1}"
        ops.append({"op": "literal", "name": ln, "value": gen_lit(rng, pool)})
        nodes.append(ln)

    def pick_target(exclude=None, lits=True, family="-"):
        # parameters of the type-sensitive components are mostly given literal values
        if lits and rng.chance(*((3, 5) if family != "-" else (1, 6))):
            return {"lit": gen_lit(rng, pool, None if family == "-" else family)}
        cands = [n for n in nodes if n != exclude] or nodes
        return {"node": rng.choice(cands)}

    def gen_ins(comp, me, frac=(3, 4)):
        fam = TYPE_SENSITIVE.get(comp, {})
        ins = [[p, pick_target(me, family=fam.get(p, "-"))] for p in SIGS[comp] if rng.chance(*((9, 10) if comp in TYPE_SENSITIVE else frac))]
        return rng.shuffle(ins)

    ncomp = rng.weighted([(1, 1), (2, 2), (3, 3), (4, 3), (5, 2), (7, 1)])
    cnames = rng.sample(["c1", "c2", "c3", "c4", "c5", "c6", "c7", "scorer", "ranker", "é1"], ncomp)
    for cn in cnames:
        if len(nodes) >= 2 and rng.chance(1, 10):
            pr, fb = rng.choice(nodes), rng.choice(nodes)
            ops.append({"op": "first_of", "name": cn, "primary": pr, "fallback": fb})
            comps.append((cn, "first_of"))
            nodes.append(cn)
            continue
        comp = rng.choice(sorted(TYPE_SENSITIVE)) if rng.chance(1, 4) else rng.choice([k for k in SIGS if k != "first_of"])
        style = rng.choice(STYLES[comp])
        op = {"op": "add", "name": cn, "comp": comp, "style": style, "ins": gen_ins(comp, cn)}
        if style in ("class", "instance"):
            op["settings"] = gen_settings(rng, comp)
            if style == "instance" and op["settings"] is None:
                op["settings"] = {}
        ops.append(op)
        comps.append((cn, comp))
        nodes.append(cn)
        # interleave other edits
        r = rng.below(12)
        if r == 0 and comps:
            tn, tc = rng.choice(comps)
            ops.append({"op": "connect", "name": tn, "ins": gen_ins(tc, tn, (1, 2))})
        elif r == 1 and comps:
            tn, tc = rng.choice(comps)
            ops.append({"op": "clear", "name": tn})
            ops.append({"op": "connect", "name": tn, "ins": gen_ins(tc, tn, (1, 2))})
        elif r == 2 and comps:
            i = rng.below(len(comps))
            tn, _ = comps[i]
            nc = rng.choice([k for k in SIGS if k != "first_of"])
            st = rng.choice(STYLES[nc])
            rop = {"op": "replace", "name": tn, "comp": nc, "style": st, "ins": gen_ins(nc, tn, (1, 3))}
            if st in ("class", "instance"):
                rop["settings"] = gen_settings(rng, nc) or {}
            ops.append(rop)
            comps[i] = (tn, nc)
        elif r == 3:
            ops.append({"op": "defconn", "param": rng.choice(["user", "item", "x", "y", "a", "v"]), "target": pick_target(lits=True)})
    # default connections, aliases, default node
    for _ in range(rng.weighted([(0, 2), (1, 2), (2, 1)])):
        pos = rng.randint(len(in_names), len(ops))
        cands = [o["name"] for o in ops[:pos] if o["op"] in ("input", "literal", "add", "first_of")]
        tgt = {"node": rng.choice(cands)} if cands and rng.chance(5, 6) else {"lit": gen_lit(rng, pool)}
        ops.insert(pos, {"op": "defconn", "param": rng.choice(["user", "item", "x", "y", "b", "fallback"]), "target": tgt})
    alias_block = []
    for an in rng.sample(["al1", "rec", "zz", "aa", "é-al"], rng.weighted([(0, 2), (1, 3), (2, 2), (3, 1)])):
        tgt = rng.choice(aliases) if aliases and rng.chance(1, 5) else rng.choice(nodes)
        alias_block.append({"op": "alias", "alias": an, "node": tgt})
        aliases.append(an)
    ops.extend(alias_block)
    if aliases and rng.chance(1, 8):
        a = rng.choice(aliases)
        ops.append({"op": "remove_alias", "alias": a, "exist_ok": rng.chance(1, 2)})
        aliases.remove(a)
    if rng.chance(2, 3):
        ops.append({"op": "defcomp", "name": rng.choice(aliases + [c for c, _ in comps])})
    # connect through an alias name
    if aliases and comps and rng.chance(1, 6):
        a = rng.choice(aliases)
        ops.append({"op": "connect", "name": a, "ins": [["x", pick_target()]]})

    # --- builder history: the same builder is observed several times with edits of every kind in between ---
    n_in = len(in_names)
    first_comp = next(i for i, o in enumerate(ops) if o["op"] in ("add", "first_of"))
    for pos in sorted((rng.randint(first_comp + 1, len(ops)) for _ in range(rng.randint(1, 2))), reverse=True):
        ops.insert(pos, {"op": "observe", "how": rng.choice(["hash", "meta", "config", "build"])})
    if not any(o["op"] == "observe" for o in ops[-2:]):
        ops.append({"op": "observe", "how": rng.choice(["hash", "meta", "config", "build"])})
    tail_lits = 0
    for _ in range(rng.randint(1, 3)):
        for _ in range(rng.randint(1, 2)):
            kind = rng.choice(["set_name", "set_version", "defcomp", "alias", "connect", "replace", "settings", "literal", "defconn"])
            cn, ck = rng.choice(comps)
            if kind == "set_name":
                ops.append({"op": "set_name", "value": rng.choice([None, "renamed", "other é", name, ""])})
            elif kind == "set_version":
                ops.append({"op": "set_version", "value": rng.choice([None, "3", "2025.2", version, ""])})
            elif kind == "defcomp":
                ops.append({"op": "defcomp", "name": rng.choice(aliases + [c for c, _ in comps])})
            elif kind == "alias":
                free = [a for a in ["t-al", "t-al2", "t-al3"] if a not in aliases]
                if free:
                    ops.append({"op": "alias", "alias": free[0], "node": rng.choice(nodes)})
                    aliases.append(free[0])
            elif kind == "connect" and SIGS[ck]:
                ops.append({"op": "connect", "name": cn, "ins": [[rng.choice(SIGS[ck]), {"node": rng.choice(nodes[:n_in])}]]})
            elif kind in ("replace", "settings"):
                i = rng.below(len(comps))
                cn, ck = comps[i]
                nc = ck if kind == "settings" and ck in ("Scale", "Affine", "Aliased", "Shift") else rng.choice(["Scale", "Affine", "Aliased", "inc"])
                st = rng.choice(STYLES[nc])
                rop = {"op": "replace", "name": cn, "comp": nc, "style": st, "ins": []}
                if st in ("class", "instance"):
                    rop["settings"] = gen_settings(rng, nc) or {}
                ops.append(rop)
                comps[i] = (cn, nc)
            elif kind == "literal":
                tail_lits += 1
                ops.append({"op": "literal", "name": f"LT{tail_lits}", "value": gen_lit(rng, pool)})
            elif kind == "defconn":
                ops.append({"op": "defconn", "param": rng.choice(["user", "item", "a", "v", "c"]), "target": {"node": rng.choice(nodes[:n_in])}})
        if rng.chance(1, 2):
            ops.append({"op": "observe", "how": rng.choice(["hash", "meta", "config", "build"])})

    case = {"kind": "graph", "name": name, "version": version, "ops": ops, "style": "graph"}
    case["fc_edit"] = rng.choice([
        {"kind": "default", "value": rng.choice([c for c, _ in comps])}, {"kind": "name", "value": "reloaded-and-renamed"},
        {"kind": "version", "value": "9.9"}, {"kind": "alias", "alias": "fc-al", "value": rng.choice(nodes[:n_in])}])
    if malformed:
        m = rng.choice(["input-clash", "add-clash", "alias-clash", "missing-target", "wire-input", "missing-alias-target", "remove-missing",
                        "cycle", "default-cycle", "bad-settings", "missing-default", "replace-new", "empty-default"])
        case["style"] = "malformed:" + m
        c0 = comps[0][0]
        if m == "input-clash":
            ops.insert(rng.randint(len(in_names), len(ops)), {"op": "input", "name": rng.choice(nodes[:len(in_names)]), "types": ["int"]})
        elif m == "add-clash":
            ops.append({"op": "add", "name": rng.choice(nodes + aliases), "comp": "inc", "style": "fn", "ins": [["x", {"node": nodes[0]}]]})
        elif m == "alias-clash":
            ops.append({"op": "alias", "alias": rng.choice(nodes + aliases), "node": nodes[0]})
        elif m == "missing-target":
            ops.append({"op": "connect", "name": c0, "ins": [["x", {"node": nodes[0]}], ["y", {"node": "nowhere"}]]})
        elif m == "wire-input":
            ops.append({"op": "connect", "name": nodes[0], "ins": [["x", {"node": c0}]]})
        elif m == "missing-alias-target":
            ops.append({"op": "alias", "alias": "ghost", "node": "nowhere"})
        elif m == "remove-missing":
            ops.append({"op": "remove_alias", "alias": "ghost", "exist_ok": rng.chance(1, 2)})
        elif m == "cycle":
            ops.append({"op": "add", "name": "k1", "comp": "inc", "style": "fn", "ins": [["x", {"node": c0}]]})
            ops.append({"op": "add", "name": "k2", "comp": "add", "style": "fn", "ins": [["x", {"node": "k1"}]]})
            ops.append({"op": "connect", "name": "k1", "ins": [["x", {"node": "k2"}]]})
        elif m == "default-cycle":
            ops.append({"op": "add", "name": "k1", "comp": "user_item", "style": "fn", "ins": [["item", {"node": nodes[0]}]]})
            ops.append({"op": "defconn", "param": "user", "target": {"node": "k1"}})
        elif m == "bad-settings":
            comp = rng.choice(["Scale", "Affine", "Aliased", "Shift"])
            ops.append({"op": "add", "name": "k1", "comp": comp, "style": "class", "settings": gen_settings(rng, comp, bad=True), "ins": []})
        elif m == "missing-default":
            ops.append({"op": "defcomp", "name": "nowhere"})
        elif m == "replace-new":
            ops.append({"op": "replace", "name": "fresh", "comp": "inc", "style": "fn", "ins": [["x", {"node": nodes[0]}]]})
        elif m == "empty-default":
            ops.append({"op": "defcomp", "name": ""})
    else:
        # the same graph with every connection list and the alias declarations in another order
        ops2 = []
        alias_ok = all(o["node"] in nodes for o in alias_block) and not any(o["op"] == "remove_alias" for o in ops)
        perm = rng.shuffle(alias_block) if alias_ok else alias_block
        ai = 0
        for o in ops:
            if o["op"] == "observe":
                continue
            o2 = dict(o)
            if "ins" in o2:
                o2["ins"] = rng.shuffle(o2["ins"])
            if o["op"] == "alias" and any(o is x for x in alias_block):
                o2 = dict(perm[ai])
                ai += 1
            ops2.append(o2)
        case["ops2"] = ops2
        # the same history with ONE literal replaced by an equal-looking value of another type
        import c13_lit
        sites = [st for st in lit_sites(ops2) if any(type_change_visible(ops2, st, sb) for sb in c13_lit.siblings(st[2]))]
        if sites:
            st = rng.choice(sites)
            sib = rng.choice([sb for sb in c13_lit.siblings(st[2]) if type_change_visible(ops2, st, sb)])
            case["ops3"] = with_lit(ops2, st, sib)
            case["ops3_change"] = [st[2], sib]
            case["ops3_site"] = st[0]
    # run inputs
    runs = []
    for _ in range(2):
        r = {}
        for n in in_names:
            ts = input_types[n]
            if "None" in ts and rng.chance(1, 3):
                r[n] = None
            elif ts and "int" not in ts and "str" in ts:
                r[n] = rng.choice(["u", "vé"])
            elif ts and "int" not in ts and "Token" in ts:
                r[n] = {"__token__": rng.randint(0, 9)}
            else:
                r[n] = rng.choice([0, 1, 2, 7]) if rng.chance(1, 3) else rng.randint(0, 60)
        runs.append(r)
    case["runs"] = runs
    case["run_nodes"] = ([c for c, k in comps if k in TYPE_SENSITIVE] + [c for c, k in comps if k not in TYPE_SENSITIVE])[:5]
    case["tamper"] = rng.sample(["hash", "setting", "connection", "alias", "default", "name", "version", "drop_hash", "reorder", "literal"],
                                rng.randint(3, 5))
    return case


def gen_std(rng):
    def settings(table):
        s = {}
        for f in rng.shuffle(list(table)):
            if rng.chance(1, 2):
                s[f] = rng.choice(table[f])
        for a, b in EXCLUSIVE:
            if a in s and b in s:
                del s[rng.choice([a, b])]
        return s
    scorer = rng.choice(sorted(SHIPPED_SCORERS))
    case = {"kind": "std", "scorer": scorer, "settings": settings(SHIPPED_SCORERS[scorer]), "name": rng.choice([None, "std", "exp-1"]),
            "style": "std"}
    if scorer.endswith("TimeBoundedPopScore"):
        case["settings"].setdefault("cutoff", "2020-01-01T00:00:00")   # required field
    how = rng.weighted([("topn", 3), ("predict", 2), ("rec", 4)])
    case["builder"] = how
    if how == "topn":
        case["predicts_ratings"] = rng.choice([False, True, "raw"])
        case["n"] = rng.choice([-1, 10, 100])
    elif how == "predict":
        fb = rng.choice([True, False, "bias"])
        case["fallback"] = {"code": "lenskit.basic.bias:BiasScorer", "settings": settings(SHIPPED_SCORERS["lenskit.basic.bias:BiasScorer"])} if fb == "bias" else fb
    else:
        case["n"] = rng.choice([-1, 20])
        if rng.chance(3, 4):
            rk = rng.choice(sorted(SHIPPED_RANKERS))
            case["ranker"] = {"code": rk, "settings": settings(SHIPPED_RANKERS[rk])}
        if rng.chance(1, 2):
            case["selector"] = rng.choice(SELECTORS)
        case["predicts_ratings"] = rng.chance(1, 2)
        if case["predicts_ratings"] and rng.chance(1, 2):
            fbs = rng.choice(["lenskit.basic.bias:BiasScorer", "lenskit.basic.popularity:PopScorer"])
            case["fallback"] = {"code": fbs, "settings": settings(SHIPPED_SCORERS[fbs])}
    case["tamper"] = rng.sample(["hash", "setting", "connection", "alias", "default", "name", "drop_hash", "reorder"], 3)
    return case


_PENDING: list = []
_CACHE: dict = {}


def gen_cases(rng, tier):
    n = 256 if tier == "quick" else 1600
    out = []
    for k in range(n):
        r = rng.fork(k)
        if k % 4 == 3:
            out.append(gen_std(r))
        else:
            out.append(gen_graph(r, malformed=(k % 8 == 6)))
    _PENDING[:] = out
    return out


# ---------------------------------------------------------------------------------------------
# tampered documents (pure JSON surgery on the producer's document)
# ---------------------------------------------------------------------------------------------


def tamper(doc_text: str, kind: str):
    """Returns (text, expectation) or None if not applicable.  expectation: 'warn' (content no longer matches the
    recorded hash: must warn, and the reloaded hash must differ) or 'same' (no warning, same hash)."""
    d = json.loads(doc_text)
    comps = d["components"]
    names = [i["name"] for i in d["inputs"]] + list(d["literals"]) + list(comps)
    if kind == "hash":
        h = d["meta"]["hash"]
        d["meta"]["hash"] = ("0" if h[0] != "0" else "1") + h[1:]
        return json.dumps(d), "warn-same-content"
    if kind == "drop_hash":
        d["meta"]["hash"] = None
        return json.dumps(d), "same"
    if kind == "name":
        d["meta"]["name"] = (d["meta"]["name"] or "") + "x"
        return json.dumps(d), "warn"
    if kind == "version":
        d["meta"]["version"] = (d["meta"]["version"] or "0") + ".1"
        return json.dumps(d), "warn"
    if kind == "setting":
        for cn, c in comps.items():
            cfg = c.get("config") or {}
            for k, v in cfg.items():
                if isinstance(v, bool):
                    cfg[k] = not v
                    return json.dumps(d), "warn"
                if isinstance(v, int) and 1 <= v < 1000:
                    cfg[k] = v + 1
                    return json.dumps(d), "warn"
        return None
    if kind == "connection":
        ins = [i["name"] for i in d["inputs"]]
        for cn, c in comps.items():
            for k, t in c["inputs"].items():
                alt = [n for n in ins if n != t]
                if alt:
                    c["inputs"][k] = alt[0]
                    return json.dumps(d), "warn"
        return None
    if kind == "alias":
        if d["aliases"]:
            a = sorted(d["aliases"])[0]
            alt = [n for n in names if n != d["aliases"][a]]
            if alt:
                d["aliases"][a] = alt[0]
                return json.dumps(d), "warn"
        d["aliases"]["zz9"] = names[0]
        return json.dumps(d), "warn"
    if kind == "default":
        alt = [n for n in list(comps) + list(d["aliases"]) if n != d.get("default")]
        if not alt:
            return None
        d["default"] = alt[0]
        return json.dumps(d), "warn"
    if kind == "literal":
        for ln, lit in d["literals"].items():
            if lit["encoding"] == "json" and isinstance(lit["value"], int) and not isinstance(lit["value"], bool):
                lit["value"] += 1
                return json.dumps(d), "warn"
        return None
    if kind == "reorder":
        for c in comps.values():
            c["inputs"] = dict(reversed(list(c["inputs"].items())))
        d["aliases"] = dict(reversed(list(d["aliases"].items())))
        for i in d["inputs"]:
            if i.get("types"):
                i["types"] = list(reversed(i["types"]))
        return json.dumps(d), "same"
    raise AssertionError(kind)


# ---------------------------------------------------------------------------------------------
# implementation driver: batches of cases in fresh processes with different PYTHONHASHSEED
# ---------------------------------------------------------------------------------------------


def _key(case):
    return common.digest({k: v for k, v in case.items() if not k.startswith("_")})


def _worker(seed, job, tag, tmp):
    jf, of = Path(tmp) / f"job_{tag}.json", Path(tmp) / f"out_{tag}.json"
    jf.write_text(json.dumps(job))
    p = subprocess.run([common.PY, str(common.VERIF / "harness" / "c13_worker.py"), str(jf), str(of)],
                       env=common.base_env(PYTHONHASHSEED=seed), capture_output=True, text=True, timeout=1500)
    if p.returncode != 0 or not of.exists():
        raise RuntimeError(f"c13 worker (seed {seed}) failed: {p.stderr[-1500:]}")
    return json.loads(of.read_text())


def _run_batch(cases):
    nchunk = max(1, min(4, len(cases) // 20))
    chunks = [cases[i::nchunk] for i in range(nchunk)]
    with tempfile.TemporaryDirectory(prefix="c13-") as tmp, ThreadPoolExecutor(common.NPROC) as ex:
        prod_seed = [SEEDS[j % 4] for j in range(nchunk)]
        firsts = list(ex.map(lambda j: _worker(prod_seed[j], {"cases": chunks[j]}, f"p{j}", tmp), range(nchunk)))
        jobs = []
        all_docs = []
        for j in range(nchunk):
            docs = {}
            for i, (case, o) in enumerate(zip(chunks[j], firsts[j])):
                dl = []
                b = o.get("built", {})
                if b.get("err") == 0:
                    dl.append(["orig", b["js_full"], "same"])
                    for kind in case.get("tamper", []):
                        t = tamper(b["js_full"], kind)
                        if t:
                            dl.append([kind, t[0], t[1]])
                docs[str(i)] = dl
            all_docs.append(docs)
            for s in SEEDS:
                if s != prod_seed[j]:
                    jobs.append((j, s))
        outs = list(ex.map(lambda js: _worker(js[1], {"cases": chunks[js[0]], "docs": {k: [d[:2] for d in v] for k, v in all_docs[js[0]].items()}},
                                              f"r{js[0]}_{js[1]}", tmp), jobs))
    for j in range(nchunk):
        for i, case in enumerate(chunks[j]):
            obs = {"producer_seed": prod_seed[j], "first": firsts[j][i], "others": {}, "docs": all_docs[j][str(i)]}
            for (jj, s), o in zip(jobs, outs):
                if jj == j:
                    obs["others"][s] = o[i]
            for o in [obs["first"]] + list(obs["others"].values()):
                if "harness_error" in o:
                    raise RuntimeError("worker: " + o["harness_error"] + "\n" + o.get("trace", ""))
            _CACHE[_key(case)] = obs


_BATCH_ERROR: list = []


def run_impl(case):
    k = _key(case)
    if k not in _CACHE:
        pend = [c for c in _PENDING if _key(c) not in _CACHE]
        if any(_key(c) == k for c in pend):
            if _BATCH_ERROR:
                raise RuntimeError(_BATCH_ERROR[0])
            try:
                _run_batch(pend)
            except Exception as e:
                _BATCH_ERROR.append(f"batch failed: {e}")
                raise
        else:
            _run_batch([case])
    return _CACHE[k]


# ---------------------------------------------------------------------------------------------
# model side
# ---------------------------------------------------------------------------------------------


_INTERN: list = []      # innermost: {text: let-bound name} while a case term is being assembled


def cs(s: str) -> str:
    """Coq string literal of arbitrary text (a double quote is written twice).  Inside a case term a long text (a whole
    configuration document) is cut at its object boundaries; every piece is written once, as a byte list bound by a `let`
    (Model/C13_text.v), and the text is the concatenation of the names -- the many near-identical documents of one case
    (with / without nulls, without the hash, tampered, observed at several points of a history) share almost all pieces."""
    if _INTERN and s:
        # (every string literal costs Coq a fixed ~0.3 ms whatever its length, a name nothing: also the short ones are bound)
        tab = _INTERN[-1]
        pieces = _PIECE.split(s) if len(s) >= 200 else [s]
        out = []
        for pc in pieces:
            if not pc:
                continue
            if pc not in tab:
                tab[pc] = f"z_{len(tab)}"
            out.append(tab[pc])
        return out[0] if len(out) == 1 else "(" + " ++ ".join(out) + ")%string"
    return '"' + s.replace('"', '""') + '"'


import re as _re

_PIECE = _re.compile(r'(?<=[}\]],)(?=")')    # zero-width: after `},` / `],` where a new key starts


def in_domain(s: str) -> bool:
    return not any(ch in '"\\' or ord(ch) < 32 or ord(ch) == 127 for ch in s)


class OutOfDomain(Exception):
    pass


def cname(s):
    if not in_domain(s):
        raise OutOfDomain(s)
    return cs(s)


def cjson(v):
    import pydantic_core
    if isinstance(v, str):
        return f"(JStr {cname(v)})"
    if v is None or isinstance(v, (bool, int, float)):
        return f"(JTok {cs(pydantic_core.to_json(v).decode())})"
    if isinstance(v, list):
        return "(JArr [" + "; ".join(cjson(x) for x in v) + "])"
    if isinstance(v, dict):
        return "(JObj [" + "; ".join(f"({cname(k)}, {cjson(x)})" for k, x in v.items()) + "])"
    raise OutOfDomain(repr(v))


def cpyv(e):
    "Coq description (Model/C13_literal.v, type pyv) of an encoded literal value: the type of every part is kept"
    import c13_lit
    import pydantic_core
    t = c13_lit.tag_of(e)
    if t is None:
        if e is None:
            return "PNone"
        if isinstance(e, bool):
            return f"(PBool {cbool(e)})"
        if isinstance(e, int):
            return f"(PInt {cs(str(e))})"
        if isinstance(e, float):
            return f"(PFloat {cs(pydantic_core.to_json(e).decode())})"
        if isinstance(e, str):
            return f"(PStr {cname(e)})"
        if isinstance(e, list):
            return "(PList [" + "; ".join(cpyv(x) for x in e) + "])"
        return "(PDict [" + "; ".join(f"(PStr {cname(k)}, {cpyv(x)})" for k, x in e.items()) + "])"
    x = e[t]
    if t == "__tuple__":
        return "(PTuple [" + "; ".join(cpyv(y) for y in x) + "])"
    if t == "__float__":
        return f"(PFloatNF {cs(x)})"
    if t == "__idict__":
        return "(PDict [" + "; ".join(f"({cpyv(k)}, {cpyv(v)})" for k, v in x) + "])"
    if t == "__odict__":
        return "(PSub (PDict [" + "; ".join(f"({cpyv(k)}, {cpyv(v)})" for k, v in x) + "]))"
    if t == "__strs__":
        return f"(PSub (PStr {cname(x)}))"
    if t == "__inte__":
        return f"(PSub (PInt {cs(str(x))}))"
    if t == "__nps__" and x[0] in ("float64", "bool"):
        # numpy.float64 is a subclass of float; NumPy's bool type is NAMED bool (what a lax JSON validator looks at)
        return f"(PSub {cpyv(x[1])})"
    return f"(POther {cs(t.strip('_') + (':' + x[0] if t in ('__np__', '__nps__') else ''))})"


def c_lit_checks(case, obs):
    """for every literal value the case writes: the entry the implementation represents it by (encoding, value) must be the
    one the model derives from the TYPE structure of the value (pickle text computed by the harness)"""
    parts, seen = [], set()
    for o in [obs["first"]] + list(obs["others"].values()):
        for opsk in ("ops", "ops2"):
            for op, r in zip(case.get(opsk) or [], o.get(opsk) or []):
                if op["op"] == "literal":
                    vals = [op["value"]]
                elif op["op"] == "defconn":
                    vals = [op["target"]["lit"]] if "lit" in op["target"] else []
                elif op["op"] in ("add", "replace", "connect"):
                    vals = [t["lit"] for _, t in op["ins"] if "lit" in t]
                else:
                    continue
                for e, l in zip(vals, r.get("lits") or []):
                    if not l:
                        continue
                    sig = json.dumps([e, l["enc"], l["value"], l["pk"]], sort_keys=True)
                    if sig in seen:
                        continue
                    seen.add(sig)
                    parts.append(f"lit_agree {cs(l['pk'])} {cpyv(e)} {cname(l['enc'])} {cjson(l['value'])}")
    return parts


def cobj(d):
    return "[" + "; ".join(f"({cname(k)}, {cjson(x)})" for k, x in d.items()) + "]"


def coobj(d):
    return "None" if d is None else f"(Some {cobj(d)})"


def costr(s):
    return "None" if s is None else f"(Some {cname(s)})"


def cdict(d):
    return "[" + "; ".join(f"({cname(k)}, {cname(v)})" for k, v in d.items()) + "]"


def c_config(d):
    "Coq PipelineConfig record of a configuration document (a parsed JSON dict)"
    m = d["meta"]
    meta = f"{{| m_name := {costr(m.get('name'))}; m_version := {costr(m.get('version'))}; m_hash := {costr(m.get('hash'))} |}}"
    ins = "[" + "; ".join(
        f"{{| i_name := {cname(i['name'])}; i_types := " + ("None" if i.get("types") is None else "Some [" + "; ".join(cname(t) for t in i["types"]) + "]") + " |}"
        for i in d["inputs"]) + "]"
    comps = "[" + "; ".join(
        f"({cname(n)}, {{| c_code := {cname(c['code'])}; c_config := {coobj(c.get('config'))}; c_inputs := {cdict(c.get('inputs', {}))} |}})"
        for n, c in d["components"].items()) + "]"
    lits = "[" + "; ".join(
        f"({cname(n)}, {{| l_enc := {cname(l['encoding'])}; l_value := {cjson(l.get('value'))} |}})" for n, l in d["literals"].items()) + "]"
    return (f"{{| cf_meta := {meta}; cf_inputs := {ins}; cf_components := {comps}; cf_aliases := {cdict(d['aliases'])}; "
            f"cf_default := {costr(d.get('default'))}; cf_literals := {lits} |}}")


def c_target(t, lits):
    if "node" in t:
        return f"(TNode {cname(t['node'])})"
    nm = lits.pop(0) if lits else None
    if nm is None:
        return '(TLit "?" "json" (JTok "null"))'
    return f"(TLit {cname(nm['name'])} {cname(nm['enc'])} {cjson(nm['value'])})"


def c_ops(ops, results):
    out = []
    for op, r in zip(ops, results):
        k = op["op"]
        lits = list(r.get("lits", []))
        if k == "observe":
            continue
        if k == "set_name":
            out.append(f"OSetName {costr(op['value'])}")
        elif k == "set_version":
            out.append(f"OSetVersion {costr(op['value'])}")
        elif k == "input":
            ts = [t for key in op["types"] for t in TYPE_NAMES[key]]
            out.append(f"OInput {cname(op['name'])} [" + "; ".join(cname(t) for t in ts) + "]")
        elif k == "literal":
            l = lits[0] if lits and lits[0] else {"name": op.get("name") or "?", "enc": "json", "value": None}
            out.append(f"OLiteral {cname(l['name'])} {cname(l['enc'])} {cjson(l['value'])}")
        elif k in ("add", "replace"):
            ins = "[" + "; ".join(f"({cname(p)}, {c_target(t, lits)})" for p, t in op["ins"]) + "]"
            raw = op.get("settings") if op.get("style") in ("class", "instance") else None
            out.append(f"{'OAdd' if k == 'add' else 'OReplace'} {cname(op['name'])} {cname(CODES[op['comp']])} {coobj(raw)} {ins}")
        elif k == "first_of":
            out.append(f"OAdd {cname(op['name'])} {cname(CODES['first_of'])} None [(\"primary\", TNode {cname(op['primary'])}); (\"fallback\", TNode {cname(op['fallback'])})]")
        elif k == "connect":
            ins = "[" + "; ".join(f"({cname(p)}, {c_target(t, lits)})" for p, t in op["ins"]) + "]"
            out.append(f"OConnect {cname(op['name'])} {ins}")
        elif k == "alias":
            out.append(f"OAlias {cname(op['alias'])} {cname(op['node'])}")
        elif k == "remove_alias":
            out.append(f"ORemoveAlias {cname(op['alias'])} {cbool(op['exist_ok'])}")
        elif k == "defconn":
            out.append(f"ODefaultConn {cname(op['param'])} {c_target(op['target'], lits)}")
        elif k == "defcomp":
            out.append(f"ODefaultComp {cname(op['name'])}")
        elif k == "clear":
            out.append(f"OClear {cname(op['name'])}")
        else:
            raise AssertionError(k)
    return _bind("[" + ";\n   ".join(out) + "]")


_BOUND: list = []       # innermost: {Coq expression: let-bound name} while a case term is being assembled


def _bind(expr: str) -> str:
    "a (large) Coq expression written once per case term and referred to by name"
    if not _BOUND:
        return expr
    tab = _BOUND[-1]
    if expr not in tab:
        tab[expr] = f"y_{len(tab)}"
    return tab[expr]


def _all_built(obs):
    "every observation of a successfully built/reloaded pipeline, in any process"
    for o in [obs["first"]] + list(obs["others"].values()):
        for k in ("built", "built2", "clone", "reobj", "rejson", "revalidate"):
            if k in o and o[k].get("err") == 0:
                yield o[k]
        for r in o.get("reloads", []):
            if r.get("err") == 0:
                yield r
        for resk in ("ops", "ops2"):
            for r in o.get(resk) or []:
                c = r.get("obs")
                if c:
                    for k in ("built", "clone"):
                        if k in c and c[k].get("err") == 0:
                            yield c[k]
        e = o.get("from_config_edit")
        if e and e.get("err") == 0:
            yield e


def tables(case, obs):
    sigs, norm, hashes = {}, [], {}
    seen_norm = set()

    def add_norm(code, raw, res):
        key = json.dumps([code, raw, res], sort_keys=False)
        if key not in seen_norm:
            seen_norm.add(key)
            r = "None" if res == "invalid" else f"(Some {coobj(res)})"
            norm.append(f"({cname(code)}, {coobj(raw)}, {r})")

    for o in [obs["first"]] + list(obs["others"].values()):
        for opsk, resk in (("ops", "ops"), ("ops2", "ops2")):
            for op, r in zip(case.get(opsk) or [], o.get(resk) or []):
                if op["op"] in ("add", "replace") and op.get("style") in ("class", "instance"):
                    code = CODES[op["comp"]]
                    if r["err"] == 5:
                        add_norm(code, op.get("settings"), "invalid")
                    elif "dumped" in r:
                        add_norm(code, op.get("settings"), r["dumped"])
                if "sig" in r:
                    sigs.setdefault(r["code"], r["sig"])
    for b in _all_built(obs):
        hashes.setdefault(b["pre"], b["hash"])
        for c, s in b.get("sigs", {}).items():
            sigs.setdefault(c, s)
    # settings of a document as revalidated by the process that reloads it
    for o in obs["others"].values():
        for (label, text, _), r in zip(obs["docs"], o.get("reloads", [])):
            if r.get("err") == 0:
                d, d2 = json.loads(text), json.loads(r["js_full"])
                for n, c in d["components"].items():
                    if n in d2["components"]:
                        add_norm(c["code"], c.get("config"), d2["components"][n].get("config"))
    o = obs["first"]
    if o["built"].get("err") == 0:
        d = json.loads(o["built"]["js_full"])
        for k in ("clone", "reobj", "rejson", "revalidate"):
            if o.get(k, {}).get("err") == 0:
                d2 = json.loads(o[k]["js_full"])
                for n, c in d["components"].items():
                    if n in d2["components"]:
                        add_norm(c["code"], c.get("config"), d2["components"][n].get("config"))
    t_sig = "[" + "; ".join(f"({cname(c)}, [" + "; ".join(cname(p) for p in ps) + "])" for c, ps in sigs.items()) + "]"
    t_hash = "[" + "; ".join(f"({cs(p)}, {cs(h)})" for p, h in hashes.items()) + "]"
    return f"{{| t_sig := {t_sig}; t_norm := [" + "; ".join(norm) + f"]; t_hash := {t_hash} |}}"


def c_built(b):
    if b.get("err"):
        return f"{cnat(b['err'])} \"\" \"\" \"\""
    return f"0%nat {cs(b['js_ex'])} {cs(b['js_full'])} {cs(b['pre'])}"


def c_reload(r):
    if r.get("err"):
        return f"{cnat(r['err'])} \"\" {cbool(r.get('warn', False))}"
    return f"0%nat {cs(r['js_ex'])} {cbool(r['warn'])}"


_TERMS: dict = {}


def coq_term(case, obs):
    k = _key(case)
    if k not in _TERMS:
        try:
            _TERMS[k] = _coq_term(case, obs)
        except OutOfDomain:
            _TERMS[k] = None
    return _TERMS[k]


def _with_lits(case, obs_ops, key):
    "attach the representation of the literal nodes an op created (taken from the implementation)"
    return obs_ops


def _coq_term(case, obs):
    _INTERN.append({})
    _BOUND.append({})
    try:
        body = _coq_term_body(case, obs)
        tab, bound = _INTERN[-1], _BOUND[-1]
    finally:
        _INTERN.pop()
        _BOUND.pop()
    if body is None:
        return None
    lets = "".join(f"let {name} := sb \"{text.replace(chr(34), chr(34) * 2)}\"%bs in\n " for text, name in tab.items())
    lets += "".join(f"let {name} := {expr} in\n " for expr, name in bound.items())
    return f"({lets}{body})"


def _coq_term_body(case, obs):
    T = tables(case, obs)
    parts = []
    first = obs["first"]
    procs = [first] + list(obs["others"].values())
    if case["kind"] == "graph":
        seen = set()
        for o in procs:
            for opsk, resk, bk in (("ops", "ops", "built"), ("ops2", "ops2", "built2")):
                if case.get(opsk) is None:
                    continue
                sig = json.dumps([opsk, o[resk], {k: o[bk].get(k) for k in ("err", "js_ex", "js_full", "pre")}], sort_keys=True)
                if sig in seen:
                    continue
                seen.add(sig)
                ops = c_ops(case[opsk], o[resk])
                codes = clist([r["err"] for op_, r in zip(case[opsk], o[resk]) if op_["op"] != "observe"], cnat)
                parts.append(f"(let r := case_run T {costr(case.get('name'))} {costr(case.get('version'))}\n  {ops} in\n"
                             f"  agree_ops r {codes} && agree_built (case_build T (fst r)) {c_built(o[bk])}"
                             + "".join(f" && agree_clone T (fst r) {c_reload(o[k])}" for k in ("clone", "reobj", "rejson", "revalidate")
                                       if k in o and opsk == "ops") + ")")
        # the same builder observed in the middle of its history: the model of the builder state at that moment
        seen = set()
        for o in procs:
            for i, (op_, r) in enumerate(zip(case["ops"], o["ops"])):
                if op_["op"] != "observe":
                    continue
                c = r["obs"]
                sig = json.dumps([i, {k: c["built"].get(k) for k in ("err", "js_ex", "js_full", "pre")}, c.get("clone", {}).get("js_ex"), c.get("clone", {}).get("warn")])
                if sig in seen:
                    continue
                seen.add(sig)
                # the history up to this point: a prefix of the whole (let-bound) operation list
                pre_ops = f"(firstn {sum(1 for x in case['ops'][:i] if x['op'] != 'observe')}%nat {c_ops(case['ops'], o['ops'])})"
                parts.append(f"(let r := case_run T {costr(case.get('name'))} {costr(case.get('version'))}\n  {pre_ops} in\n"
                             f"  agree_built (case_build T (fst r)) {c_built(c['built'])}"
                             + (f" && agree_clone T (fst r) {c_reload(c['clone'])}" if "clone" in c else "") + ")")
        # a builder loaded from the document, edited once more, built
        seen = set()
        for o in procs:
            e = o.get("from_config_edit")
            if e is None or o["built"].get("err"):
                continue
            sig = json.dumps([o["built"]["js_full"], e.get("err"), e.get("js_ex")])
            if sig in seen:
                continue
            seen.add(sig)
            ed = case["fc_edit"]
            mop = {"default": lambda: f"(ODefaultComp {cname(ed['value'])})", "name": lambda: f"(OSetName (Some {cname(ed['value'])}))",
                   "version": lambda: f"(OSetVersion (Some {cname(ed['value'])}))",
                   "alias": lambda: f"(OAlias {cname(ed['alias'])} {cname(ed['value'])})"}[ed["kind"]]()
            parts.append(f"agree_built (case_reload_edit T {c_config(json.loads(o['built']['js_full']))} {mop}) {c_built(e)}")
    else:
        b = first["built"]
        if b.get("err") == 0:
            d = json.loads(b["js_full"])
            parts.append(f"(let c := {c_config(d)} in String.eqb (serialize true c) {cs(b['js_ex'])} && String.eqb (serialize false c) {cs(b['js_full'])}"
                         f" && String.eqb (preimage c) {cs(b['pre'])} && agree_reload (case_reload T c) {c_reload(first['clone'])})")
    # documents reloaded in the other processes
    seen = set()
    for o in obs["others"].values():
        for (label, text, _), r in zip(obs["docs"], o.get("reloads", [])):
            sig = json.dumps([text, r.get("err"), r.get("js_ex"), r.get("warn")])
            if sig in seen:
                continue
            seen.add(sig)
            parts.append(f"agree_reload (case_reload T {c_config(json.loads(text))}) {c_reload(r)}")
    if case["kind"] == "graph":
        parts.extend(c_lit_checks(case, obs))
    if not parts:
        return None
    return f"(let T := {T} in\n " + "\n && ".join(parts) + ")"


# ---------------------------------------------------------------------------------------------
# the property as a predicate on implementation output (independent of the Coq model)
# ---------------------------------------------------------------------------------------------


def _sorted_shape(doc):
    d = json.loads(doc)
    ok = list(d["aliases"]) == sorted(d["aliases"])
    for c in d["components"].values():
        ok = ok and list(c["inputs"]) == sorted(c["inputs"])
    for i in d["inputs"]:
        if i.get("types") is not None:
            ok = ok and i["types"] == sorted(i["types"])
    return ok


def oracle(case, obs):
    v = []

    def bad(key, msg):
        if all(k != key for k, _ in v):
            v.append((key, msg))

    first = obs["first"]
    procs = {obs["producer_seed"]: first, **obs["others"]}
    b0 = first["built"]
    expect_ok = case["kind"] == "std" or not case["style"].startswith("malformed")
    if expect_ok and b0.get("err") and not (case["kind"] == "graph" and b0["err"] == 4):
        bad("build-fails", f"a well-formed pipeline description did not build (error {b0['err']})")
    # the same description built in every process
    for s, o in procs.items():
        b = o["built"]
        if b.get("err") != b0.get("err"):
            bad("build-outcome-differs-across-processes", f"seed {s}: error {b.get('err')} vs {b0.get('err')}")
            continue
        if b.get("err"):
            continue
        if hashlib.sha256(b["pre"].encode()).hexdigest() != b["hash"]:
            bad("hash-not-sha256-of-content", "config_hash is not the SHA-256 of the configuration without its hash")
        if json.loads(b["js_ex"])["meta"].get("hash") != b["hash"]:
            bad("hash-field", "meta.hash differs from config_hash")
        if b["js_ex"] != b0["js_ex"] or b["hash"] != b0["hash"]:
            bad("hash-differs-across-processes", f"the same pipeline has hash {b['hash'][:12]} under PYTHONHASHSEED={s} and {b0['hash'][:12]} under {obs['producer_seed']}")
        exp_name, exp_version = case.get("name"), case.get("version")
        for op_ in case.get("ops", []):
            if op_["op"] == "set_name":
                exp_name = op_["value"]
            elif op_["op"] == "set_version":
                exp_version = op_["value"]
        if case["kind"] == "graph" and (b["name"] != exp_name or b["version"] != exp_version):
            bad("name-version", "built pipeline does not carry the builder's name/version")
        if not _sorted_shape(b["js_full"]):
            bad("unsorted-document", "wiring, aliases or type sets are not serialised in sorted order")
        # declaration order of connections / aliases
        if "built2" in o:
            b2 = o["built2"]
            if b2.get("err") != b.get("err") or (not b2.get("err") and (b2["hash"] != b["hash"] or b2["js_ex"] != b["js_ex"])):
                bad("declaration-order-changes-hash", "the same graph with connections/aliases declared in another order has a different configuration or hash")
        # clone, JSON round trip, builder-level reload: in the same process
        for k, what in (("clone", "clone()"), ("reobj", "from_config(the configuration object)"), ("rejson", "from_config(json)"),
                        ("revalidate", "from_config(model_validate_json(model_dump_json()))")):
            r = o.get(k)
            if r is None:
                continue
            if r.get("err"):
                bad(f"{k}-fails", f"{what} of a built pipeline raised (error {r['err']})")
                continue
            if r["warn"]:
                bad(f"{k}-warns", f"{what} warned about a hash mismatch")
            if r["js_ex"] != b["js_ex"]:
                diff = _first_diff(json.loads(b["js_full"]), json.loads(r["js_full"]))
                bad(f"{k}-differs:{diff[0]}", f"{what} differs from the original at {diff[1]}")
            if r["name"] != b["name"] or r["version"] != b["version"]:
                bad(f"{k}-name-version", f"{what} lost the pipeline name or version")
            if r.get("runs") != b.get("runs"):
                bad(f"{k}-runs-differ", f"{what} returns different results before training: {r.get('runs')} vs {b.get('runs')}")
        # literal nodes, through the public interface only
        lc = b.get("literal_checks")
        if lc:
            for comp, param, want, got in lc["delivery"][:1]:
                bad("literal-not-delivered", f"{comp}.{param} was given the literal {want} but its literal node yields {got} (seed {s})")
            for name, held, meant in lc["faithful"][:1]:
                bad("literal-json-text-means-another-value", f"literal node {name} holds {held} but the document declares it as JSON, "
                    f"where it reads {meant}")
        # the same history with one literal replaced by an equal-looking value of another type
        b3 = o.get("built3")
        site = case.get("ops3_site")
        # (only when the operation that writes the literal succeeded both times: a call that is refused - e.g. wiring an
        #  input through an alias - fails before it creates the literal node)
        site_ok = site is not None and "ops2" in o and "ops3" in o and o["ops2"][site]["err"] == 0 and o["ops3"][site] == 0 \
            and any(st[0] == site and json.dumps(st[2], sort_keys=True) == json.dumps(case["ops3_change"][0], sort_keys=True)
                    and type_change_visible(case["ops2"], st, case["ops3_change"][1]) for st in lit_sites(case["ops2"]))
        if b3 is not None and site_ok and not b3.get("err") and b3["hash"] == b["hash"]:
            frm, to = case.get("ops3_change", [None, None])
            bad("hash-insensitive-to-literal-type", f"replacing the literal {json.dumps(frm)} by {json.dumps(to)} did not change the configuration hash"
                + (" although the results differ" if b3.get("runs") != b.get("runs") else ""))
        bf = o.get("builder_from_config")
        if bf is not None and (bf["err"] or bf["warn"] or bf["hash"] != b["hash"] or bf["name"] != b["name"] or bf["version"] != b["version"]):
            bad("builder-from-config", f"PipelineBuilder.from_config(json) disagrees: {bf}")
        am = o.get("after_modify")
        if am is not None and (not am["same"] or am["clone_err"] or am["clone_warn"] or not am.get("runs_same", True)):
            what = ("its configuration now reads differently at " + str(_first_diff(json.loads(b["js_full"]), json.loads(am["now"]))[1])) if not am["same"] \
                else "its clone fails or warns about a hash mismatch" if am["clone_err"] or am["clone_warn"] else "it returns different results"
            bad("source-altered-by-derived-builder", f"after Pipeline.modify() and {am['edits']} connect() edits on the DERIVED builder the source pipeline changed: {what}")
    # builder histories: the same builder observed several times with edits in between
    if case["kind"] == "graph":
        for s, o in procs.items():
            prev, since = None, []
            points = [(op_, r.get("obs")) for op_, r in zip(case["ops"], o["ops"])] + [({"op": "observe", "how": "final build"}, {"built": o["built"], "clone": o.get("clone")})]
            for op_, c in points:
                if op_["op"] != "observe":
                    since.append(op_)
                    continue
                hist = "after [" + ", ".join(x["op"] + (":" + str(x.get("name", x.get("value", x.get("alias", "")))) if x["op"] in ("defcomp", "set_name", "set_version", "alias") else "") for x in since[-6:]) \
                       + f"] observed by {op_['how']} (seed {s})"
                bb = c["built"]
                if not bb.get("err"):
                    if hashlib.sha256(bb["pre"].encode()).hexdigest() != bb["hash"]:
                        bad("history:recorded-hash-is-not-the-hash-of-the-content", f"builder {hist}: the built configuration records hash {bb['hash'][:12]} "
                            f"but its content hashes to {hashlib.sha256(bb['pre'].encode()).hexdigest()[:12]}")
                    for k in ("first", "config_hash"):
                        if c.get(k) is not None and c[k] != bb["hash"]:
                            bad("history:hash-differs-between-calls", f"builder {hist}: {k} returned {c[k][:12]}, build() records {bb['hash'][:12]}")
                    cl = c.get("clone")
                    if cl is not None:
                        if cl.get("err"):
                            bad("history:clone-fails", f"builder {hist}: clone of the pipeline it builds raised (error {cl['err']})")
                        else:
                            if cl["warn"]:
                                bad("history:clone-warns", f"builder {hist}: cloning the pipeline it builds warns about a hash mismatch")
                            if cl["hash"] != bb["hash"]:
                                bad("history:clone-differs", f"builder {hist}: the clone has hash {cl['hash'][:12]}, the pipeline {bb['hash'][:12]}")
                    if prev is not None and not prev.get("err"):
                        if (prev["pre"] != bb["pre"]) != (prev["hash"] != bb["hash"]):
                            kinds = sorted({x["op"] for x in since})
                            bad("history:change-does-not-change-hash:" + "+".join(kinds), f"builder {hist}: the content "
                                + ("changed but the hash did not" if prev["pre"] != bb["pre"] else "did not change but the hash did"))
                    prev, since = bb, []
            e = o.get("from_config_edit")
            if e is not None and not o["built"].get("err") and not e.get("err"):
                what = f"PipelineBuilder.from_config(document with hash) then {case['fc_edit']} then build() (seed {s})"
                if hashlib.sha256(e["pre"].encode()).hexdigest() != e["hash"]:
                    bad("history:from-config-edit-keeps-old-hash", f"{what}: the recorded hash is not the hash of the content")
                if e["pre"] != o["built"]["pre"] and e["hash"] == o["built"]["hash"]:
                    bad("history:from-config-edit-does-not-change-hash", f"{what}: the edit did not change the hash")
                if e.get("clone", {}).get("warn"):
                    bad("history:from-config-edit-clone-warns", f"{what}: cloning the result warns about a hash mismatch")
    # documents reloaded in the other processes
    for s, o in obs["others"].items():
        for (label, text, expect), r in zip(obs["docs"], o.get("reloads", [])):
            if label == "orig" or expect == "same":
                if r.get("err"):
                    bad(f"reload-fails:{label}", f"document produced under seed {obs['producer_seed']} cannot be loaded under seed {s} (error {r['err']})")
                    continue
                if r["warn"]:
                    bad(f"reload-warns:{label}", f"loading an unmodified document under seed {s} warns about the hash")
                if r["hash"] != b0["hash"]:
                    diff = _first_diff(json.loads(b0["js_full"]), json.loads(r["js_full"]))
                    bad(f"reload-differs:{label}:{diff[0]}", f"reloaded pipeline differs at {diff[1]}")
                if label == "orig" and r.get("runs") != b0.get("runs"):
                    bad("reload-runs-differ", f"reloaded pipeline returns different results: {r.get('runs')} vs {b0.get('runs')}")
                if label == "orig" and (r["name"] != b0["name"] or r["version"] != b0["version"]):
                    bad("reload-name-version", "reloaded pipeline lost name or version")
            elif expect == "warn-same-content":
                if r.get("err") or not r["warn"]:
                    bad("tampered-hash-no-warning", "a document whose recorded hash was altered loads without warning")
                elif r["hash"] != b0["hash"]:
                    bad("tampered-hash-changes-content", "altering only the recorded hash changed the rebuilt configuration")
            elif expect == "warn":
                if r.get("err"):
                    continue   # the altered content is not a valid pipeline (e.g. a cycle); nothing to compare
                if not r["warn"]:
                    bad(f"tampered-{label}-no-warning", f"a document whose {label} was altered but whose hash was kept loads without warning")
                if r["hash"] == b0["hash"]:
                    bad(f"hash-insensitive-to-{label}", f"changing the {label} did not change the configuration hash")
    return v


def _first_diff(a, b, path=""):
    if type(a) is not type(b):
        return (path.split(".")[1] if "." in path else path or "root", path)
    if isinstance(a, dict):
        for k in list(a) + [k for k in b if k not in a]:
            if k not in a or k not in b:
                p = f"{path}.{k}"
                return (p.split(".")[1], p)
            if a[k] != b[k]:
                return _first_diff(a[k], b[k], f"{path}.{k}")
        if list(a) != list(b):
            return ((path.split(".") + ["order"])[1], path + " (key order)")
    if isinstance(a, list):
        if len(a) != len(b):
            return ((path.split(".") + ["len"])[1], path + " (length)")
        for i, (x, y) in enumerate(zip(a, b)):
            if x != y:
                return _first_diff(x, y, f"{path}.{i}")
    return ((path.split(".") + ["value"])[1], path)


def nontrivial(case, obs):
    b = obs["first"]["built"]
    if b.get("err") or len(obs["others"]) < 2:
        return False
    d = json.loads(b["js_full"])
    comps = d["components"]
    if len(comps) < 2 or not any(c["inputs"] for c in comps.values()):
        return False
    return bool(d["aliases"] or d["literals"] or any(len(i.get("types") or []) > 1 for i in d["inputs"])
                or any(c.get("config") for c in comps.values()))


def counters(case, obs):
    yield "style=" + case["style"]
    b = obs["first"]["built"]
    yield f"build-error={b.get('err')}"
    yield f"producer-seed={obs['producer_seed']}"
    if case["kind"] == "graph":
        for r in obs["first"]["ops"]:
            if r["err"]:
                yield f"op-error={r['err']}"
        if case.get("fc_edit"):
            yield "from-config-then-edit=" + case["fc_edit"]["kind"]
        for _, _, e in lit_sites(case["ops"]):
            yield "literal=" + lit_kind(e)
        if case.get("ops3") is not None:
            yield "literal-type-change=" + lit_kind(case["ops3_change"][0]) + "->" + lit_kind(case["ops3_change"][1])
        lc = b.get("literal_checks")
        if lc:
            yield f"literal-deliveries-checked={min(lc['n'], 4)}"
        for o in case["ops"]:
            yield "op=" + o["op"]
            if o["op"] in ("add", "replace"):
                yield "component-style=" + o.get("style", "fn")
    else:
        yield "scorer=" + case["scorer"].split(":")[1]
        yield "std-builder=" + case["builder"]
        if case.get("ranker"):
            yield "ranker=" + case["ranker"]["code"].split(":")[1]
    if not b.get("err"):
        d = json.loads(b["js_full"])
        yield f"components={min(len(d['components']), 8)}"
        yield f"aliases={len(d['aliases'])}"
        yield f"literals={min(len(d['literals']), 4)}"
        for l in d["literals"].values():
            yield "literal-encoding=" + l["encoding"]
        yield f"max-types={max([len(i.get('types') or []) for i in d['inputs']] + [0])}"
        if d["meta"].get("name"):
            yield "named"
        if d["meta"].get("version"):
            yield "versioned"
        if any(v is None for c in d["components"].values() for v in (c.get("config") or {}).values()):
            yield "null-inside-settings"
        for label, _, expect in obs["docs"]:
            yield f"doc={label}"
        for o in obs["others"].values():
            for r in o.get("reloads", []):
                if r.get("warn"):
                    yield "reload-warned"
                if r.get("err"):
                    yield f"reload-error={r['err']}"
    if coq_term(case, obs) is None:
        yield "no-model-comparison"


def sample(case, obs):
    b = obs["first"]["built"]
    return {"case": {k: case[k] for k in case if k in ("kind", "name", "version", "ops", "scorer", "settings", "builder")},
            "observation": {"err": b.get("err"), "hash": b.get("hash"), "config": (b.get("js_ex") or "")[:600],
                            "processes": [obs["producer_seed"]] + sorted(obs["others"]),
                            "documents": [[l, e] for l, _, e in obs["docs"]]}}


def search(rng, rep):
    """Failing-input search used when an obligation is broken and the quick cases showed nothing: one more batch of
    fresh cases (built and reloaded in five processes like the others), the oracle evaluated on each."""
    cases = []
    for k in range(240):
        r = rng.fork(k)
        cases.append(gen_std(r) if k % 3 == 2 else gen_graph(r, malformed=(k % 10 == 9)))
    _PENDING[:] = cases
    try:
        _run_batch(cases)
    except Exception:
        return False
    for c in cases:
        obs = _CACHE.get(_key(c))
        if obs is None:
            continue
        vs = oracle(c, obs)
        if vs:
            key, what = vs[0]
            rep.violation(key, what, {"case": c, "observation": sample(c, obs)["observation"]})
            return True
    return False


_SHRUNK: list = []


def shrink(case, fails):
    # every reload costs fresh interpreter processes: shrink only the first few reported inputs
    if case["kind"] != "graph" or len(_SHRUNK) >= 2:
        return case
    _SHRUNK.append(1)
    c = dict(case)
    c.pop("ops2", None)
    if not fails(c):
        c = dict(case)
    keep_first = [o for o in c["ops"] if o["op"] == "input"]
    rest = [o for o in c["ops"] if o["op"] != "input"]
    rest = common.shrink_list(rest, lambda xs: fails({**c, "ops": keep_first + xs, "ops2": None}), 6)
    if fails({**c, "ops": keep_first + rest, "ops2": None}):
        c = {**c, "ops": keep_first + rest, "ops2": None}
    return c
