"""C02 -- a pipeline run is the functional evaluation of its DAG, each needed node once
(DESIGN.md section 4, C02; notes/design/C02.md)."""

from __future__ import annotations

import copy

import common
from common import cbool, clist, cnat, copt, cz
from framework import TranslateError  # noqa: F401

PID = "C02"
PROPS_FILE = "Props/C02.v"
GEN_FILES = ["Gen/C02_shape.v"]
MODEL_FILES = ["Model/C02_runner.v"]
MODEL_INDEPENDENT_OF_GEN = True
ALLOWED_AXIOMS: list[str] = []
CASE_HEADER = "From Coq Require Import ZArith List Bool.\nFrom LK Require Import Model.C02_runner.\nImport ListNotations."
SHARD = 40
TRUSTED = [
    "Coq 8.16.1 kernel + vm_compute (no native_compute); Print Assumptions of every theorem in Props/C02.v: closed under the global context",
    "hand-written model Model/C02_runner.v of PipelineRunner.run/_run_node/_inject_input/_run_component/DeferredRun.get, Pipeline.run/run_all and "
    "PipelineBuilder.build_config (default connections, cycle check), tied to the code by correspondence cases evaluated inside Coq: outcome or error "
    "class of Pipeline.run, execution log in call order, state mapping of run_all, several runs on one pipeline object",
    "extractor harness/translate/c02.py (Python ast -> Gen/C02_shape.v): a run builds a fresh PipelineRunner whose status map is all 'pending' and whose "
    "state is empty, and neither Pipeline.run/run_all nor the runner assign to the pipeline; status dispatch order of PipelineRunner.run; "
    "PipelineBuilder.connect/default_connection wire a Node by name and make a literal of anything else",
    "builder edits clear_inputs / replace_component are modelled by hand (EClear, EReplace: explicit connections of the old component kept unless overridden), "
    "tied to the code by the builder-history correspondence cases; calls that read the builder (config_hash, build_config, meta, build, validate, clone) are "
    "no edits in the model",
    "components are modelled as deterministic interaction trees; a body may catch the exception of a lazy input (TryForce) -- at_most_once, "
    "failed_node_not_retried, only_if_needed(i) cover such bodies, the theorems relating the run to the memo-free evaluation assume catch_free; "
    "graphlib.TopologicalSorter (cycle detection) and typing.get_type_hints are library contracts exercised by the correspondence runs, not verified",
    "error classes are canonicalised: KeyError and PipelineError('.. not specified' / 'no data available ..') -> EMissing, TypeError -> EType, "
    "PipelineError('.. cycle ..') -> ECycle, component exceptions -> EComp k (object identity checked by the harness)",
]
ASSUMPTIONS = [
    "components are deterministic functions of their (eager and forced lazy) inputs; run_correct, value_independent_of_consumer, only_if_needed(ii,iii), "
    "declaration_order_irrelevant, run_fuel_irrelevant, exception_transparent assume that no body catches an exception raised while forcing a lazy input "
    "(catch_free); at_most_once, failed_node_not_retried, only_if_needed(i) hold for catching bodies too",
    "theorems about results assume the resolved wiring is acyclic (a rank function exists) and the recursion bound exceeds the depth of the graph",
    "values are ints, bools (an int for the run-time type check, but told apart from the == int by every body), other objects (str, float, list, dict, tuple, "
    "NumPy scalar, Decimal, Fraction, complex, bytes, frozenset; distinguished down to the types of their parts), float64 / int64 arrays or None; parameter "
    "annotations are int, bool, ndarray[dtype], each also | None or Lazy[..], an unconstrained TypeVar, or absent",
    "builder histories: replace_component is exercised with a replacement that has the same parameter names (annotations and body differ)",
]
RULE = ("structured generator: 1-4 inputs (int / int|None / untyped; supplied, absent or ill-typed per run; untyped ones also carry strs and float64 / "
        "int64 arrays), 0-3 literals, 1-10 components of arity 0-4 declared in random order and wired by connect() to earlier or later-declared nodes, "
        "aliases, default connections, lazy parameters, use_first_of chains, parameters annotated int / int|None / Lazy[..] / TypeVar / none and (every "
        "4th graph) np.ndarray[Any, np.dtype[float64|int64]] fed with arrays of matching and non-matching dtype in either order within the one process, "
        "bodies that force lazies conditionally, return None / a non-int / an array, or raise one of 8 exception classes (custom, KeyError and a subclass, "
        "IndexError, LookupError, PipelineError, TypeError, ValueError); 2-5 runs per pipeline object with 0-3 requested nodes; "
        "0-3 values written directly in connect()/add_component()/default_connection() calls (ints, bools, None, floats, lists, dicts, strs -- half of "
        "them strs equal to the name of a node declared before or after the call, to an alias, or to no node); every 4th graph has bodies that force "
        "lazy inputs inside try/except and carry on, with runs that ask again for the node whose failure was caught; every other graph is a "
        "builder HISTORY: the same PipelineBuilder is edited (default connections changed or added, connect to a node or to a bare value, alias; optionally config_hash()/"
        "build_config() first) and built again 1-3 more times, every built pipeline compared with the model of the builder state at that moment; every "
        "4th base graph is repeated with a raising component at each position in turn; every 8th case is malformed (cycle via connect, via a default "
        "connection, or injected into a built pipeline). Round 4: in every other graph with >= 2 literals the literal values of the one builder are drawn from "
        "a family of values that are == and hash-equal but of different type (1 / True / 1.0 / np.int64(1) / np.float64(1.0) / np.bool_(True) / Decimal(1) / "
        "Fraction(1) / 1+0j; 0 / False / 0.0 / -0.0 / np.int64(0); 2 / 2.0; (1,2) / (1.0,2.0) / (True,2); frozensets, lists, dicts of those; 'x y' / b'x y'), "
        "wired in random declaration order to parameters annotated int / bool / none / Lazy[..] whose bodies tell the types apart, later history edits add "
        "further members of the family through connect() and default_connection(); history edits also include clear_inputs, replace_component, connect "
        "through an alias lookup or by component name, carrying on with clone(), and calls that only read the builder (config_hash, build_config, meta, build, "
        "validate, clone) between the edits; every third build of a history is preceded by an edit that CLOSES a cycle (by connect, default_connection, "
        "alias + connect, replace_component, or clear_inputs letting a default apply) after an earlier successful build, and the next stage usually opens it "
        "again. non-trivial = in some build, at least 3 components executed in a run, a node consumed by two "
        "executed consumers or requested twice, and at least one of: lazy input forced, fallback taken, component skipped, error; distinct = by hash of the case")

PNAMES = "abcde"
ANNS = {  # annotation -> (lazy, typed, nullable, python text, kind)
    "int": (False, True, False, "int", "TInt"),
    "opt": (False, True, True, "int | None", "TInt"),
    "any": (False, False, True, None, "TInt"),
    "lazy": (True, True, False, "Lazy[int]", "TInt"),
    "lazyopt": (True, True, True, "Lazy[int | None]", "TInt"),
    "lazyany": (True, False, True, "Lazy[_T]", "TInt"),
    # dtype-parameterised arrays: the verdict depends on the value's dtype, not on its class
    "fvec": (False, True, False, "_FV", "TFloatVec"),
    "fvecopt": (False, True, True, "_FV | None", "TFloatVec"),
    "ivec": (False, True, False, "_IV", "TIntVec"),
    "lazyfvec": (True, True, False, "Lazy[_FV]", "TFloatVec"),
    "lazyivec": (True, True, False, "Lazy[_IV]", "TIntVec"),
    # bool: accepts True / False only (an int that is not a bool is refused) -- sensitive to the TYPE of an == value
    "bool": (False, True, False, "bool", "TBool"),
    "boolopt": (False, True, True, "bool | None", "TBool"),
    "lazybool": (True, True, False, "Lazy[bool]", "TBool"),
}
VEC_ANNS = [("fvec", 4), ("fvecopt", 2), ("ivec", 3), ("lazyfvec", 2), ("lazyivec", 1)]
KIND_TAG = {"TInt": ("i", "b"), "TFloatVec": ("f",), "TIntVec": ("a",), "TBool": ("b",)}
# annotations for a parameter fed by a value whose exact type matters
TYPE_SENSITIVE_ANNS = [("any", 5), ("int", 2), ("opt", 1), ("bool", 1), ("boolopt", 1), ("lazyany", 1), ("lazybool", 1), ("lazy", 1)]
# classes of the exceptions component bodies raise (chosen by the exception number)
N_EXC = 8


def translate():
    from translate import c02 as t
    from translate.pyq import TranslateError as TE
    try:
        return t.translate(common.SRC)
    except TE as e:
        raise TranslateError(str(e))


# ---------------------------------------------------------------------------------------------
# generator
# ---------------------------------------------------------------------------------------------


def gen_val(rng, bad_odds=0):
    if bad_odds and rng.chance(bad_odds, 10):
        return ["s", rng.randint(0, 9)]
    return ["i", rng.randint(0, 20)]


def gen_anyval(rng, arrays):
    """value for an untyped input"""
    if arrays and rng.chance(2, 3):
        return [rng.choice(["f", "a"]), rng.randint(0, 9)]
    k = rng.weighted([("i", 6), ("s", 1), ("f", 1), ("a", 1), ("b", 1)])
    return [k, rng.randint(0, 9) if k != "b" else rng.below(2)]


# values wired as literals that are not ints, "s<k>" strings or arrays: every other JSON-ish type
N_JT = 29


class _JTable:
    """JTABLE[k]: the k-th 'other object' (neither int, bool, "s<k>"/"n<k>" str nor array).  Entries 8.. are objects that
    are == (and, where hashable, hash-equal) to an int, a bool or to one another while being of a different type."""
    _t = None

    def _get(self):
        if self._t is None:
            import numpy as np
            from decimal import Decimal
            from fractions import Fraction
            self._t = [1.5, [1, 2], {"k": 1}, "", [], 2.0, "x y", {"n0": [None, 1]},
                       1.0, 0.0, -0.0, (1, 2), (1.0, 2.0), (True, 2), np.int64(1), np.float64(1.0), np.bool_(True),
                       Decimal(1), Fraction(1, 1), complex(1, 0), b"x y", frozenset([1]), frozenset([True]),
                       [1.0, 2], [True, 2], {"k": True}, {"k": 1.0}, np.int64(0), np.float64(0.0)]
            assert len(self._t) == N_JT
        return self._t

    def __getitem__(self, k):
        return self._get()[k]

    def __iter__(self):
        return iter(self._get())

    def __len__(self):
        return N_JT


JTABLE = _JTable()
N_OFF, J_OFF = 10000, 20000       # VStr numbers of the strings "n<k>" (spelled like node names / aliases) and of JTABLE[k]
# families of values that are pairwise == (hashable ones also hash-equal) but differ in type / identity: a consumer
# must get the very value wired to it, whichever of them was declared first
EQ_FAMILIES = [
    ([["i", 1], ["b", 1], ["j", 8], ["j", 14], ["j", 15], ["j", 16], ["j", 17], ["j", 18], ["j", 19]], 6),
    ([["i", 0], ["b", 0], ["j", 9], ["j", 10], ["j", 27], ["j", 28]], 5),
    ([["i", 2], ["j", 5]], 1),
    ([["j", 11], ["j", 12], ["j", 13]], 2),           # tuples
    ([["j", 21], ["j", 22]], 1),                      # frozensets
    ([["j", 1], ["j", 23], ["j", 24]], 1),            # lists (unhashable)
    ([["j", 2], ["j", 25], ["j", 26]], 1),            # dicts (unhashable)
    ([["j", 6], ["j", 20]], 1),                       # str / bytes spelled alike (not ==)
]


def family_of(v):
    for fam, _ in EQ_FAMILIES:
        if v in fam:
            return fam
    return None


def gen_inline_val(rng, name_ids, taken):
    """A value written directly in a connect()/add_component()/default_connection() call: any JSON-ish type,
    with strings that coincide with the name of a node or an alias of the same builder (or of no node)."""
    for _ in range(20):
        kind = rng.weighted([("n", 6), ("i", 2), ("s", 1), ("j", 3), ("b", 1), ("none", 1)])
        if kind == "none":
            v = None
        elif kind == "n":
            v = ["n", rng.choice(name_ids)]
        elif kind == "j":
            v = ["j", rng.below(N_JT)]
        elif kind == "b":
            v = ["b", rng.below(2)]
        else:
            v = [kind, rng.randint(0, 9)]
        if v not in taken:
            return v
    return ["i", 1000 + len(taken)]


def gen_body(rng, params, kind, catching=False):
    """params: list of annotations.  Returns a bprog in JSON form.  catching: lazy inputs may be forced inside
    try/except (the body carries on when the input fails)."""
    eager = [i for i, p in enumerate(params) if not ANNS[p["ann"]][0]]
    lazy = [i for i, p in enumerate(params) if ANNS[p["ann"]][0]]

    def final(forced):
        terms = [[rng.randint(1, 9), ["arg", i]] for i in eager] + [[rng.randint(1, 9), ["forced", i]] for i in forced]
        r = rng.below(20)
        if kind == "none" or r == 0:
            return ["ret", ["none"]]
        if kind == "str" or r == 1:
            return ["ret", ["str", rng.randint(0, 9)]]
        if kind in ("arrf", "arri"):
            return ["ret", [kind, rng.randint(0, 9)]]
        if r == 3:
            return ["raise", rng.randint(0, 79)]
        if r == 2 and (eager or forced):
            a = ["arg", rng.choice(eager)] if eager and (not forced or rng.chance(1, 2)) else ["forced", rng.choice(forced)]
            return ["ret", ["atom", a]]
        return ["ret", ["lin", rng.randint(0, 50), terms]]

    def build(todo, forced, depth):
        if not todo or depth > 3:
            return final(forced)
        i, rest = todo[0], todo[1:]
        style = rng.below(4)
        if catching and rng.chance(3, 5):   # try: forced[i] = args[i].get()  except Exception: ...  else: ...
            return ["try", i, build(rest, forced + [i], depth + 1), build(rest, forced, depth + 1)]
        if style == 0:                      # always force
            return ["force", i, build(rest, forced + [i], depth + 1)]
        if style == 1:                      # never force
            return build(rest, forced, depth)
        if style == 2 and eager:            # force only when an eager argument is None
            a = ["arg", rng.choice(eager)]
            return ["ifnone", a, ["force", i, build(rest, forced + [i], depth + 1)], build(rest, forced, depth + 1)]
        if forced:                          # force depending on an earlier forced value
            a = ["forced", rng.choice(forced)]
            return ["ifnone", a, ["force", i, build(rest, forced + [i], depth + 1)], build(rest, forced, depth + 1)]
        return ["force", i, build(rest, forced + [i], depth + 1)]

    body = build(rng.shuffle(lazy), [], 0)
    if eager and rng.chance(1, 5):
        a = ["arg", rng.choice(eager)]
        body = ["ifnone", a, final([]), body]
    return body


def gen_graph(rng, malformed, catching=False):
    arrays = rng.chance(1, 4)
    n_in = rng.randint(1, 4)
    n_lit = rng.weighted([(0, 3), (1, 3), (2, 2), (3, 1)])
    n_inl = rng.weighted([(0, 5), (1, 3), (2, 3), (3, 2)])
    # several values of ONE builder that are == (and hash-equal) but of different type: 1 / True / 1.0 / np.int64(1) ...
    fam = rng.sample(rng.weighted(EQ_FAMILIES), 10) if n_inl + n_lit >= 2 and rng.chance(1, 2) else []
    n_comp = rng.weighted([(1, 1), (2, 2), (3, 3), (4, 3), (5, 3), (6, 2), (8, 2), (10, 1)])
    nodes = []          # in hidden topological order
    for _ in range(n_in):
        t = rng.weighted([("int", 4), ("opt", 4), ("any", 4 if arrays else 1)])
        nodes.append({"kind": "input", "typed": t != "any", "nullable": t != "int"})
    fam_nodes = []
    for _ in range(n_lit):
        nodes.append({"kind": "literal", "val": gen_val(rng, 1)})
        if fam and rng.chance(1, 3):
            nodes[-1]["val"] = fam.pop()
            fam_nodes.append(len(nodes) - 1)
    for _ in range(n_inl):
        nodes.append({"kind": "inline", "val": None})       # value chosen below, once the names are known
        if fam:
            nodes[-1]["val"] = fam.pop()
            fam_nodes.append(len(nodes) - 1)
    base = len(nodes)
    for k in range(n_comp):
        here = len(nodes)
        if here >= 2 and rng.chance(1, 5):
            # first-available fallback; prefer a primary that may be absent
            nodes.append({"kind": "fallback", "primary": rng.below(here), "fallback": rng.below(here)})
            continue
        arity = rng.weighted([(0, 1), (1, 4), (2, 4), (3, 2), (4, 1)])
        names = rng.sample(list(range(len(PNAMES))), arity)
        params = []
        for pn in names:
            if arrays and rng.chance(1, 2):
                ann = rng.weighted(VEC_ANNS)
            else:
                ann = rng.weighted([("int", 6), ("opt", 5), ("any", 2), ("lazy", 3), ("lazyopt", 2), ("lazyany", 1)])
            conn = rng.below(here) if rng.chance(5, 6) else None
            # bias towards sharing: re-use a recent component
            if conn is not None and here > base and rng.chance(1, 2):
                conn = rng.randint(max(base, here - 4), here - 1)
            if conn is not None and nodes[conn]["kind"] == "inline" and rng.chance(2, 3):
                ann = rng.weighted([("any", 4), ("lazyany", 1)])     # mostly let a literal of any type through
            if fam_nodes and rng.chance(2, 5):
                conn = rng.choice(fam_nodes)
                ann = rng.weighted(TYPE_SENSITIVE_ANNS)
            params.append({"name": pn, "conn": conn, "ann": ann})
        kind = rng.weighted([("lin", 12), ("none", 1), ("str", 1), ("arrf", 6 if arrays else 0), ("arri", 5 if arrays else 0)])
        nodes.append({"kind": "comp", "params": params, "body": gen_body(rng, params, kind, catching)})
    n = len(nodes)
    # default connections
    defaults = []
    for _ in range(rng.weighted([(0, 3), (1, 3), (2, 1)])):
        pn = rng.below(len(PNAMES))
        if any(d[0] == pn for d in defaults):
            continue
        tgt = rng.below(base) if rng.chance(2, 3) else rng.below(n)
        defaults.append([pn, tgt])
        if not (malformed and rng.chance(1, 2)):
            # keep the wiring acyclic: a component at or below the target must not pick this default up
            for j in range(tgt + 1):
                if nodes[j]["kind"] == "comp":
                    for p in nodes[j]["params"]:
                        if p["name"] == pn and p["conn"] is None:
                            p["conn"] = rng.below(j) if j else None
                    nodes[j]["params"] = [p for p in nodes[j]["params"] if not (p["name"] == pn and p["conn"] is None)]
    inject = []
    if malformed:
        comps = [j for j in range(n) if nodes[j]["kind"] == "comp" and nodes[j]["params"]]
        how = rng.below(3)
        if comps:
            j = rng.choice(comps)
            later = [t for t in comps if t > j]
            p = rng.choice(nodes[j]["params"])
            if later and rng.chance(2, 3):      # two-node (or longer) cycle: t consumes j, j consumes t
                t = rng.choice(later)
                rng.choice(nodes[t]["params"])["conn"] = j
            else:
                t = j                           # self loop
            if how == 0:                        # closed by connect()
                p["conn"] = t
            elif how == 1:                      # closed by a default connection
                p["conn"] = None
                defaults = [d for d in defaults if d[0] != p["name"]] + [[p["name"], t]]
            else:                               # closed in a pipeline that was built acyclic (the runner's own check)
                inject.append([j, p["name"], t])
    # declaration order and ids: ids are assigned in declaration order
    order = rng.shuffle(list(range(n)))
    ident = {h: i for i, h in enumerate(order)}          # hidden index -> id

    def rn(h):
        return None if h is None else ident[h]
    out = [None] * n
    for h, nd in enumerate(nodes):
        nd = copy.deepcopy(nd)
        if nd["kind"] == "comp":
            for p in nd["params"]:
                p["conn"] = rn(p["conn"])
        elif nd["kind"] == "fallback":
            nd["primary"], nd["fallback"] = rn(nd["primary"]), rn(nd["fallback"])
        nd["id"] = ident[h]
        out[ident[h]] = nd
    aliases = []
    named = [i for i in range(n) if out[i]["kind"] != "inline"]
    for k in range(rng.weighted([(0, 2), (1, 2), (2, 1)])):
        aliases.append([100 + k, rng.choice(named)])
    # literal values written in the wiring calls: strings equal to names of nodes declared earlier or later,
    # to aliases, to no node; and the other JSON-ish types
    name_ids = named * 2 + [a for a, _ in aliases] * 2 + [n, n + 1, 100 + len(aliases)]
    taken = [nd["val"] for nd in out if nd["kind"] == "inline" and nd["val"] is not None]
    for nd in out:
        if nd["kind"] == "inline" and nd["val"] is None:
            nd["val"] = gen_inline_val(rng, name_ids, taken)
            taken.append(nd["val"])
    return {"nodes": out, "defaults": [[pn, ident[t]] for pn, t in defaults], "aliases": aliases,
            "inject": [[ident[j], pn, ident[t]] for j, pn, t in inject], "depth_order": [ident[h] for h in range(n)],
            "arrays": arrays}


def gen_runs(rng, g):
    ins = [nd for nd in g["nodes"] if nd["kind"] == "input"]
    names = [nd["id"] for nd in g["nodes"] if nd["kind"] != "inline"] + [a for a, _ in g["aliases"]]
    kinds = {nd["id"]: nd["kind"] for nd in g["nodes"]}
    comps = [i for i in g["depth_order"] if kinds[i] in ("comp", "fallback")]      # shallow to deep
    deep = comps[len(comps) // 2:]
    runs = []
    mode = rng.weighted([("all", 3), ("mixed", 5), ("bad", 1)])
    for r in range(rng.randint(2, 4)):
        inputs = []
        for nd in ins:
            if mode == "all" and r == 0:
                w = "ok"
            else:
                w = rng.weighted([("ok", 6), ("absent", 3), ("bad", 1 if mode != "bad" else 4)])
            if w == "ok" and not nd["typed"]:
                inputs.append([nd["id"], gen_anyval(rng, g.get("arrays"))])
            elif w == "ok":
                inputs.append([nd["id"], ["i", rng.randint(0, 20)]])
            elif w == "bad":
                inputs.append([nd["id"], ["s", rng.randint(0, 9)]])
        k = rng.weighted([(0, 1), (1, 5), (2, 4), (3, 2)])
        req = []
        for _ in range(k):
            req.append(rng.choice(deep) if comps and rng.chance(1, 2) else rng.choice(comps) if comps and rng.chance(1, 2) else rng.choice(names))
        runs.append({"inputs": inputs, "req": req})
    # bodies that catch: ask for the consumer, then again for what it consumed lazily (and for the consumer)
    w = _wiring(g, with_inject=False)
    for nd in g["nodes"]:
        if nd["kind"] == "comp" and _has_try(nd["body"]) and rng.chance(2, 3):
            srcs = [s for s, lz, *_ in w[nd["id"]] if lz and s is not None and kinds.get(s) != "inline"]
            if srcs:
                s = rng.choice(srcs)
                users = [c for c in comps if any(x == s for x, *_ in w.get(c, []))] or [nd["id"]]
                req = rng.choice([[nd["id"], s], [nd["id"], rng.choice(users), nd["id"]], [nd["id"], s, rng.choice(deep)]])
                how = rng.weighted([("ok", 3), ("absent", 1)])
                runs.append({"inputs": [[x["id"], (["i", rng.randint(0, 20)] if x["typed"] or not g.get("arrays") else gen_anyval(rng, True))]
                                        for x in ins if how == "ok" or rng.chance(1, 2)], "req": req})
    # a run that should succeed after whatever failed before it
    runs.append({"inputs": [[nd["id"], (["i", rng.randint(0, 20)] if nd["typed"] or not g.get("arrays") else gen_anyval(rng, True))] for nd in ins],
                 "req": [rng.choice(deep)] if comps else [names[0]]})
    return runs


def apply_edits(state, edits):
    """The builder state (nodes, defaults, aliases) after a list of edits -- plain data, independent of Coq."""
    st = {**state, "nodes": copy.deepcopy(state["nodes"]), "defaults": [list(d) for d in state["defaults"]],
          "aliases": [list(a) for a in state["aliases"]]}
    for e in edits:
        if e[0] == "default":
            st["defaults"] = [[e[1], e[2]]] + [d for d in st["defaults"] if d[0] != e[1]]
        elif e[0] == "connect":
            for p in st["nodes"][e[1]]["params"]:
                if p["name"] == e[2]:
                    p["conn"] = e[3]
        elif e[0] == "addlit":      # a value written in a connect() call: the builder makes a literal node of it
            st["nodes"].append({"kind": "inline", "val": e[2], "id": e[1]})
        elif e[0] == "clear":       # clear_inputs(c): no explicit connection left, the default connections apply again
            for p in st["nodes"][e[1]]["params"]:
                p["conn"] = None
        elif e[0] == "replace":     # replace_component(c, comp, **inputs): explicit connections kept unless overridden
            old = {p["name"]: p["conn"] for p in st["nodes"][e[1]]["params"]}
            st["nodes"][e[1]] = {"kind": "comp", "id": e[1], "body": copy.deepcopy(e[3]),
                                 "params": [{**p, "conn": p["conn"] if p["conn"] is not None else old.get(p["name"])} for p in e[2]]}
        elif e[0] == "alias":
            st["aliases"] = [[e[1], e[2]]] + st["aliases"]
        else:
            assert e[0] in ("call", "clone"), e      # reading the builder (hash, config, meta, build, clone) changes nothing
    return st


def _has_try(b):
    if b[0] == "try":
        return True
    if b[0] == "force":
        return _has_try(b[2])
    if b[0] == "ifnone":
        return _has_try(b[2]) or _has_try(b[3])
    return False


def has_try(case):
    return (any(nd["kind"] == "comp" and _has_try(nd["body"]) for nd in case["nodes"])
            or any(e[0] == "replace" and _has_try(e[3]) for stg in case.get("stages", []) for e in stg["edits"]))


def _dependents(state, c):
    """nodes whose value depends on c under the resolved wiring of the state (c included)"""
    w = _wiring(state, with_inject=False)
    out, changed = {c}, True
    while changed:
        changed = False
        for n, ps in w.items():
            if n not in out and any(s in out for s, *_ in ps):
                out.add(n)
                changed = True
    return sorted(out)


CALLS = ["hash", "config", "meta", "build", "validate", "clone"]
CLOSERS = [("connect", 3), ("default", 5), ("alias", 2), ("replace", 2), ("clear", 3)]


def gen_replacement(rng, nd, catching=False):
    """another component for the same node: same parameter names, annotations and body chosen afresh"""
    params = [{"name": p["name"], "conn": None,
               "ann": p["ann"] if rng.chance(1, 2) else rng.weighted([("int", 5), ("opt", 4), ("any", 3), ("lazy", 3), ("lazyopt", 2), ("lazyany", 1)])}
              for p in nd["params"]]
    return params, gen_body(rng, params, rng.weighted([("lin", 12), ("none", 1), ("str", 1)]), catching)


def gen_closing(rng, state):
    """Edits that CLOSE a cycle in the wiring of a builder that has been built before, one kind of edit per call,
    and the edits that open it again.  Returns (kind, edits, repair) or None."""
    comps = [nd for nd in state["nodes"] if nd["kind"] == "comp" and nd["params"]]
    leaves = [nd["id"] for nd in state["nodes"] if nd["kind"] in ("input", "literal")]
    if not comps or not leaves:
        return None
    kind = rng.weighted(CLOSERS)
    nd = rng.choice(comps)
    c = nd["id"]
    p = rng.choice(nd["params"])
    dflt = dict((pn, t) for pn, t in state["defaults"])
    if kind == "default":
        free = [(x, q) for x in comps for q in x["params"] if q["conn"] is None]
        if free:
            nd, p = rng.choice(free)
            c = nd["id"]
    elif kind == "clear":
        held = [(x, q) for x in comps for q in x["params"] if q["conn"] is not None and dflt.get(q["name"]) in _dependents(state, x["id"])]
        if held:
            nd, p = rng.choice(held)
            c = nd["id"]
    t = rng.choice(_dependents(state, c))
    pn = p["name"]
    leaf = rng.choice(leaves)
    if kind == "connect":
        return kind, [["connect", c, pn, t]], [["connect", c, pn, leaf]]
    if kind == "alias":
        a = 100 + len(state["aliases"])
        return kind, [["alias", a, t], ["connect", c, pn, t, a]], [["connect", c, pn, leaf]]
    if kind == "replace":
        params, body = gen_replacement(rng, nd)
        for q in params:
            if q["name"] == pn:
                q["conn"] = t
        return kind, [["replace", c, params, body]], [["connect", c, pn, leaf]]
    if kind == "default":
        pre = [] if p["conn"] is None else [["clear", c]]
        return kind, pre + [["default", pn, t]], [["default", pn, leaf]]
    # clear_inputs(c) lets a default connection that points downstream of c apply
    pre = [] if p["conn"] is not None and dflt.get(pn) in _dependents(state, c) else [["default", pn, t], ["call", rng.choice(CALLS[:4])]]
    return kind, pre + [["clear", c]], [["connect", c, pn, leaf]]


def gen_stages(rng, g, malformed):
    """Further builds of the same builder: edits (default connections changed or added, connections, aliases), then runs."""
    stages = []
    state = g
    rank = {i: h for h, i in enumerate(g["depth_order"])}
    repair = None
    for k in range(rng.weighted([(1, 3), (2, 3), (3, 2)])):
        comps = [nd for nd in state["nodes"] if nd["kind"] == "comp" and nd["params"]]
        leaves = [nd["id"] for nd in state["nodes"] if nd["kind"] in ("input", "literal", "inline")]
        named = [nd["id"] for nd in state["nodes"] if nd["kind"] != "inline"]
        edits = []
        closing = rng.chance(1, 3)
        if repair and rng.chance(2, 3):         # open the cycle the previous stage closed
            edits += repair
        repair = None
        for _ in range(rng.randint(1, 3) if not (closing and rng.chance(1, 2)) else 0):
            what = rng.weighted([("default", 5), ("connect", 2), ("alias", 1), ("connect-value", 2), ("default-value", 2), ("clear", 1),
                                 ("replace", 1), ("call", 2)])
            if what == "default":
                used = [d[0] for d in state["defaults"]]
                unwired = [p["name"] for nd in comps for p in nd["params"] if p["conn"] is None]
                pool = (used * 2 + unwired) or list(range(len(PNAMES)))
                pn = rng.choice(pool)
                tgt = rng.choice(leaves) if not (malformed and rng.chance(1, 3)) else rng.choice([nd["id"] for nd in state["nodes"]])
                edits.append(["default", pn, tgt])
            elif what == "connect" and comps:
                nd = rng.choice(comps)
                p = rng.choice(nd["params"])
                lower = [i for i in rank if rank[i] < rank[nd["id"]]]
                if lower:
                    edits.append(["connect", nd["id"], p["name"], rng.choice(lower)])
            elif what in ("connect-value", "default-value") and comps:
                # connect(comp, p=<value>) / default_connection(p, <value>): every node and alias of the builder is declared by now
                nd = rng.choice(comps)
                p = rng.choice(nd["params"])
                cur = apply_edits(state, edits)
                inl = {nd2["id"]: nd2["val"] for nd2 in cur["nodes"] if nd2["kind"] == "inline"}
                name_ids = named * 2 + [a for a, _ in cur["aliases"]] * 3 + [len(cur["nodes"]) + 1]
                val = gen_inline_val(rng, name_ids, [])
                # a value == to one the builder already holds, of another type
                kin = [v for nd2 in cur["nodes"] if nd2["kind"] in ("inline", "literal") and nd2["val"] is not None
                       for v in (family_of(nd2["val"]) or [])]
                if rng.chance(1, 2):
                    val = rng.choice(kin) if kin else rng.choice(rng.weighted(EQ_FAMILIES))
                same = [i for i, x in inl.items() if x == val]
                if same:
                    tgt = same[0]
                else:
                    tgt = len(cur["nodes"])
                    edits.append(["addlit", tgt, val])
                if what == "connect-value":
                    edits.append(["connect", nd["id"], p["name"], tgt])
                else:
                    edits.append(["default", p["name"], tgt])
            elif what == "alias":
                a = 100 + len(state["aliases"]) + sum(1 for e in edits if e[0] == "alias")
                edits.append(["alias", a, rng.choice(named)])
            elif what == "clear" and comps:
                edits.append(["clear", rng.choice(comps)["id"]])
            elif what == "replace" and comps:
                cur = apply_edits(state, edits)
                nd = cur["nodes"][rng.choice(comps)["id"]]
                params, body = gen_replacement(rng, nd, has_try(g))
                if rng.chance(1, 2):
                    lower = [i for i in rank if rank[i] < rank[nd["id"]]]
                    if lower and params:
                        rng.choice(params)["conn"] = rng.choice(lower)
                edits.append(["replace", nd["id"], params, body])
            elif what == "call":
                edits.append(["call", rng.choice(CALLS)] if rng.chance(4, 5) else ["clone"])
        info = None
        if closing:
            got = gen_closing(rng, apply_edits(state, edits))
            if got:
                info, more, repair = got
                if rng.chance(1, 3):
                    edits.append(["call", rng.choice(CALLS)])
                edits += more
        state = apply_edits(state, edits)
        pre = rng.weighted([(None, 3), ("hash", 1), ("config", 1)])
        stages.append({"edits": edits, "pre": pre, "runs": gen_runs(rng, state)[-2:], **({"closing": info} if info else {})})
    return stages


def gen_cases(rng, tier):
    n_base = 360 if tier == "quick" else 10000
    out = []
    for k in range(n_base):
        r = rng.fork(k)
        malformed = k % 8 == 7
        g = gen_graph(r, malformed, catching=k % 8 in (0, 5))
        case = {**g, "runs": gen_runs(r, g), "style": "malformed" if malformed else "valid"}
        if not g["inject"] and k % 2 == 1:
            case["stages"] = gen_stages(r.fork("stages"), g, malformed)
            case["style"] += "+rebuilt"
        out.append(case)
        if k % 4 == 0 and not malformed:
            comps = [nd["id"] for nd in g["nodes"] if nd["kind"] == "comp"]
            for c in comps:
                v = copy.deepcopy(case)
                v["nodes"][c]["body"] = ["raise", 700 + c]
                v["style"] = "raising"
                out.append(v)
    return out


# ---------------------------------------------------------------------------------------------
# implementation driver
# ---------------------------------------------------------------------------------------------

_ready = False


def _setup():
    global _ready, PipelineBuilder, Lazy, PipelineError, fallback_on_none, CompError, LB
    if _ready:
        return
    common.use_repo()
    import structlog
    from lenskit.logging.tracing import lenskit_filtering_logger
    structlog.configure(wrapper_class=lenskit_filtering_logger(50), logger_factory=structlog.ReturnLoggerFactory())
    from lenskit.diagnostics import PipelineError
    from lenskit.pipeline import Lazy, PipelineBuilder
    import lenskit.pipeline.builder as LB
    from lenskit.pipeline.components import fallback_on_none

    class CompError(Exception):
        def __init__(self, k):
            super().__init__(k)
            self.k = k

    class UnknownKey(KeyError):
        pass

    global EXC_CLASSES
    # what components raise: a custom class, failed lookups (and a subclass), the library's own error
    # classes, and common built-ins -- whatever the class, the object must reach the caller unchanged
    EXC_CLASSES = [CompError, KeyError, IndexError, UnknownKey, PipelineError, TypeError, LookupError, ValueError]
    assert len(EXC_CLASSES) == N_EXC
    _ready = True


def pyval(v):
    if v is None:
        return None
    if v[0] == "i":
        return v[1]
    if v[0] == "s":
        return f"s{v[1]}"
    if v[0] == "n":
        return nname(v[1])
    if v[0] == "j":
        return copy.deepcopy(JTABLE[v[1]])
    if v[0] == "b":
        return bool(v[1])
    import numpy as np
    return np.array([v[1]], dtype=np.float64 if v[0] == "f" else np.int64)


def jval(x):
    if x is None:
        return None
    if type(x) is bool:             # a bool is an int for isinstance, but not the same object as the int == to it
        return ["b", int(x)]
    if type(x) is int:
        return ["i", x]
    if isinstance(x, str) and x[:1] in ("s", "n") and x[1:].isdigit():
        return [x[0], int(x[1:])]
    for k, t in enumerate(JTABLE):
        if same_value(x, t):
            return ["j", k]
    if type(x).__name__ == "ndarray" and x.shape == (1,):
        if str(x.dtype) == "float64":
            return ["f", int(x[0])]
        if str(x.dtype) == "int64":
            return ["a", int(x[0])]
    raise TypeError(f"unexpected value {x!r}")


def same_value(x, y):
    """the same value down to the types of its parts (1, True and 1.0 are three values; so are 0.0 and -0.0)"""
    if type(x) is not type(y):
        return False
    if isinstance(x, (list, tuple)):
        return len(x) == len(y) and all(same_value(a, b) for a, b in zip(x, y))
    if isinstance(x, dict):
        return x.keys() == y.keys() and all(same_value(x[k], y[k]) for k in x)
    if isinstance(x, (set, frozenset)):
        return sorted(f"{type(e).__name__}:{e!r}" for e in x) == sorted(f"{type(e).__name__}:{e!r}" for e in y)
    if type(x).__name__ == "ndarray":
        return x.dtype == y.dtype and x.tolist() == y.tolist()
    if isinstance(x, float):
        import math
        return (x != x and y != y) or (x == y and math.copysign(1.0, x) == math.copysign(1.0, y))
    return bool(x == y)


def num(x):
    if x is None:
        return -1
    if type(x) is bool:             # the bodies tell True from 1
        return 4000003 + int(x)
    if type(x) is int:
        return x
    j = jval(x)
    if j[0] in ("s", "n", "j"):
        return 1000003 + {"s": 0, "n": N_OFF, "j": J_OFF}[j[0]] + j[1]
    return (2000003 if str(x.dtype) == "float64" else 3000003) + int(x[0])


class Interp:
    """Runs a body (bprog in JSON form) on the arguments the runner passed; logs the call."""

    def __init__(self):
        self.log = []
        self.raised = []

    def call(self, cid, body, args):
        self.log.append(cid)
        forced = {}

        def atom(a):
            return args[a[1]] if a[0] == "arg" else forced.get(a[1])

        def ev(e):
            if e[0] == "none":
                return None
            if e[0] == "str":
                return f"s{e[1]}"
            if e[0] == "atom":
                return atom(e[1])
            if e[0] in ("arrf", "arri"):
                return pyval(["f" if e[0] == "arrf" else "a", e[1]])
            return e[1] + sum(c * num(atom(a)) for c, a in e[2])
        b = body
        while True:
            if b[0] == "ret":
                return ev(b[1])
            if b[0] == "raise":
                e = EXC_CLASSES[b[1] % N_EXC](b[1])
                self.raised.append((e, b[1]))
                raise e
            if b[0] == "force":
                x = args[b[1]]
                forced[b[1]] = None if x is None else x.get()
                b = b[2]
            elif b[0] == "try":
                x = args[b[1]]
                try:
                    got = None if x is None else x.get()
                except Exception:
                    b = b[3]
                else:
                    forced[b[1]] = got
                    b = b[2]
            else:
                b = b[2] if atom(b[1]) is None else b[3]


def make_fn(interp, nd):
    params = nd["params"]
    sig = ", ".join(PNAMES[p["name"]] + ("" if ANNS[p["ann"]][3] is None else ": " + ANNS[p["ann"]][3]) for p in params)
    src = f"def comp_{nd['id']}({sig}):\n    return _call({nd['id']}, _body, [{', '.join(PNAMES[p['name']] for p in params)}])\n"
    import typing
    import numpy as np
    ns = {"Lazy": Lazy, "_T": typing.TypeVar("_T"), "_call": interp.call, "_body": nd["body"],
          "_FV": np.ndarray[typing.Any, np.dtype[np.float64]], "_IV": np.ndarray[typing.Any, np.dtype[np.int64]]}
    exec(src, ns)
    return ns[f"comp_{nd['id']}"]


def logged_fallback(interp, cid):
    """The real fallback_on_none behind a wrapper that only logs the call (signature and hints are the original's)."""
    import functools

    @functools.wraps(fallback_on_none)
    def fallback_logged(*a, **kw):
        interp.log.append(cid)
        return fallback_on_none(*a, **kw)
    return fallback_logged


def classify(e, interp):
    # an exception a component raised is recognised by identity, whatever its class
    for r, k in interp.raised:
        if e is r:
            return ["EComp", k, r is interp.raised[-1][0]]
    if isinstance(e, CompError):
        return ["EComp", e.k, False]
    if isinstance(e, PipelineError):
        return ["ECycle"] if "cycle" in str(e) else ["EMissing"]
    if isinstance(e, KeyError):
        return ["EMissing"]
    if isinstance(e, TypeError):
        return ["EType"]
    if isinstance(e, RuntimeError) and "previously failed" in str(e):
        return ["EFailed"]
    raise e


def nname(i):
    return f"n{i}"


class Target:
    """What the driver passes where the API takes `Node | value`: the node handle, or -- for a value written directly
    in the wiring call (kind "inline") -- the bare value, of which the builder makes a literal node."""

    def __init__(self, handles):
        self.handles, self.inline, self.used = handles, {}, set()

    def __call__(self, i):
        if i in self.inline:
            self.used.add(i)
            return pyval(self.inline[i])
        return self.handles[i]


def make_builder(case, interp):
    b = PipelineBuilder()
    handles = {}
    tgt = Target(handles)
    later = []
    for nd in case["nodes"]:
        i = nd["id"]
        if nd["kind"] == "inline":
            tgt.inline[i] = nd["val"]
    avail = lambda t: t in handles or t in tgt.inline       # noqa: E731
    for nd in case["nodes"]:
        i = nd["id"]
        if nd["kind"] == "inline":
            continue
        if nd["kind"] == "input":
            ts = ([int] if nd["typed"] else []) + ([None] if nd["typed"] and nd["nullable"] else [])
            handles[i] = b.create_input(nname(i), *ts)
        elif nd["kind"] == "literal":
            handles[i] = b.literal(pyval(nd["val"]), name=nname(i))
        elif nd["kind"] == "fallback":
            fn = logged_fallback(interp, i)
            if nd["primary"] in handles and nd["fallback"] in handles:   # (bare values go through connect() below)
                LB.fallback_on_none = fn           # use_first_of adds the module-level function
                try:
                    handles[i] = b.use_first_of(nname(i), handles[nd["primary"]], handles[nd["fallback"]])
                finally:
                    LB.fallback_on_none = fallback_on_none
            else:
                handles[i] = b.add_component(nname(i), fn)
                later.append((i, {"primary": nd["primary"], "fallback": nd["fallback"]}))
        else:
            now = {PNAMES[p["name"]]: tgt(p["conn"]) for p in nd["params"] if p["conn"] is not None and avail(p["conn"]) and p["name"] % 2 == 0}
            handles[i] = b.add_component(nname(i), make_fn(interp, nd), **now)
            rest = {PNAMES[p["name"]]: p["conn"] for p in nd["params"] if p["conn"] is not None and PNAMES[p["name"]] not in now}
            if rest:
                later.append((i, rest))
    # aliases first: the connect() calls below see every node and every alias of the builder
    for a, t in case["aliases"]:
        b.alias(nname(a), handles[t] if a % 2 == 0 else nname(t))
    for i, wiring in later:
        b.connect(handles[i], **{k: tgt(t) for k, t in wiring.items()})
    for pn, t in case["defaults"]:
        b.default_connection(PNAMES[pn], tgt(t))
    for i in tgt.inline:
        if i not in tgt.used:           # a literal nobody is wired to (the model has the node all the same)
            b.literal(pyval(tgt.inline[i]))
            tgt.used.add(i)
    return b, tgt


def run_impl(case):
    _setup()
    interp = Interp()
    b, tgt = make_builder(case, interp)
    handles = tgt.handles
    out = run_stage(case, interp, b, case["runs"], case.get("inject", []))
    more = []
    state = case
    for stg in case.get("stages", []):
        for e in stg["edits"]:
            byname = (e[1] + len(stg["edits"])) % 2 == 1 if e[0] in ("connect", "clear", "replace") else False
            if e[0] == "default":
                b.default_connection(PNAMES[e[1]], tgt(e[2]))
            elif e[0] == "connect":
                # the component by handle or by name; the source by handle, as a bare value, or looked up through an alias
                src = b.node(nname(e[4])) if len(e) > 4 else tgt(e[3])
                b.connect(nname(e[1]) if byname else handles[e[1]], **{PNAMES[e[2]]: src})
            elif e[0] == "addlit":
                tgt.inline[e[1]] = e[2]         # the value reaches the builder in the connect() / default_connection() that follows
            elif e[0] == "alias":
                b.alias(nname(e[1]), handles[e[2]])
            elif e[0] == "clear":
                b.clear_inputs(nname(e[1]) if byname else handles[e[1]])
            elif e[0] == "replace":
                nd = {"kind": "comp", "id": e[1], "params": e[2], "body": e[3]}
                # (the node handed out before the replacement is no longer a member of the builder: a connection of the
                # new component to itself is made with the new handle)
                handles[e[1]] = b.replace_component(nname(e[1]) if byname else handles[e[1]], make_fn(interp, nd),
                                                    **{PNAMES[p["name"]]: tgt(p["conn"]) for p in e[2] if p["conn"] not in (None, e[1])})
                loops = {PNAMES[p["name"]]: handles[e[1]] for p in e[2] if p["conn"] == e[1]}
                if loops:
                    b.connect(handles[e[1]], **loops)
            elif e[0] == "clone":
                # carry on with a clone of the builder: it starts as a copy of the state
                b = b.clone()
                for i in list(handles):
                    handles[i] = b.node(nname(i))
            else:
                # reading the builder does not change it (and must not change what a later build() checks)
                try:
                    {"hash": b.config_hash, "config": b.build_config, "meta": b.meta, "build": b.build, "validate": b.validate,
                     "clone": b.clone}[e[1]]()
                except PipelineError:
                    pass
        state = apply_edits(state, stg["edits"])
        try:
            if stg["pre"] == "hash":
                b.config_hash()
            elif stg["pre"] == "config":
                b.build_config()
        except PipelineError:
            pass
        more.append(run_stage(state, interp, b, stg["runs"], []))
    if more:
        out["more"] = more
    return out


def run_stage(case, interp, b, runs, inject):
    try:
        pipe = b.build()
    except PipelineError as e:
        if "cycles" in str(e):
            return {"built": False, "runs": []}
        raise
    for j, pn, t in inject:
        pipe._edges[nname(j)][PNAMES[pn]] = nname(t)      # bypasses the builder: exercises the runner's own cycle check
    ids = {nname(nd["id"]): nd["id"] for nd in case["nodes"] if nd["kind"] != "inline"}
    inline = [(nd["id"], pyval(nd["val"])) for nd in case["nodes"] if nd["kind"] == "inline"]

    def idof(k):
        """a node of the pipeline -> its number in the case (literal nodes made from bare values: by value)"""
        if k in ids:
            return ids[k]
        val = pipe.node(k).value
        (i,) = [i for i, v in inline if same_value(v, val)]
        return i
    obs = []
    for run in runs:
        kw = {nname(i): pyval(v) for i, v in run["inputs"]}
        req = [nname(i) for i in run["req"]]
        o = {}
        # Pipeline.run with a tuple of names (skipped for the empty request: run() would use the default node)
        interp.log, interp.raised = [], []
        if req:
            try:
                vals = pipe.run(tuple(req), **kw)
                o["outcome"] = ["values", [jval(v) for v in vals]]
            except Exception as e:
                o["outcome"] = ["raised", classify(e, interp)]
            o["log"] = list(interp.log)
        # run_all with the same request
        interp.log, interp.raised = [], []
        try:
            st = pipe.run_all(*req, **kw)
            o["state"] = sorted(([idof(k), jval(v)] for k, v in dict(st).items()), key=lambda kv: kv[0])
            o["all"] = ["values", [jval(st[r]) for r in req]]
        except Exception as e:
            o["state"] = None
            o["all"] = ["raised", classify(e, interp)]
        o["log_all"] = list(interp.log)
        if not req:
            o["outcome"] = o["all"] if o["all"][0] == "raised" else ["values", []]
            o["log"] = o["log_all"]
        obs.append(o)
    return {"built": True, "runs": obs}


# ---------------------------------------------------------------------------------------------
# model side
# ---------------------------------------------------------------------------------------------


def c_val(v):
    if v[0] in ("n", "j"):          # a str spelled like a node name / another JSON-ish object: not an int, not an array
        return f"(VStr {cz((N_OFF if v[0] == 'n' else J_OFF) + v[1])})"
    ctor = {"i": "VInt", "b": "VBool", "s": "VStr", "f": "VArrF", "a": "VArrI"}[v[0]]
    return f"({ctor} {cz(v[1])})"


def c_atom(a):
    return f"({'AArg' if a[0] == 'arg' else 'AForced'} {cnat(a[1])})"


def c_bexp(e):
    if e[0] == "none":
        return "BNone"
    if e[0] == "str":
        return f"(BStr {cz(e[1])})"
    if e[0] == "atom":
        return f"(BAtom {c_atom(e[1])})"
    if e[0] in ("arrf", "arri"):
        return f"({'BArrF' if e[0] == 'arrf' else 'BArrI'} {cz(e[1])})"
    return f"(BLin {cz(e[1])} {clist(e[2], lambda t: f'({cz(t[0])}, {c_atom(t[1])})')})"


def c_bprog(b):
    if b[0] == "ret":
        return f"(BRet {c_bexp(b[1])})"
    if b[0] == "raise":
        return f"(BRaise {cz(b[1])})"
    if b[0] == "force":
        return f"(BForce {cnat(b[1])} {c_bprog(b[2])})"
    if b[0] == "try":
        return f"(BTryForce {cnat(b[1])} {c_bprog(b[2])} {c_bprog(b[3])})"
    return f"(BIfNone {c_atom(b[1])} {c_bprog(b[2])} {c_bprog(b[3])})"


def c_bparam(p):
    lz, ty, nu, _, kind = ANNS[p["ann"]]
    return (f"{{| bp_name := {cnat(p['name'])}; bp_conn := {copt(p['conn'], cnat)}; bp_lazy := {cbool(lz)}; "
            f"bp_typed := {cbool(ty)}; bp_nullable := {cbool(nu)}; bp_ty := {kind} |}}")


def c_node(nd, inject):
    if nd["kind"] == "input":
        return f"BInput {cbool(nd['typed'])} {cbool(nd['nullable'])}"
    if nd["kind"] == "literal":
        return f"BLiteral {c_val(nd['val'])}"
    if nd["kind"] == "inline":
        # the literal None: a node that always holds None -- in the model the same as an optional untyped input
        # that is never supplied
        return "BInput false true" if nd["val"] is None else f"BLiteral {c_val(nd['val'])}"
    if nd["kind"] == "fallback":
        ps = [{"name": 0, "conn": nd["primary"], "ann": "any"}, {"name": 1, "conn": nd["fallback"], "ann": "lazyany"}]
        return f"BComp {clist(ps, c_bparam)} fallback_body"
    ps = copy.deepcopy(nd["params"])
    for j, pn, t in inject:
        if j == nd["id"]:
            for p in ps:
                if p["name"] == pn:
                    p["conn"] = t
    return f"BComp {clist(ps, c_bparam)} (body_of {c_bprog(nd['body'])})"


def c_outcome(o):
    if o[0] == "values":
        return f"(Values {clist(o[1], lambda v: copt(v, c_val))})"
    e = o[1]
    return f"(Raised {'(EComp ' + cz(e[1]) + ')' if e[0] == 'EComp' else e[0]})"


def c_builder(case, inject):
    nodes = clist(case["nodes"], lambda nd: f"({cnat(nd['id'])}, {c_node(nd, inject)})")
    return (f"{{| b_nodes := {nodes}; b_defaults := {clist(case['defaults'], lambda d: f'({cnat(d[0])}, {cnat(d[1])})')}; "
            f"b_aliases := {clist(case['aliases'], lambda a: f'({cnat(a[0])}, {cnat(a[1])})')} |}}")


def c_runs(runs, obs_runs):
    out = []
    for run, o in zip(runs, obs_runs):
        st = "None" if o["state"] is None else "(Some " + clist(o["state"], lambda kv: f"({cnat(kv[0])}, {copt(kv[1], c_val)})") + ")"
        out.append(
            f"{{| o_inputs := {clist(run['inputs'], lambda iv: f'({cnat(iv[0])}, {c_val(iv[1])})')}; o_req := {clist(run['req'], cnat)}; "
            f"o_outcome := {c_outcome(o['outcome'])}; o_log := {clist(o['log'], cnat)}; o_state := {st} |}}")
    return clist(out, str)


def c_edit(e):
    if e[0] == "default":
        return f"(EDefault {cnat(e[1])} {cnat(e[2])})"
    if e[0] == "connect":
        return f"(EConnect {cnat(e[1])} {cnat(e[2])} {cnat(e[3])})"
    if e[0] == "addlit":
        return f"(EAddLit {cnat(e[1])} ({c_node({'kind': 'inline', 'val': e[2]}, [])}))"
    if e[0] == "clear":
        return f"(EClear {cnat(e[1])})"
    if e[0] == "replace":
        return f"(EReplace {cnat(e[1])} {clist(e[2], c_bparam)} (body_of {c_bprog(e[3])}))"
    assert e[0] == "alias", e
    return f"(EAlias {cnat(e[1])} {cnat(e[2])})"


def model_edits(edits):
    """reading the builder (hash, config, meta, build, validate, clone) is no edit of its state"""
    return [e for e in edits if e[0] not in ("call", "clone")]


def coq_term(case, obs):
    runs = c_runs(case["runs"], obs["runs"])
    inject = case.get("inject", [])
    if inject:
        # the pipeline was built from the un-injected wiring; the runs use the injected one
        return (f"(match build {c_builder(case, [])} with None => negb {cbool(obs['built'])} | Some _ => {cbool(obs['built'])} && "
                f"(let b := {c_builder(case, inject)} in let g := resolve b in "
                f"forallb (agree_run false (2 + length g) g (b_aliases b)) {runs}) end)")
    # the memo-free specification is compared as well unless a body catches the failure of a lazy input
    spec = cbool(not has_try(case))
    if not case.get("stages"):
        return f"agree_case_gen {spec} {c_builder(case, [])} {cbool(obs['built'])} {runs}"
    # a builder history: the model applies the edits to the builder state and rebuilds
    stages = [f"([], {cbool(obs['built'])}, {runs})"]
    for stg, o in zip(case["stages"], obs["more"]):
        stages.append(f"({clist(model_edits(stg['edits']), c_edit)}, {cbool(o['built'])}, {c_runs(stg['runs'], o['runs'])})")
    return f"agree_history_gen {spec} {c_builder(case, [])} {clist(stages, str)}"


def stage_views(case, obs):
    """(builder state at that build as a case, observation of that build) for every build of the history."""
    views = [(case, obs)]
    state = case
    for stg, o in zip(case.get("stages", []), obs.get("more", [])):
        state = apply_edits(state, stg["edits"])
        views.append(({**state, "runs": stg["runs"], "inject": [], "stages": []}, o))
    return views


# ---------------------------------------------------------------------------------------------
# the property as a predicate on implementation output (independent of the Coq model):
# a memo-free reference evaluator of the DAG plus call counters
# ---------------------------------------------------------------------------------------------


class Missing(Exception):
    pass


class IllTyped(Exception):
    pass


class Boom(Exception):
    pass


class PrevFailed(Exception):
    pass


CAUGHT = (Missing, IllTyped, Boom, PrevFailed, RecursionError)        # what `except Exception` in a body catches


SKIP = object()


def _wiring(case, with_inject=True):
    dflt = dict((pn, t) for pn, t in case["defaults"])
    w = {}
    for nd in case["nodes"]:
        if nd["kind"] == "comp":
            w[nd["id"]] = [(p["conn"] if p["conn"] is not None else dflt.get(p["name"]), *ANNS[p["ann"]][:3], p["name"], ANNS[p["ann"]][4]) for p in nd["params"]]
        elif nd["kind"] == "fallback":
            w[nd["id"]] = [(nd["primary"], False, False, True, 0, "TInt"), (nd["fallback"], True, False, True, 1, "TInt")]
    if with_inject:
        for j, pn, t in case.get("inject", []):
            w[j] = [((t if name == pn else s), lz, ty, nu, name, kd) for s, lz, ty, nu, name, kd in w[j]]
    return w


def _has_cycle(w):
    state = {}

    def visit(n):
        if state.get(n) == 1:
            return True
        if state.get(n) == 2 or n not in w:
            return False
        state[n] = 1
        if any(s is not None and visit(s) for s, *_ in w[n]):
            return True
        state[n] = 2
        return False
    return any(visit(n) for n in w)


def reference(case, run):
    """Evaluate the requested nodes as a pure dataflow program.  Returns (values | exception, executed set)."""
    nodes = {nd["id"]: nd for nd in case["nodes"]}
    w = _wiring(case)
    given = {i: pyval(v) for i, v in run["inputs"]}
    alias = dict((a, t) for a, t in case["aliases"])
    executed = []

    def ok(v, typed, nullable, kind="TInt"):
        if not typed:
            return True
        if v is None:
            return nullable
        return jval(v)[0] in KIND_TAG[kind]      # int (a bool is one) / float64 array / int64 array / bool

    # Evaluation without a memo table of VALUES.  What a run does remember, because a body that catches the failure
    # of a lazy input can see it: a node that failed stays failed for the rest of the run (asking again gives the
    # "previously failed" error, the node is not evaluated again), and a node that was left without a value for an
    # optional consumer stays without a value (a requiring consumer gets the missing-input error).
    failed, skipped = set(), set()
    flags = {"caught": 0, "refused": 0}
    consulted = reference.consulted = {}         # literal nodes some evaluated consumer (or the request) read -> value

    def ev(n, required, stack):
        if n in failed:
            flags["refused"] += 1
            raise PrevFailed
        if n in stack:
            raise RecursionError
        if n in skipped:
            if required:
                raise Missing
            return SKIP
        try:
            v = ev1(n, required, stack)
        except CAUGHT:
            failed.add(n)
            raise
        if v is SKIP:
            skipped.add(n)
        return v

    def ev1(n, required, stack):
        nd = nodes[n]
        if nd["kind"] in ("literal", "inline"):
            consulted[n] = nd["val"]
            return pyval(nd["val"])
        if nd["kind"] == "input":
            v = given.get(n)
            if v is None and nd["typed"] and not nd["nullable"]:
                if required:
                    raise Missing
                return SKIP
            if v is not None and nd["typed"] and not isinstance(v, int):
                raise IllTyped
            return v
        args = []
        for s, lz, ty, nu, _, kd in w[n]:
            strict = ty and not nu
            if s is None:
                v = None
            elif lz:
                def thunk(s=s, strict=strict, ty=ty, nu=nu, kd=kd):
                    v = ev(s, required and strict, stack | {n})
                    v = None if v is SKIP else v
                    if not ok(v, ty, nu, kd):
                        raise IllTyped
                    return v
                args.append(thunk)
                continue
            else:
                v = ev(s, required and strict, stack | {n})
                v = None if v is SKIP else v
            if lz:
                args.append(None)
                continue
            if v is None and strict:
                if required:
                    raise Missing
                return SKIP
            if not ok(v, ty, nu, kd):
                raise IllTyped
            args.append(v)
        executed.append(n)
        if nd["kind"] == "fallback":
            return args[0] if args[0] is not None else (None if args[1] is None else args[1]())
        forced = {}

        def atom(a):
            return args[a[1]] if a[0] == "arg" else forced.get(a[1])
        b = nd["body"]
        while True:
            if b[0] == "ret":
                e = b[1]
                if e[0] == "none":
                    return None
                if e[0] == "str":
                    return f"s{e[1]}"
                if e[0] == "atom":
                    return atom(e[1])
                if e[0] in ("arrf", "arri"):
                    return pyval(["f" if e[0] == "arrf" else "a", e[1]])
                return e[1] + sum(c * num(atom(a)) for c, a in e[2])
            if b[0] == "raise":
                raise Boom(b[1])
            if b[0] == "force":
                forced[b[1]] = None if args[b[1]] is None else args[b[1]]()
                b = b[2]
            elif b[0] == "try":
                try:
                    got = None if args[b[1]] is None else args[b[1]]()
                except CAUGHT:
                    flags["caught"] += 1
                    b = b[3]
                else:
                    forced[b[1]] = got
                    b = b[2]
            else:
                b = b[2] if atom(b[1]) is None else b[3]

    reference.flags = flags
    req = [alias.get(r, r) for r in run["req"]] or [nd["id"] for nd in case["nodes"]]
    try:
        vals = []
        for r in req:
            v = ev(r, True, frozenset())
            if v is SKIP:
                raise Missing
            vals.append(v)
        return ["values", [jval(v) for v in (vals if run["req"] else [])]], set(executed)
    except Missing:
        return ["raised", ["EMissing"]], set(executed)
    except IllTyped:
        return ["raised", ["EType"]], set(executed)
    except Boom as e:
        return ["raised", ["EComp", e.args[0]]], set(executed)
    except RecursionError:
        return ["raised", ["ECycle"]], set(executed)
    except PrevFailed:
        return ["raised", ["EFailed"]], set(executed)


def oracle(case, obs):
    v = []
    for k, (c, o) in enumerate(stage_views(case, obs)):
        v += [(key, (f"build {k}: " if k else "") + w) for key, w in oracle_one(c, o)]
    seen, out = set(), []
    for key, w in v:
        if key not in seen:
            seen.add(key)
            out.append((key, w))
    return out


def oracle_one(case, obs):
    v = []
    cyc = _has_cycle(_wiring(case, with_inject=False))
    if obs["built"] == cyc:
        v.append(("cycle-check", "build() accepted a cyclic wiring" if cyc else "build() rejected an acyclic wiring"))
        return v
    if not obs["built"]:
        return v
    for k, (run, o) in enumerate(zip(case["runs"], obs["runs"])):
        want, needed = reference(case, run)
        got = o["outcome"]
        if got[0] == "raised" and got[1][0] == "EComp":
            if not got[1][2]:
                v.append(("exception-identity", f"run {k}: the exception that reached the caller is not the object the component raised"))
            got = ["raised", got[1][:2]]
        if got != want:
            kind = "value" if want[0] == "values" and got[0] == "values" else "error"
            v.append((f"{kind}-mismatch", f"run {k}: Pipeline.run returned {got}, dataflow evaluation gives {want}"))
        for nm, lg in (("run", o["log"]), ("run_all", o["log_all"])):
            if len(set(lg)) != len(lg):
                v.append(("executed-twice", f"run {k} ({nm}): a component was executed more than once: {lg}"))
            extra = [c for c in lg if c not in needed]
            if extra:
                v.append(("executed-unneeded", f"run {k} ({nm}): components {extra} ran although no requested node consults them"))
            if want[0] == "values" and set(lg) != needed:
                v.append(("needed-not-executed", f"run {k} ({nm}): executed {sorted(set(lg))}, needed {sorted(needed)}"))
        if want[0] == "values" and o["state"] is not None:
            # the state mapping of run_all holds every literal a needed node read, with the very value that was declared
            st = {i: x for i, x in o["state"]}
            for i, x in sorted(reference.consulted.items()):
                if i not in st or st[i] != x:
                    v.append(("literal-state", f"run {k}: literal node {i} was declared as {x}, the state of run_all has {st.get(i, 'no entry')}"))
        a = o["all"]
        if a[0] == "raised" and a[1][0] == "EComp":
            a = ["raised", a[1][:2]]
        if run["req"] and a != got:
            v.append(("run-vs-run_all", f"run {k}: run gave {got} but run_all gave {a}"))
        if o["log"] != o["log_all"]:
            v.append(("run-vs-run_all", f"run {k}: execution order differs between run and run_all: {o['log']} vs {o['log_all']}"))
    seen, out = set(), []
    for key, w in v:
        if key not in seen:
            seen.add(key)
            out.append((key, w))
    return out


def nontrivial(case, obs):
    return any(nontrivial_one(c, o) for c, o in stage_views(case, obs))


def nontrivial_one(case, obs):
    if not obs["built"]:
        return False
    w = _wiring(case)
    for run, o in zip(case["runs"], obs["runs"]):
        lg = set(o["log"])
        if len(lg) < 3:
            continue
        uses = {}
        for c in lg:
            for s, *_ in w.get(c, []):
                if s is not None:
                    uses[s] = uses.get(s, 0) + 1
        shared = any(u >= 2 for u in uses.values()) or len(set(run["req"])) < len(run["req"])
        nodes = {nd["id"]: nd for nd in case["nodes"]}
        special = (o["outcome"][0] == "raised"
                   or any(lz for c in lg for _, lz, *_ in w.get(c, []))
                   or any(nodes[c]["kind"] == "fallback" for c in lg)
                   or any(s in w and s not in lg for c in lg for s, lz, *_ in w.get(c, []) if not lz))
        if shared and special:
            return True
    return False


def counters(case, obs):
    yield "style=" + case["style"]
    views = stage_views(case, obs)
    yield f"builds-of-one-builder={len(views)}"
    for stg in case.get("stages", []):
        for e in stg["edits"]:
            yield "edit=" + e[0] + (":" + e[1] if e[0] == "call" else "-through-alias" if e[0] == "connect" and len(e) > 4 else "")
            if e[0] == "default" and any(d[0] == e[1] for d in case["defaults"]):
                yield "edit=default-replaced-after-a-build"
        if stg.get("closing"):
            yield "cycle-closed-after-a-build-by=" + stg["closing"]
        if stg["pre"]:
            yield "pre-build-call=" + stg["pre"]
    for nd in case["nodes"]:
        if nd["kind"] == "comp":
            for p in nd["params"]:
                if ANNS[p["ann"]][4] != "TInt":
                    yield "has-array-typed-param"
                    break
    for c, o in views:
        yield from counters_one(c, o)
    if has_try(case):
        yield "has-catching-body"
    for c, o in views:
        for run, ro in zip(c["runs"], o["runs"]):
            if ro["outcome"][0] == "raised" and ro["outcome"][1][0] == "EComp":
                yield "raised-class=" + str(ro["outcome"][1][1] % N_EXC)


def counters_one(case, obs):
    yield "built=" + str(obs["built"])
    nc = sum(1 for nd in case["nodes"] if nd["kind"] in ("comp", "fallback"))
    yield f"components={min(nc, 10)}"
    if any(nd["kind"] == "fallback" for nd in case["nodes"]):
        yield "has-fallback"
    if any(ANNS[p["ann"]][0] for nd in case["nodes"] if nd["kind"] == "comp" for p in nd["params"]):
        yield "has-lazy-param"
    if case["defaults"]:
        yield "has-default-connection"
    if case["aliases"]:
        yield "has-alias"
    if case.get("inject"):
        yield "cycle-injected-after-build"
    held = [nd["val"] for nd in case["nodes"] if nd["kind"] in ("inline", "literal") and nd["val"] is not None]
    kin = [family_of(v) for v in held if family_of(v)]
    if any(kin.count(f) >= 2 for f in kin):
        yield "equal-valued-literals-of-different-type"
        w = _wiring(case)
        fed = {s for ps in w.values() for s, *_ in ps}
        if sum(1 for nd in case["nodes"] if nd["kind"] in ("inline", "literal") and family_of(nd["val"] or []) and nd["id"] in fed) >= 2:
            yield "equal-valued-literals-of-different-type-both-consumed"
    names = {nname(nd["id"]) for nd in case["nodes"] if nd["kind"] != "inline"} | {nname(a) for a, _ in case["aliases"]}
    for nd in case["nodes"]:
        if nd["kind"] == "inline":
            v = nd["val"]
            yield "bare-value=" + ("None" if v is None else {"n": "str", "s": "str", "i": "int", "b": "bool"}.get(v[0]) or type(pyval(v)).__name__)
            if v is not None and v[0] == "n":
                yield "bare-value-str-" + ("names-a-node-or-alias" if pyval(v) in names else "names-no-node")
    if obs["built"]:
        for run in case["runs"]:
            reference(case, run)
            if reference.flags["caught"]:
                yield "run:failure-of-lazy-input-caught"
            if reference.flags["refused"]:
                yield "run:failed-node-asked-again"
    for run, o in zip(case["runs"], obs["runs"]):
        oc = o["outcome"]
        yield "run:" + (oc[0] if oc[0] == "values" else oc[1][0])
        yield f"run:executed={min(len(o['log']), 8)}"
        if not run["req"]:
            yield "run:all-nodes"
        if o["state"] is not None:
            comps = {nd["id"] for nd in case["nodes"] if nd["kind"] in ("comp", "fallback")}
            present = {kv[0] for kv in o["state"]}
            if any(v is None for _, v in o["state"]):
                yield "run:state-has-None"
            if comps - present:
                yield "run:component-not-run-or-skipped"
    k = [i for i, o in enumerate(obs["runs"]) if o["outcome"][0] == "raised"]
    if k and k[0] + 1 < len(obs["runs"]):
        yield "rerun-after-failure"
        if obs["runs"][-1]["outcome"][0] == "values":
            yield "rerun-after-failure-succeeds"


def sample(case, obs):
    return {"case": case, "observation": obs}


_SHRUNK = [0]


def shrink(case, fails):
    # cap the cost when something fails: the first few failing cases of a run are minimised, the rest reported as found
    _SHRUNK[0] += 1
    if _SHRUNK[0] > 5:
        return case
    c = copy.deepcopy(case)
    # a builder history: drop the builds after the failing one, then the calls that only read the builder
    while c.get("stages") and fails({**c, "stages": c["stages"][:-1]}):
        c["stages"] = c["stages"][:-1]
    for stg in c.get("stages", []):
        for e in [e for e in stg["edits"] if e[0] in ("call", "clone")]:
            cand = copy.deepcopy(c)
            cand["stages"][c["stages"].index(stg)]["edits"] = [x for x in stg["edits"] if x is not e]
            if fails(cand):
                stg["edits"] = [x for x in stg["edits"] if x is not e]
    c["runs"] = common.shrink_list(c["runs"], lambda xs: bool(xs) and fails({**c, "runs": xs}), 30)
    for run in c["runs"]:
        for k in range(len(run["req"]) - 1, -1, -1):
            if len(run["req"]) > 1:
                cand = copy.deepcopy(c)
                i = c["runs"].index(run)
                cand["runs"][i]["req"] = run["req"][:k] + run["req"][k + 1:]
                if fails(cand):
                    run["req"] = cand["runs"][i]["req"]
    # simplify bodies of components one at a time
    for nd in c["nodes"]:
        if nd["kind"] == "comp" and nd["body"][0] != "ret":
            cand = copy.deepcopy(c)
            cand["nodes"][nd["id"]]["body"] = ["ret", ["lin", nd["id"], [[1, ["arg", i]] for i, p in enumerate(nd["params"]) if not ANNS[p["ann"]][0]]]]
            if fails(cand):
                nd["body"] = cand["nodes"][nd["id"]]["body"]
    c["aliases"] = [a for a in c["aliases"] if any(a[0] in r["req"] for r in c["runs"])]
    return c
