"""C02 -- a pipeline run is the functional evaluation of its DAG, each needed node once
(DESIGN.md section 4, C02; notes/design/C02.md)."""

from __future__ import annotations

import copy

import common
from common import cbool, clist, cnat, copt, cz
from framework import TranslateError  # noqa: F401

PID = "C02"
PROPS_FILE = "Props/C02.v"
GEN_FILES = ["Gen/C02_shape.v"]
MODEL_FILES = ["Model/C02_runner.v"]
MODEL_INDEPENDENT_OF_GEN = True
ALLOWED_AXIOMS: list[str] = []
CASE_HEADER = "From Coq Require Import ZArith List Bool.\nFrom LK Require Import Model.C02_runner.\nImport ListNotations."
SHARD = 40
TRUSTED = [
    "Coq 8.16.1 kernel + vm_compute (no native_compute); Print Assumptions of every theorem in Props/C02.v: closed under the global context",
    "hand-written model Model/C02_runner.v of PipelineRunner.run/_run_node/_inject_input/_run_component/DeferredRun.get, Pipeline.run/run_all and "
    "PipelineBuilder.build_config (default connections, cycle check), tied to the code by correspondence cases evaluated inside Coq: outcome or error "
    "class of Pipeline.run, execution log in call order, state mapping of run_all, several runs on one pipeline object",
    "extractor harness/translate/c02.py (Python ast -> Gen/C02_shape.v): a run builds a fresh PipelineRunner whose status map is all 'pending' and whose "
    "state is empty, and neither Pipeline.run/run_all nor the runner assign to the pipeline; status dispatch order of PipelineRunner.run",
    "components are modelled as deterministic interaction trees that do not catch the exceptions of their lazy inputs; graphlib.TopologicalSorter "
    "(cycle detection) and typing.get_type_hints are library contracts exercised by the correspondence runs, not verified",
    "error classes are canonicalised: KeyError and PipelineError('.. not specified' / 'no data available ..') -> EMissing, TypeError -> EType, "
    "PipelineError('.. cycle ..') -> ECycle, component exceptions -> EComp k (object identity checked by the harness)",
]
ASSUMPTIONS = [
    "components are deterministic functions of their (eager and forced lazy) inputs and do not catch exceptions raised while forcing a lazy input",
    "theorems about results assume the resolved wiring is acyclic (a rank function exists) and the recursion bound exceeds the depth of the graph",
    "values are ints or non-int objects; parameter annotations are int, int | None, Lazy[int], Lazy[int | None], an unconstrained TypeVar, or absent",
]
RULE = ("structured generator: 1-4 inputs (int / int|None / untyped; supplied, absent or ill-typed per run), 0-3 literals, 1-10 components of arity 0-4 "
        "declared in random order and wired by connect() to earlier or later-declared nodes, aliases, default connections, lazy parameters, "
        "use_first_of chains, bodies that force lazies conditionally, return None / a non-int / raise; 2-4 runs per pipeline object with 1-3 requested "
        "nodes (or all); every 4th base graph is repeated with a raising component at each position in turn; every 8th case is malformed (cycle via "
        "connect or via a default connection, or a cycle injected into a built pipeline). non-trivial = at least 3 components executed in some run, a "
        "node consumed by two executed consumers or requested twice, and at least one of: lazy input forced, fallback taken, component skipped, error; "
        "distinct = by hash of the case")

PNAMES = "abcde"
ANNS = {  # annotation -> (lazy, typed, nullable, python text)
    "int": (False, True, False, "int"),
    "opt": (False, True, True, "int | None"),
    "any": (False, False, True, None),
    "lazy": (True, True, False, "Lazy[int]"),
    "lazyopt": (True, True, True, "Lazy[int | None]"),
    "lazyany": (True, False, True, "Lazy[_T]"),
}


def translate():
    from translate import c02 as t
    from translate.pyq import TranslateError as TE
    try:
        return t.translate(common.SRC)
    except TE as e:
        raise TranslateError(str(e))


# ---------------------------------------------------------------------------------------------
# generator
# ---------------------------------------------------------------------------------------------


def gen_val(rng, bad_odds=0):
    if bad_odds and rng.chance(bad_odds, 10):
        return ["s", rng.randint(0, 9)]
    return ["i", rng.randint(0, 20)]


def gen_body(rng, params, kind):
    """params: list of annotations.  Returns a bprog in JSON form."""
    eager = [i for i, p in enumerate(params) if not ANNS[p["ann"]][0]]
    lazy = [i for i, p in enumerate(params) if ANNS[p["ann"]][0]]

    def final(forced):
        terms = [[rng.randint(1, 9), ["arg", i]] for i in eager] + [[rng.randint(1, 9), ["forced", i]] for i in forced]
        r = rng.below(20)
        if kind == "none" or r == 0:
            return ["ret", ["none"]]
        if kind == "str" or r == 1:
            return ["ret", ["str", rng.randint(0, 9)]]
        if r == 2 and (eager or forced):
            a = ["arg", rng.choice(eager)] if eager and (not forced or rng.chance(1, 2)) else ["forced", rng.choice(forced)]
            return ["ret", ["atom", a]]
        return ["ret", ["lin", rng.randint(0, 50), terms]]

    def build(todo, forced, depth):
        if not todo or depth > 3:
            return final(forced)
        i, rest = todo[0], todo[1:]
        style = rng.below(4)
        if style == 0:                      # always force
            return ["force", i, build(rest, forced + [i], depth + 1)]
        if style == 1:                      # never force
            return build(rest, forced, depth)
        if style == 2 and eager:            # force only when an eager argument is None
            a = ["arg", rng.choice(eager)]
            return ["ifnone", a, ["force", i, build(rest, forced + [i], depth + 1)], build(rest, forced, depth + 1)]
        if forced:                          # force depending on an earlier forced value
            a = ["forced", rng.choice(forced)]
            return ["ifnone", a, ["force", i, build(rest, forced + [i], depth + 1)], build(rest, forced, depth + 1)]
        return ["force", i, build(rest, forced + [i], depth + 1)]

    body = build(rng.shuffle(lazy), [], 0)
    if eager and rng.chance(1, 5):
        a = ["arg", rng.choice(eager)]
        body = ["ifnone", a, final([]), body]
    return body


def gen_graph(rng, malformed):
    n_in = rng.randint(1, 4)
    n_lit = rng.weighted([(0, 3), (1, 3), (2, 2), (3, 1)])
    n_comp = rng.weighted([(1, 1), (2, 2), (3, 3), (4, 3), (5, 3), (6, 2), (8, 2), (10, 1)])
    nodes = []          # in hidden topological order
    for _ in range(n_in):
        t = rng.weighted([("int", 4), ("opt", 4), ("any", 1)])
        nodes.append({"kind": "input", "typed": t != "any", "nullable": t != "int"})
    for _ in range(n_lit):
        nodes.append({"kind": "literal", "val": gen_val(rng, 1)})
    base = len(nodes)
    for k in range(n_comp):
        here = len(nodes)
        if here >= 2 and rng.chance(1, 5):
            # first-available fallback; prefer a primary that may be absent
            nodes.append({"kind": "fallback", "primary": rng.below(here), "fallback": rng.below(here)})
            continue
        arity = rng.weighted([(0, 1), (1, 4), (2, 4), (3, 2), (4, 1)])
        names = rng.sample(list(range(len(PNAMES))), arity)
        params = []
        for pn in names:
            ann = rng.weighted([("int", 6), ("opt", 5), ("any", 2), ("lazy", 3), ("lazyopt", 2), ("lazyany", 1)])
            conn = rng.below(here) if rng.chance(5, 6) else None
            # bias towards sharing: re-use a recent component
            if conn is not None and here > base and rng.chance(1, 2):
                conn = rng.randint(max(base, here - 4), here - 1)
            params.append({"name": pn, "conn": conn, "ann": ann})
        kind = rng.weighted([("lin", 12), ("none", 1), ("str", 1)])
        nodes.append({"kind": "comp", "params": params, "body": gen_body(rng, params, kind)})
    n = len(nodes)
    # default connections
    defaults = []
    for _ in range(rng.weighted([(0, 3), (1, 3), (2, 1)])):
        pn = rng.below(len(PNAMES))
        if any(d[0] == pn for d in defaults):
            continue
        tgt = rng.below(base) if rng.chance(2, 3) else rng.below(n)
        defaults.append([pn, tgt])
        if not (malformed and rng.chance(1, 2)):
            # keep the wiring acyclic: a component at or below the target must not pick this default up
            for j in range(tgt + 1):
                if nodes[j]["kind"] == "comp":
                    for p in nodes[j]["params"]:
                        if p["name"] == pn and p["conn"] is None:
                            p["conn"] = rng.below(j) if j else None
                    nodes[j]["params"] = [p for p in nodes[j]["params"] if not (p["name"] == pn and p["conn"] is None)]
    inject = []
    if malformed:
        comps = [j for j in range(n) if nodes[j]["kind"] == "comp" and nodes[j]["params"]]
        how = rng.below(3)
        if comps:
            j = rng.choice(comps)
            later = [t for t in comps if t > j]
            p = rng.choice(nodes[j]["params"])
            if later and rng.chance(2, 3):      # two-node (or longer) cycle: t consumes j, j consumes t
                t = rng.choice(later)
                rng.choice(nodes[t]["params"])["conn"] = j
            else:
                t = j                           # self loop
            if how == 0:                        # closed by connect()
                p["conn"] = t
            elif how == 1:                      # closed by a default connection
                p["conn"] = None
                defaults = [d for d in defaults if d[0] != p["name"]] + [[p["name"], t]]
            else:                               # closed in a pipeline that was built acyclic (the runner's own check)
                inject.append([j, p["name"], t])
    # declaration order and ids: ids are assigned in declaration order
    order = rng.shuffle(list(range(n)))
    ident = {h: i for i, h in enumerate(order)}          # hidden index -> id

    def rn(h):
        return None if h is None else ident[h]
    out = [None] * n
    for h, nd in enumerate(nodes):
        nd = copy.deepcopy(nd)
        if nd["kind"] == "comp":
            for p in nd["params"]:
                p["conn"] = rn(p["conn"])
        elif nd["kind"] == "fallback":
            nd["primary"], nd["fallback"] = rn(nd["primary"]), rn(nd["fallback"])
        nd["id"] = ident[h]
        out[ident[h]] = nd
    aliases = []
    for k in range(rng.weighted([(0, 2), (1, 2), (2, 1)])):
        aliases.append([100 + k, rng.below(n)])
    return {"nodes": out, "defaults": [[pn, ident[t]] for pn, t in defaults], "aliases": aliases,
            "inject": [[ident[j], pn, ident[t]] for j, pn, t in inject], "depth_order": [ident[h] for h in range(n)]}


def gen_runs(rng, g):
    ins = [nd for nd in g["nodes"] if nd["kind"] == "input"]
    names = [nd["id"] for nd in g["nodes"]] + [a for a, _ in g["aliases"]]
    kinds = {nd["id"]: nd["kind"] for nd in g["nodes"]}
    comps = [i for i in g["depth_order"] if kinds[i] in ("comp", "fallback")]      # shallow to deep
    deep = comps[len(comps) // 2:]
    runs = []
    mode = rng.weighted([("all", 3), ("mixed", 5), ("bad", 1)])
    for r in range(rng.randint(2, 4)):
        inputs = []
        for nd in ins:
            if mode == "all" and r == 0:
                w = "ok"
            else:
                w = rng.weighted([("ok", 6), ("absent", 3), ("bad", 1 if mode != "bad" else 4)])
            if w == "ok":
                inputs.append([nd["id"], ["i", rng.randint(0, 20)]])
            elif w == "bad":
                inputs.append([nd["id"], ["s", rng.randint(0, 9)]])
        k = rng.weighted([(0, 1), (1, 5), (2, 4), (3, 2)])
        req = []
        for _ in range(k):
            req.append(rng.choice(deep) if comps and rng.chance(1, 2) else rng.choice(comps) if comps and rng.chance(1, 2) else rng.choice(names))
        runs.append({"inputs": inputs, "req": req})
    # a run that should succeed after whatever failed before it
    runs.append({"inputs": [[nd["id"], ["i", rng.randint(0, 20)]] for nd in ins], "req": [rng.choice(deep)] if comps else [names[0]]})
    return runs


def gen_cases(rng, tier):
    n_base = 360 if tier == "quick" else 10000
    out = []
    for k in range(n_base):
        r = rng.fork(k)
        malformed = k % 8 == 7
        g = gen_graph(r, malformed)
        case = {**g, "runs": gen_runs(r, g), "style": "malformed" if malformed else "valid"}
        out.append(case)
        if k % 4 == 0 and not malformed:
            comps = [nd["id"] for nd in g["nodes"] if nd["kind"] == "comp"]
            for c in comps:
                v = copy.deepcopy(case)
                v["nodes"][c]["body"] = ["raise", 700 + c]
                v["style"] = "raising"
                out.append(v)
    return out


# ---------------------------------------------------------------------------------------------
# implementation driver
# ---------------------------------------------------------------------------------------------

_ready = False


def _setup():
    global _ready, PipelineBuilder, Lazy, PipelineError, fallback_on_none, CompError, LB
    if _ready:
        return
    common.use_repo()
    import structlog
    from lenskit.logging.tracing import lenskit_filtering_logger
    structlog.configure(wrapper_class=lenskit_filtering_logger(50), logger_factory=structlog.ReturnLoggerFactory())
    from lenskit.diagnostics import PipelineError
    from lenskit.pipeline import Lazy, PipelineBuilder
    import lenskit.pipeline.builder as LB
    from lenskit.pipeline.components import fallback_on_none

    class CompError(Exception):
        def __init__(self, k):
            super().__init__(k)
            self.k = k

    _ready = True


def pyval(v):
    return None if v is None else (v[1] if v[0] == "i" else f"s{v[1]}")


def jval(x):
    if x is None:
        return None
    if isinstance(x, bool):
        raise TypeError("bool value")
    if isinstance(x, int):
        return ["i", x]
    if isinstance(x, str) and x.startswith("s"):
        return ["s", int(x[1:])]
    raise TypeError(f"unexpected value {x!r}")


def num(x):
    if x is None:
        return -1
    if isinstance(x, int):
        return x
    return 1000003 + int(x[1:])


class Interp:
    """Runs a body (bprog in JSON form) on the arguments the runner passed; logs the call."""

    def __init__(self):
        self.log = []
        self.raised = []

    def call(self, cid, body, args):
        self.log.append(cid)
        forced = {}

        def atom(a):
            return args[a[1]] if a[0] == "arg" else forced.get(a[1])

        def ev(e):
            if e[0] == "none":
                return None
            if e[0] == "str":
                return f"s{e[1]}"
            if e[0] == "atom":
                return atom(e[1])
            return e[1] + sum(c * num(atom(a)) for c, a in e[2])
        b = body
        while True:
            if b[0] == "ret":
                return ev(b[1])
            if b[0] == "raise":
                e = CompError(b[1])
                self.raised.append(e)
                raise e
            if b[0] == "force":
                x = args[b[1]]
                forced[b[1]] = None if x is None else x.get()
                b = b[2]
            else:
                b = b[2] if atom(b[1]) is None else b[3]


def make_fn(interp, nd):
    params = nd["params"]
    sig = ", ".join(PNAMES[p["name"]] + ("" if ANNS[p["ann"]][3] is None else ": " + ANNS[p["ann"]][3]) for p in params)
    src = f"def comp_{nd['id']}({sig}):\n    return _call({nd['id']}, _body, [{', '.join(PNAMES[p['name']] for p in params)}])\n"
    import typing
    ns = {"Lazy": Lazy, "_T": typing.TypeVar("_T"), "_call": interp.call, "_body": nd["body"]}
    exec(src, ns)
    return ns[f"comp_{nd['id']}"]


def logged_fallback(interp, cid):
    """The real fallback_on_none behind a wrapper that only logs the call (signature and hints are the original's)."""
    import functools

    @functools.wraps(fallback_on_none)
    def fallback_logged(*a, **kw):
        interp.log.append(cid)
        return fallback_on_none(*a, **kw)
    return fallback_logged


def classify(e, interp):
    if isinstance(e, CompError):
        return ["EComp", e.k, bool(interp.raised) and e is interp.raised[-1]]
    if isinstance(e, PipelineError):
        return ["ECycle"] if "cycle" in str(e) else ["EMissing"]
    if isinstance(e, KeyError):
        return ["EMissing"]
    if isinstance(e, TypeError):
        return ["EType"]
    if isinstance(e, RuntimeError) and "previously failed" in str(e):
        return ["EFailed"]
    raise e


def nname(i):
    return f"n{i}"


def build_pipeline(case, interp):
    b = PipelineBuilder()
    handles = {}
    later = []
    for nd in case["nodes"]:
        i = nd["id"]
        if nd["kind"] == "input":
            ts = ([int] if nd["typed"] else []) + ([None] if nd["typed"] and nd["nullable"] else [])
            handles[i] = b.create_input(nname(i), *ts)
        elif nd["kind"] == "literal":
            handles[i] = b.literal(pyval(nd["val"]), name=nname(i))
        elif nd["kind"] == "fallback":
            fn = logged_fallback(interp, i)
            if nd["primary"] in handles and nd["fallback"] in handles:
                LB.fallback_on_none = fn           # use_first_of adds the module-level function
                try:
                    handles[i] = b.use_first_of(nname(i), handles[nd["primary"]], handles[nd["fallback"]])
                finally:
                    LB.fallback_on_none = fallback_on_none
            else:
                handles[i] = b.add_component(nname(i), fn)
                later.append((i, {"primary": nd["primary"], "fallback": nd["fallback"]}))
        else:
            now = {PNAMES[p["name"]]: handles[p["conn"]] for p in nd["params"] if p["conn"] is not None and p["conn"] in handles and p["name"] % 2 == 0}
            handles[i] = b.add_component(nname(i), make_fn(interp, nd), **now)
            rest = {PNAMES[p["name"]]: p["conn"] for p in nd["params"] if p["conn"] is not None and PNAMES[p["name"]] not in now}
            if rest:
                later.append((i, rest))
    for i, wiring in later:
        b.connect(handles[i], **{k: handles[t] for k, t in wiring.items()})
    for pn, t in case["defaults"]:
        b.default_connection(PNAMES[pn], handles[t])
    for a, t in case["aliases"]:
        b.alias(nname(a), handles[t] if a % 2 == 0 else nname(t))
    pipe = b.build()
    for j, pn, t in case.get("inject", []):
        pipe._edges[nname(j)][PNAMES[pn]] = nname(t)      # bypasses the builder: exercises the runner's own cycle check
    return pipe


def run_impl(case):
    _setup()
    interp = Interp()
    try:
        pipe = build_pipeline(case, interp)
    except PipelineError as e:
        if "cycles" in str(e):
            return {"built": False, "runs": []}
        raise
    ids = {nname(nd["id"]): nd["id"] for nd in case["nodes"]}
    obs = []
    for run in case["runs"]:
        kw = {nname(i): pyval(v) for i, v in run["inputs"]}
        req = [nname(i) for i in run["req"]]
        o = {}
        # Pipeline.run with a tuple of names (skipped for the empty request: run() would use the default node)
        interp.log, interp.raised = [], []
        if req:
            try:
                vals = pipe.run(tuple(req), **kw)
                o["outcome"] = ["values", [jval(v) for v in vals]]
            except Exception as e:
                o["outcome"] = ["raised", classify(e, interp)]
            o["log"] = list(interp.log)
        # run_all with the same request
        interp.log, interp.raised = [], []
        try:
            st = pipe.run_all(*req, **kw)
            o["state"] = sorted([ids[k], jval(v)] for k, v in dict(st).items())
            o["all"] = ["values", [jval(st[r]) for r in req]]
        except Exception as e:
            o["state"] = None
            o["all"] = ["raised", classify(e, interp)]
        o["log_all"] = list(interp.log)
        if not req:
            o["outcome"] = o["all"] if o["all"][0] == "raised" else ["values", []]
            o["log"] = o["log_all"]
        obs.append(o)
    return {"built": True, "runs": obs}


# ---------------------------------------------------------------------------------------------
# model side
# ---------------------------------------------------------------------------------------------


def c_val(v):
    return f"(VInt {cz(v[1])})" if v[0] == "i" else f"(VStr {cz(v[1])})"


def c_atom(a):
    return f"({'AArg' if a[0] == 'arg' else 'AForced'} {cnat(a[1])})"


def c_bexp(e):
    if e[0] == "none":
        return "BNone"
    if e[0] == "str":
        return f"(BStr {cz(e[1])})"
    if e[0] == "atom":
        return f"(BAtom {c_atom(e[1])})"
    return f"(BLin {cz(e[1])} {clist(e[2], lambda t: f'({cz(t[0])}, {c_atom(t[1])})')})"


def c_bprog(b):
    if b[0] == "ret":
        return f"(BRet {c_bexp(b[1])})"
    if b[0] == "raise":
        return f"(BRaise {cz(b[1])})"
    if b[0] == "force":
        return f"(BForce {cnat(b[1])} {c_bprog(b[2])})"
    return f"(BIfNone {c_atom(b[1])} {c_bprog(b[2])} {c_bprog(b[3])})"


def c_bparam(p):
    lz, ty, nu, _ = ANNS[p["ann"]]
    return (f"{{| bp_name := {cnat(p['name'])}; bp_conn := {copt(p['conn'], cnat)}; bp_lazy := {cbool(lz)}; "
            f"bp_typed := {cbool(ty)}; bp_nullable := {cbool(nu)} |}}")


def c_node(nd, inject):
    if nd["kind"] == "input":
        return f"BInput {cbool(nd['typed'])} {cbool(nd['nullable'])}"
    if nd["kind"] == "literal":
        return f"BLiteral {c_val(nd['val'])}"
    if nd["kind"] == "fallback":
        ps = [{"name": 0, "conn": nd["primary"], "ann": "any"}, {"name": 1, "conn": nd["fallback"], "ann": "lazyany"}]
        return f"BComp {clist(ps, c_bparam)} fallback_body"
    ps = copy.deepcopy(nd["params"])
    for j, pn, t in inject:
        if j == nd["id"]:
            for p in ps:
                if p["name"] == pn:
                    p["conn"] = t
    return f"BComp {clist(ps, c_bparam)} (body_of {c_bprog(nd['body'])})"


def c_outcome(o):
    if o[0] == "values":
        return f"(Values {clist(o[1], lambda v: copt(v, c_val))})"
    e = o[1]
    return f"(Raised {'(EComp ' + cz(e[1]) + ')' if e[0] == 'EComp' else e[0]})"


def c_builder(case, inject):
    nodes = clist(case["nodes"], lambda nd: f"({cnat(nd['id'])}, {c_node(nd, inject)})")
    return (f"{{| b_nodes := {nodes}; b_defaults := {clist(case['defaults'], lambda d: f'({cnat(d[0])}, {cnat(d[1])})')}; "
            f"b_aliases := {clist(case['aliases'], lambda a: f'({cnat(a[0])}, {cnat(a[1])})')} |}}")


def coq_term(case, obs):
    runs = []
    for run, o in zip(case["runs"], obs["runs"]):
        st = "None" if o["state"] is None else "(Some " + clist(o["state"], lambda kv: f"({cnat(kv[0])}, {copt(kv[1], c_val)})") + ")"
        runs.append(
            f"{{| o_inputs := {clist(run['inputs'], lambda iv: f'({cnat(iv[0])}, {c_val(iv[1])})')}; o_req := {clist(run['req'], cnat)}; "
            f"o_outcome := {c_outcome(o['outcome'])}; o_log := {clist(o['log'], cnat)}; o_state := {st} |}}")
    inject = case.get("inject", [])
    if inject:
        # the pipeline was built from the un-injected wiring; the runs use the injected one
        return (f"(match build {c_builder(case, [])} with None => negb {cbool(obs['built'])} | Some _ => {cbool(obs['built'])} && "
                f"(let b := {c_builder(case, inject)} in let g := resolve b in "
                f"forallb (agree_run false (2 + length g) g (b_aliases b)) {clist(runs, str)}) end)")
    return f"agree_case {c_builder(case, [])} {cbool(obs['built'])} {clist(runs, str)}"


# ---------------------------------------------------------------------------------------------
# the property as a predicate on implementation output (independent of the Coq model):
# a memo-free reference evaluator of the DAG plus call counters
# ---------------------------------------------------------------------------------------------


class Missing(Exception):
    pass


class IllTyped(Exception):
    pass


class Boom(Exception):
    pass


SKIP = object()


def _wiring(case, with_inject=True):
    dflt = dict((pn, t) for pn, t in case["defaults"])
    w = {}
    for nd in case["nodes"]:
        if nd["kind"] == "comp":
            w[nd["id"]] = [(p["conn"] if p["conn"] is not None else dflt.get(p["name"]), *ANNS[p["ann"]][:3], p["name"]) for p in nd["params"]]
        elif nd["kind"] == "fallback":
            w[nd["id"]] = [(nd["primary"], False, False, True, 0), (nd["fallback"], True, False, True, 1)]
    if with_inject:
        for j, pn, t in case.get("inject", []):
            w[j] = [((t if name == pn else s), lz, ty, nu, name) for s, lz, ty, nu, name in w[j]]
    return w


def _has_cycle(w):
    state = {}

    def visit(n):
        if state.get(n) == 1:
            return True
        if state.get(n) == 2 or n not in w:
            return False
        state[n] = 1
        if any(s is not None and visit(s) for s, *_ in w[n]):
            return True
        state[n] = 2
        return False
    return any(visit(n) for n in w)


def reference(case, run):
    """Evaluate the requested nodes as a pure dataflow program.  Returns (values | exception, executed set)."""
    nodes = {nd["id"]: nd for nd in case["nodes"]}
    w = _wiring(case)
    given = {i: pyval(v) for i, v in run["inputs"]}
    alias = dict((a, t) for a, t in case["aliases"])
    executed = []

    def ok(v, typed, nullable):
        return (not typed) or (nullable if v is None else isinstance(v, int))

    def ev(n, required, stack):
        if n in stack:
            raise RecursionError
        nd = nodes[n]
        if nd["kind"] == "literal":
            return pyval(nd["val"])
        if nd["kind"] == "input":
            v = given.get(n)
            if v is None and nd["typed"] and not nd["nullable"]:
                if required:
                    raise Missing
                return SKIP
            if v is not None and nd["typed"] and not isinstance(v, int):
                raise IllTyped
            return v
        args = []
        for s, lz, ty, nu, _ in w[n]:
            strict = ty and not nu
            if s is None:
                v = None
            elif lz:
                def thunk(s=s, strict=strict, ty=ty, nu=nu):
                    v = ev(s, required and strict, stack | {n})
                    v = None if v is SKIP else v
                    if not ok(v, ty, nu):
                        raise IllTyped
                    return v
                args.append(thunk)
                continue
            else:
                v = ev(s, required and strict, stack | {n})
                v = None if v is SKIP else v
            if lz:
                args.append(None)
                continue
            if v is None and strict:
                if required:
                    raise Missing
                return SKIP
            if not ok(v, ty, nu):
                raise IllTyped
            args.append(v)
        executed.append(n)
        if nd["kind"] == "fallback":
            return args[0] if args[0] is not None else (None if args[1] is None else args[1]())
        forced = {}

        def atom(a):
            return args[a[1]] if a[0] == "arg" else forced.get(a[1])
        b = nd["body"]
        while True:
            if b[0] == "ret":
                e = b[1]
                if e[0] == "none":
                    return None
                if e[0] == "str":
                    return f"s{e[1]}"
                if e[0] == "atom":
                    return atom(e[1])
                return e[1] + sum(c * num(atom(a)) for c, a in e[2])
            if b[0] == "raise":
                raise Boom(b[1])
            if b[0] == "force":
                forced[b[1]] = None if args[b[1]] is None else args[b[1]]()
                b = b[2]
            else:
                b = b[2] if atom(b[1]) is None else b[3]

    req = [alias.get(r, r) for r in run["req"]] or [nd["id"] for nd in case["nodes"]]
    try:
        vals = []
        for r in req:
            v = ev(r, True, frozenset())
            if v is SKIP:
                raise Missing
            vals.append(v)
        return ["values", [jval(v) for v in (vals if run["req"] else [])]], set(executed)
    except Missing:
        return ["raised", ["EMissing"]], set(executed)
    except IllTyped:
        return ["raised", ["EType"]], set(executed)
    except Boom as e:
        return ["raised", ["EComp", e.args[0]]], set(executed)
    except RecursionError:
        return ["raised", ["ECycle"]], set(executed)


def oracle(case, obs):
    v = []
    cyc = _has_cycle(_wiring(case, with_inject=False))
    if obs["built"] == cyc:
        v.append(("cycle-check", "build() accepted a cyclic wiring" if cyc else "build() rejected an acyclic wiring"))
        return v
    if not obs["built"]:
        return v
    for k, (run, o) in enumerate(zip(case["runs"], obs["runs"])):
        want, needed = reference(case, run)
        got = o["outcome"]
        if got[0] == "raised" and got[1][0] == "EComp":
            if not got[1][2]:
                v.append(("exception-identity", f"run {k}: the exception that reached the caller is not the object the component raised"))
            got = ["raised", got[1][:2]]
        if got != want:
            kind = "value" if want[0] == "values" and got[0] == "values" else "error"
            v.append((f"{kind}-mismatch", f"run {k}: Pipeline.run returned {got}, dataflow evaluation gives {want}"))
        for nm, lg in (("run", o["log"]), ("run_all", o["log_all"])):
            if len(set(lg)) != len(lg):
                v.append(("executed-twice", f"run {k} ({nm}): a component was executed more than once: {lg}"))
            extra = [c for c in lg if c not in needed]
            if extra:
                v.append(("executed-unneeded", f"run {k} ({nm}): components {extra} ran although no requested node consults them"))
            if want[0] == "values" and set(lg) != needed:
                v.append(("needed-not-executed", f"run {k} ({nm}): executed {sorted(set(lg))}, needed {sorted(needed)}"))
        a = o["all"]
        if a[0] == "raised" and a[1][0] == "EComp":
            a = ["raised", a[1][:2]]
        if run["req"] and a != got:
            v.append(("run-vs-run_all", f"run {k}: run gave {got} but run_all gave {a}"))
        if o["log"] != o["log_all"]:
            v.append(("run-vs-run_all", f"run {k}: execution order differs between run and run_all: {o['log']} vs {o['log_all']}"))
    seen, out = set(), []
    for key, w in v:
        if key not in seen:
            seen.add(key)
            out.append((key, w))
    return out


def nontrivial(case, obs):
    if not obs["built"]:
        return False
    w = _wiring(case)
    for run, o in zip(case["runs"], obs["runs"]):
        lg = set(o["log"])
        if len(lg) < 3:
            continue
        uses = {}
        for c in lg:
            for s, *_ in w.get(c, []):
                if s is not None:
                    uses[s] = uses.get(s, 0) + 1
        shared = any(u >= 2 for u in uses.values()) or len(set(run["req"])) < len(run["req"])
        nodes = {nd["id"]: nd for nd in case["nodes"]}
        special = (o["outcome"][0] == "raised"
                   or any(lz for c in lg for _, lz, *_ in w.get(c, []))
                   or any(nodes[c]["kind"] == "fallback" for c in lg)
                   or any(s in w and s not in lg for c in lg for s, lz, *_ in w.get(c, []) if not lz))
        if shared and special:
            return True
    return False


def counters(case, obs):
    yield "style=" + case["style"]
    yield "built=" + str(obs["built"])
    nc = sum(1 for nd in case["nodes"] if nd["kind"] in ("comp", "fallback"))
    yield f"components={min(nc, 10)}"
    if any(nd["kind"] == "fallback" for nd in case["nodes"]):
        yield "has-fallback"
    if any(ANNS[p["ann"]][0] for nd in case["nodes"] if nd["kind"] == "comp" for p in nd["params"]):
        yield "has-lazy-param"
    if case["defaults"]:
        yield "has-default-connection"
    if case["aliases"]:
        yield "has-alias"
    if case.get("inject"):
        yield "cycle-injected-after-build"
    for run, o in zip(case["runs"], obs["runs"]):
        oc = o["outcome"]
        yield "run:" + (oc[0] if oc[0] == "values" else oc[1][0])
        yield f"run:executed={min(len(o['log']), 8)}"
        if not run["req"]:
            yield "run:all-nodes"
        if o["state"] is not None:
            comps = {nd["id"] for nd in case["nodes"] if nd["kind"] in ("comp", "fallback")}
            present = {kv[0] for kv in o["state"]}
            if any(v is None for _, v in o["state"]):
                yield "run:state-has-None"
            if comps - present:
                yield "run:component-not-run-or-skipped"
    k = [i for i, o in enumerate(obs["runs"]) if o["outcome"][0] == "raised"]
    if k and k[0] + 1 < len(obs["runs"]):
        yield "rerun-after-failure"
        if obs["runs"][-1]["outcome"][0] == "values":
            yield "rerun-after-failure-succeeds"


def sample(case, obs):
    return {"case": case, "observation": obs}


def shrink(case, fails):
    c = copy.deepcopy(case)
    c["runs"] = common.shrink_list(c["runs"], lambda xs: bool(xs) and fails({**c, "runs": xs}), 30)
    for run in c["runs"]:
        for k in range(len(run["req"]) - 1, -1, -1):
            if len(run["req"]) > 1:
                cand = copy.deepcopy(c)
                i = c["runs"].index(run)
                cand["runs"][i]["req"] = run["req"][:k] + run["req"][k + 1:]
                if fails(cand):
                    run["req"] = cand["runs"][i]["req"]
    # simplify bodies of components one at a time
    for nd in c["nodes"]:
        if nd["kind"] == "comp" and nd["body"][0] != "ret":
            cand = copy.deepcopy(c)
            cand["nodes"][nd["id"]]["body"] = ["ret", ["lin", nd["id"], [[1, ["arg", i]] for i, p in enumerate(nd["params"]) if not ANNS[p["ann"]][0]]]]
            if fails(cand):
                nd["body"] = cand["nodes"][nd["id"]]["body"]
    c["aliases"] = [a for a in c["aliases"] if any(a[0] in r["req"] for r in c["runs"])]
    return c
