"""C15 -- saved, pickled and converted objects load back equal; saves never mix contents.

Case kinds (all driven on the real lenskit code, DESIGN.md section 4 C15):
  crash : Dataset.save over an old directory, interrupted before effect k (optionally with the k-th
          write truncated), then Dataset.load, classified {fail,new,old,mixture}
  dsrt  : dataset with attributes of every layout: save+load and pickle, observational equality
  il    : item list through pickle / data frame / Arrow; the list is the end of a history of derivations
          (copy constructor with overrides, subsetting, clone) from lists that have been used before
  coll  : item-list collection through the native Parquet layout (lists with such histories)
  key   : generic collection key through __reduce__ / create_key
Trained models and pipelines (pickle, reload, scores bit-equal) are exercised by `extra`.
"""

from __future__ import annotations

import hashlib
import json
import os
import shutil
import tempfile

import common
from common import cbool, clist, cnat, copt, cstr, cz
from framework import TranslateError  # noqa: F401

PID = "C15"
PROPS_FILE = "Props/C15.v"
GEN_FILES = ["Gen/C15_save.v", "Gen/C15_state.v"]
MODEL_FILES = ["Model/C15_steps.v", "Model/C15_fs.v", "Model/C15_codec.v", "Model/C15_derive.v"]
ALLOWED_AXIOMS: list[str] = []
SHARD = 120
CASE_HEADER = ("From Coq Require Import ZArith List Bool String.\n"
               "From LK Require Import Model.C15_steps Gen.C15_save Model.C15_fs Model.C15_codec Model.C15_derive.\n"
               "Open Scope string_scope. Open Scope list_scope.")
TRUSTED = [
    "Coq 8.16.1 kernel + vm_compute (no native_compute); Print Assumptions of every theorem in Props/C15.v: closed under the global context",
    "extractor harness/translate/c15.py: DataContainer.save/load statement lists (fail closed on any statement outside the effect grammar; file-name literals of save and load must coincide; Dataset.save/load must be plain delegations)",
    "extractor harness/translate/c15.py (items.py part): attribute set of ItemList, its wholesale __dict__ operations and the guarded statement lists of __getstate__/__setstate__/arrow_types are written out as found; Proofs/C15_state.v compares them by reflexivity with the ones the hand-written model follows",
    "file-system contract: a file is absent, complete, or a strict truncation; a truncated schema.json or Parquet file fails to parse (observed on every truncation case, not proved); rmtree deletes entries one at a time in some order",
    "Parquet / Arrow / pandas / pickle byte formats and conversions are contracts: the hand-written codec model (Model/C15_codec.v) is tied to items.py and collection/*.py by the correspondence cases evaluated inside Coq on exact values (float bit patterns)",
    "harness wrappers around lenskit.data.container.{rmtree,Path.mkdir,open,write_table} and lenskit.data.summary.save_stats used to inject the crash",
]
ASSUMPTIONS = [
    "field names of an item list are not user_id/user_num (from_df drops those by documented design) and not the identifier aliases",
    "lists saved in a collection carry identifiers (or a vocabulary); numbers-only lists without vocabulary cannot be stored by identifier",
    "to_df / to_arrow(numbers=True) raise KeyError for identifiers unknown to the list's vocabulary (documented missing='error' policy of numbers()); not counted as a violation",
]
RULE = ("crash: every effect index (and truncation of each write at 2 offsets) of saves over absent / empty / populated / populated+junk / "
        "partially written targets, old and new datasets sharing table names with different contents; codecs: random item lists "
        "(int / str identifiers, numbers, vocabulary with unknown ids, ordered or not, explicit rank arrays of 12 shapes -- ties, "
        "permutations with the end points of 1..n, gaps, offsets, constant, zero-based ... -- 0-3 fields of 12 dtypes incl. NaN, "
        "-0.0, inf), each handed to the codec at the end of a HISTORY of 0-3 derivations (copy constructor overriding identifiers / "
        "vocabulary / ordered / scores / rank / fields incl. removal and another length, subsetting by mask / index / slice / scalar "
        "incl. to nothing, clone) whose intermediate lists are first USED through the public interface (ids, numbers, ranks, to_df, "
        "to_arrow in 3 forms, arrow_types, pickle, being added to a collection, subsetting ...); a grid of every rank shape x codec "
        "and of every use x codec with a derivation that adds or removes a column; collections (1-2 key fields, int or str key "
        "values, duplicate keys, empty lists, lists with different fields and mixed ordering, lists with histories, batch sizes "
        "1-5000); non-trivial = crash case with a populated old directory and k strictly inside the effect "
        "list, or a codec case with a non-empty list carrying at least one field, or a collection with >= 2 lists of which one is empty "
        "or differs in fields; distinct = by hash of the case")

DTYPES = ["f4", "i4", "f8", "f2", "i1", "i2", "i8", "u1", "u2", "u4", "u8", "b1"]   # code = index (f4=TF32=0, i4=TI32=1)
ID_INT64, ID_STR, ID_INT32 = 6, 20, 1


def translate():
    from translate import c15 as t
    from translate.pyq import TranslateError as TE
    try:
        return t.translate(common.SRC)
    except TE as e:
        raise TranslateError(str(e))


# ---------------------------------------------------------------------------------------------
# generators
# ---------------------------------------------------------------------------------------------

SPECIAL = {"f4": [0x7FC00000, 0x80000000, 0x7F800000, 0xFF800000, 0x7FC00001],
           "f8": [0x7FF8000000000000, 0x8000000000000000, 0x7FF0000000000000],
           "f2": [0x7E00, 0x8000, 0x7C00]}


def gen_value(rng, dt):
    """a value of dtype dt in canonical integer form (floats: bit pattern)"""
    import struct
    if dt == "b1":
        return rng.below(2)
    if dt[0] in "iu":
        bits = 8 * int(dt[1])
        if dt[0] == "u":
            return rng.choice([0, 1, 2, 7, (1 << bits) - 1, rng.below(1 << min(bits, 20))])
        return rng.choice([0, 1, -1, 5, -(1 << (bits - 1)), (1 << (bits - 1)) - 1, rng.below(1000) - 500 if bits > 8 else rng.below(100) - 50])
    if rng.chance(1, 6):
        return rng.choice(SPECIAL[dt])
    q = rng.randint(-40, 40) / 4.0
    if dt == "f4":
        return struct.unpack("<I", struct.pack("<f", q))[0]
    if dt == "f8":
        return struct.unpack("<Q", struct.pack("<d", q))[0]
    return struct.unpack("<H", struct.pack("<e", q))[0]


FIELD_NAMES = ["score", "rating", "count", "w", "flag", "ts"]


def gen_il(rng, idkind=None, allow_nums=True, fields_pool=None, n=None):
    if n is None:
        n = rng.weighted([(0, 3), (1, 2), (2, 3), (3, 3), (5, 2), (8, 1)])
    idkind = idkind or rng.weighted([("int", 5), ("str", 3), ("int32", 1)])
    shape = rng.weighted([("ids", 6), ("ids+vocab", 2), ("nums+vocab", 2), ("nums", 1 if allow_nums else 0), ("ids+nums", 1)])
    universe = list(range(100, 130))
    ids = rng.sample(universe, n)
    vocab = None
    nums = None
    if "vocab" in shape:
        vocab = rng.shuffle(sorted(set(rng.sample(universe, 12)) | (set(ids) if shape == "nums+vocab" or rng.chance(1, 2) else set(ids[: n // 2]))))
    if shape == "nums+vocab":
        nums = [vocab.index(i) for i in ids]
        ids_field = None
    elif shape == "nums":
        nums = [i - 100 for i in ids]
        ids_field = None
    else:
        ids_field = ids
        if shape == "ids+nums":
            nums = [i - 100 for i in ids]
    ordered = rng.chance(1, 2)
    ranks, rank_shape = None, None
    if ordered and n and rng.chance(2, 5):
        rank_shape, ranks = gen_ranks(rng, n)
    pool = fields_pool or FIELD_NAMES
    nf = rng.weighted([(0, 2), (1, 4), (2, 3), (3, 1)])
    fields = []
    for name in rng.sample(pool, min(nf, len(pool))):
        dt = "f4" if name == "score" else rng.choice(DTYPES)
        fields.append([name, dt, [gen_value(rng, dt) for _ in range(n)]])
    return {"n": n, "idkind": idkind, "ids": ids_field, "nums": nums, "vocab": vocab, "ordered": ordered,
            "ranks": ranks, "rank_shape": rank_shape, "fields": fields, "chain": []}


RANK_SHAPES = ["default", "ties", "dense-ties", "swap-inside", "perm", "gaps", "offset", "ends-only", "reverse", "constant",
               "zero-based", "stride"]


def gen_ranks(rng, n):
    """an explicit rank array of length n >= 1: every shape a caller can hand over (rank= field, rank column of a frame/table)"""
    shape = rng.choice(RANK_SHAPES)
    if shape == "default":
        r = list(range(1, n + 1))
    elif shape == "ties":                       # competition ranks 1,2,2,4: a tied position repeats its predecessor
        r = list(range(1, n + 1))
        for j in range(1, n):
            if rng.chance(1, 3):
                r[j] = r[j - 1]
        if n >= 2 and r == list(range(1, n + 1)):
            j = 1 + rng.below(n - 1)
            r[j] = r[j - 1]
    elif shape == "dense-ties":                 # 1,2,2,3
        r, c = [], 1
        for j in range(n):
            r.append(c)
            c += rng.below(2)
    elif shape == "swap-inside":                # first and last rank as in 1..n, two positions exchanged
        r = list(range(1, n + 1))
        if n >= 4:
            a = 1 + rng.below(n - 2)
            b = 1 + rng.below(n - 2)
            if a == b:
                b = a + 1 if a + 1 < n - 1 else a - 1
            r[a], r[b] = r[b], r[a]
        else:
            r = rng.shuffle(r)
    elif shape == "perm":
        r = rng.shuffle(list(range(1, n + 1)))
    elif shape == "gaps":
        r, c = [], 1
        for j in range(n):
            r.append(c)
            c += rng.randint(1, 3)
    elif shape == "offset":
        start = rng.choice([2, 3, 5, 100])
        r = list(range(start, start + n))
    elif shape == "ends-only":                  # first 1, last n, anything in between
        r = [1] + [rng.randint(1, n + 2) for _ in range(max(n - 2, 0))] + ([n] if n > 1 else [])
    elif shape == "reverse":
        r = list(range(n, 0, -1))
    elif shape == "constant":
        r = [rng.choice([1, 1, 3])] * n
    elif shape == "zero-based":
        r = list(range(n))
    else:
        start = rng.choice([1, 1, 2, 5])
        r = [start + j * rng.choice([1, 1, 2]) for j in range(n)]
    return shape, r


WARM_OPS = ["ids", "numbers", "ranks", "scores", "len", "to_df", "to_arrow", "to_arrow", "to_arrow+num", "to_arrow-array",
            "arrow_types", "arrow_types+num", "pickle", "coll-add", "coll-add", "subset", "clone", "str"]


def gen_warm(rng):
    k = rng.weighted([(0, 3), (1, 4), (2, 2), (3, 1)])
    return [rng.choice(WARM_OPS) for _ in range(k)]


def gen_chain(rng, il, dts=None, pool=None, malformed=False):
    """A history of the list handed to the codec: the list built from `il` is used (public calls that may fill lazily
    computed state: identifiers, numbers, ranks, Arrow types, conversions), then another list is derived from it (copy
    constructor with overrides, subsetting, clone), which is used and derived from again ...  The generator follows
    length, fields and identifier sources so that every step is a valid call (malformed: one override of the wrong length)."""
    steps = []
    nsteps = rng.weighted([(0, 4), (1, 4), (2, 2), (3, 1)])
    n = il["n"]
    fields = {f[0]: f[1] for f in il["fields"]}
    has_ids, has_vocab = il["ids"] is not None, il["vocab"] is not None
    pool = list(pool or FIELD_NAMES)
    universe = list(range(100, 130))
    for s in range(nsteps):
        warm = gen_warm(rng)
        op = rng.weighted([("derive", 8), ("get", 3), ("clone", 1)])
        if op == "clone":
            steps.append({"warm": warm, "op": "clone"})
            continue
        if op == "get":
            how = rng.choice(["mask", "index", "slice", "scalar"]) if n else rng.choice(["mask", "index", "slice"])
            if how == "mask":
                idx = [j for j in range(n) if rng.chance(3, 5)] if not rng.chance(1, 8) else []
                sel = None
            elif how == "index":
                idx = [rng.below(n) for _ in range(rng.randint(0, n + 1))] if (n and rng.chance(1, 3)) else rng.sample(list(range(n)), rng.randint(0, n))
                sel = None
            elif how == "slice":
                a, b, c = rng.randint(0, max(n, 1)), rng.randint(0, n + 1), rng.choice([1, 1, 2])
                sel = [min(a, b), max(a, b), c] if rng.chance(3, 4) else [None, max(a, b), c]
                idx = list(range(n))[slice(*sel)]
            else:
                idx = [rng.below(n)]
                sel = None
            steps.append({"warm": warm, "op": "get", "how": how, "idx": idx, "slice": sel})
            n = len(idx)
            continue
        st = {"warm": warm, "op": "derive", "ids": None, "vocab": None, "ordered": None, "scores": None, "rank": None, "fields": []}
        m = n
        dropped = []
        if rng.chance(1, 5):
            if rng.chance(1, 2):
                # another length: every field of the source has to go in the same call (new ones may be added)
                m = rng.choice([0, 1, 2, 4, n + 1])
                dropped = [x for x in fields if x != "score"]
                if "score" in fields:
                    st["scores"] = False
                fields = {}
            st["ids"] = rng.sample(universe, m)
            has_ids = True
        elif (has_ids or has_vocab) and rng.chance(1, 8):
            keep = il["ids"] or []
            st["vocab"] = rng.shuffle(sorted(set(rng.sample(universe, 10)) | set(keep[: len(keep) // 2])))
            has_ids, has_vocab = True, True
        st["ordered"] = rng.weighted([(None, 3), (True, 3), (False, 1)])
        if rng.chance(2, 5):
            st["scores"] = [gen_value(rng, "f4") for _ in range(m)]
            fields["score"] = "f4"
        elif st["scores"] is None and rng.chance(1, 8):
            st["scores"] = False
            fields.pop("score", None)
        if m and rng.chance(1, 4):
            shape, r = gen_ranks(rng, m)
            st["rank"], st["rank_shape"] = r, shape
        names = [x for x in pool if x != "score"]
        for name in dropped:
            st["fields"].append([name, None, None])
        for name in rng.sample([x for x in names if x not in dropped], min(len(names) - len(dropped), rng.weighted([(0, 3), (1, 4), (2, 2)]))):
            if name in fields and rng.chance(1, 3):
                st["fields"].append([name, None, None])            # name=False: the field is removed
                del fields[name]
            else:
                dt = (dts or {}).get(name) or (fields.get(name) if rng.chance(1, 2) and name in fields else rng.choice(DTYPES))
                st["fields"].append([name, dt, [gen_value(rng, dt) for _ in range(m)]])
                fields[name] = dt
        rest = [x for x in names if x not in {f[0] for f in st["fields"]}]
        if rest and rng.chance(1, 10):
            st["fields"].append([rng.choice(rest), None, None])        # False for a field the source may not have
            fields.pop(st["fields"][-1][0], None)
        steps.append(st)
        n = m
    if malformed:
        # one override of the wrong length: the constructor must refuse
        st = {"warm": gen_warm(rng), "op": "derive", "ids": None, "vocab": None, "ordered": None, "scores": None, "rank": None, "fields": []}
        how = rng.choice(["rank", "scores", "field"])
        if how == "rank":
            st["rank"], st["ordered"] = list(range(1, n + 2)), rng.choice([None, True])
        elif how == "scores":
            st["scores"] = [gen_value(rng, "f4") for _ in range(n + 1)]
        else:
            st["fields"] = [["w", "i4", [1] * (n + 2)]]
        steps.append(st)
        return steps
    if steps or rng.chance(1, 3):
        last = gen_warm(rng)
        if last:
            steps.append({"warm": last, "op": "none"})
    return steps


def gen_il_case(rng, malformed=False):
    il = gen_il(rng)
    codec = rng.weighted([("pickle", 4), ("df", 3), ("arrow", 3), ("arrow+num", 1), ("arrow-array", 1)])
    bad_chain = malformed and rng.chance(1, 2)
    if malformed and not bad_chain:
        il["fields"].append([rng.choice(["user_id", "user_num"]), "i8", [7] * il["n"]])
    il["chain"] = gen_chain(rng.fork("chain"), il, malformed=bad_chain)
    return {"kind": "il", "il": il, "codec": codec, "malformed": malformed, "bad_chain": bad_chain}


CODECS = ["pickle", "df", "arrow", "arrow+num", "arrow-array"]
WARM_KINDS = sorted(set(WARM_OPS))


def gen_rank_grid_case(rng, k):
    """systematic part: every rank shape through every codec (the random part meets them only by chance)"""
    shape = RANK_SHAPES[k % len(RANK_SHAPES)]
    codec = CODECS[(k // len(RANK_SHAPES)) % len(CODECS)]
    n = [3, 4, 5, 6, 2, 8][(k // 7) % 6]
    il = gen_il(rng, n=n)
    for _ in range(20):
        sh, r = gen_ranks(rng, n)
        if sh == shape:
            break
    il["ordered"], il["ranks"], il["rank_shape"] = True, r, sh
    if rng.chance(1, 3):
        il["chain"] = gen_chain(rng.fork("chain"), il)
    return {"kind": "il", "il": il, "codec": codec, "malformed": False, "bad_chain": False}


def gen_history_grid_case(rng, k):
    """systematic part: a source used in each public way, then a list derived from it that ADDS something (scores, a
    field, the ordering flag, ranks) or removes a field, through every codec"""
    use = WARM_KINDS[k % len(WARM_KINDS)]
    codec = CODECS[(k // len(WARM_KINDS)) % len(CODECS)]
    il = gen_il(rng, n=rng.choice([1, 2, 3, 5]))
    if codec == "arrow+num" and il["vocab"] is None and il["nums"] is None:
        il["nums"] = [i - 100 for i in il["ids"]]
    il["ordered"], il["ranks"], il["rank_shape"] = rng.chance(1, 3), None, None
    n = il["n"]
    have = {f[0] for f in il["fields"]}
    st = {"warm": [use] + gen_warm(rng)[:1], "op": "derive", "ids": None, "vocab": None, "ordered": None, "scores": None, "rank": None, "fields": []}
    what = rng.choice(["scores", "field", "ordered", "rank", "drop", "several", "resize"])
    if what == "resize":
        n = rng.choice([m for m in (1, 2, 4, n + 1) if m != n])
        st["ids"] = rng.sample(list(range(100, 130)), n)
        st["fields"] = [[x, None, None] for x in sorted(have - {"score"})]
        if "score" in have:
            st["scores"] = False
        have = set()
        il["ordered"] = True
        if rng.chance(1, 2):
            st["scores"] = [gen_value(rng, "f4") for _ in range(n)]
    if what in ("scores", "several") and "score" not in have:
        st["scores"] = [gen_value(rng, "f4") for _ in range(n)]
    if what in ("field", "several", "scores"):
        free = [x for x in FIELD_NAMES if x != "score" and x not in have]
        if free:
            dt = rng.choice(DTYPES)
            st["fields"].append([rng.choice(free), dt, [gen_value(rng, dt) for _ in range(n)]])
    if what in ("ordered", "several"):
        st["ordered"] = True
    if what == "rank":
        st["rank_shape"], st["rank"] = gen_ranks(rng, n)
    if what == "drop" and have - {"score"}:
        st["fields"].append([sorted(have - {"score"})[0], None, None])
    elif what == "drop":
        st["scores"] = False
    il["chain"] = [st]
    if rng.chance(1, 3):
        il["chain"].append({"warm": gen_warm(rng), "op": "none"})
    return {"kind": "il", "il": il, "codec": codec, "malformed": False, "bad_chain": False}


def gen_coll_case(rng, malformed=False):
    nk = rng.weighted([(1, 3), (2, 2)])
    kf = rng.choice([["user_id"], ["user_id", "seq"], ["query", "part"], ["uid"]])[:nk]
    if len(kf) < nk:
        kf = kf + ["seq"]
    keykind = rng.choice(["int", "str"])
    nl = rng.weighted([(0, 1), (1, 2), (2, 3), (3, 3), (5, 2), (9, 1)])
    idkind = rng.choice(["int", "str"])
    style = rng.weighted([("uniform", 3), ("hetero", 4), ("all-empty", 1)])
    pool = rng.sample(FIELD_NAMES, 3)
    dts = {name: ("f4" if name == "score" else rng.choice(DTYPES)) for name in pool}
    base_ordered = rng.chance(1, 2)
    lists, keys = [], []
    for _ in range(nl):
        n = 0 if style == "all-empty" else None
        il = gen_il(rng, idkind=idkind, allow_nums=False, fields_pool=pool, n=n)
        # one dtype per field name across the collection (different types are a TypeError at add time)
        for f in il["fields"]:
            if f[1] != dts[f[0]]:
                f[1] = dts[f[0]]
                f[2] = [gen_value(rng, f[1]) for _ in range(il["n"])]
        if style == "uniform":
            il["ordered"] = base_ordered
            il["ranks"] = None
            il["fields"] = [[name, dts[name], [gen_value(rng, dts[name]) for _ in range(il["n"])]] for name in pool[:2]]
        if malformed and rng.chance(1, 3):
            il["idkind"] = "str" if idkind == "int" else "int"       # identifier type conflict
        if style != "uniform":
            il["chain"] = gen_chain(rng.fork(("chain", len(lists))), il, dts=dts, pool=pool)
        lists.append(il)
        keys.append([rng.randint(1, 4) for _ in kf])
    if malformed and lists and rng.chance(1, 2):
        k = rng.below(len(lists))
        lists[k]["ids"], lists[k]["vocab"], lists[k]["nums"] = None, None, list(range(lists[k]["n"]))   # numbers only
        lists[k]["chain"] = []
    batch = rng.choice([1, 2, 3, 5000, 5000])
    # session 2 (seed C15-10): the list-of-paths form of load_parquet -- the collection is written as 2-3 part files whose
    # NAMES sort in the opposite order to the order they are passed in; only for lists of one schema (a part of its own
    # has its own inferred Arrow schema) -- a rarely used parameter form, same expected result as the one-file round trip
    prng = rng.fork(("parts",))
    parts = 1
    if style == "uniform" and not malformed and nl >= 2 and all(il["n"] > 0 for il in lists) and prng.chance(2, 3):
        parts = prng.choice([2, 2, 3])
    return {"kind": "coll", "kf": kf, "keykind": keykind, "keys": keys, "lists": lists, "batch": batch, "style": style, "malformed": malformed,
            "parts": parts}


def gen_key_case(rng):
    names = ["user_id", "seq", "part", "query", "run", "fold"]
    nf = rng.randint(1, 3)
    fields = rng.sample(names, nf)
    if rng.chance(1, 5):
        fields = ["user_id"]
    pre = [rng.sample(names, rng.randint(1, 3)) for _ in range(rng.randint(0, 3))]
    return {"kind": "key", "fields": fields, "vals": [rng.randint(-5, 50) for _ in fields], "valkind": rng.choice(["int", "str"]), "pre": pre}


def gen_vocab_case(rng):
    n = rng.weighted([(0, 1), (1, 1), (3, 3), (6, 3), (12, 2)])
    ids = rng.sample(list(range(100, 160)), n)             # insertion order, not sorted
    if n >= 2 and ids == sorted(ids):
        ids = ids[::-1]
    return {"kind": "vocab", "idkind": rng.choice(["int", "str"]), "ids": ids, "named": rng.chance(1, 2),
            "probe": rng.sample(list(range(100, 165)), 6)}


def gen_ds(rng, tag, item_kind, extra_entity):
    items = rng.sample(list(range(10, 30)), rng.randint(3, 7))
    users = list(range(1, rng.randint(3, 6)))
    pairs = set()
    for _ in range(rng.randint(3, 10)):
        pairs.add((rng.choice(users), rng.choice(items)))
    # entities and interactions arrive in two batches and the later batch brings smaller identifiers, so the
    # vocabularies are NOT in sorted identifier order (new entities are appended)
    ratings = rng.shuffle([[u, i, rng.randint(1, 10)] for (u, i) in sorted(pairs)])
    items = sorted(items, reverse=True) if rng.chance(1, 2) else rng.shuffle(items)
    ds = {"name": f"ds{tag}", "item_kind": item_kind, "items": items, "ratings": ratings,
          "item_split": rng.randint(1, len(items) - 1), "rating_split": rng.randint(0, len(ratings)),
          "title": rng.subset(sorted(items), 2, 3), "genres": rng.chance(1, 2), "emb": rng.chance(1, 2), "tags": rng.chance(1, 2),
          "extra": ([rng.randint(1, 9) for _ in range(rng.randint(1, 3))] if extra_entity else None), "salt": rng.below(1000)}
    return ds


def gen_crash_cases(rng, n_saves, trunc_offsets):
    """every crash point of n_saves (old, new) pairs"""
    out = []
    for s in range(n_saves):
        r = rng.fork(("save", s))
        item_kind = r.choice(["int", "str"])
        variant = ["absent", "empty", "populated", "populated", "junk", "partial"][s % 6]
        same_names = r.chance(3, 4)
        new = gen_ds(r, "N%d" % s, item_kind, extra_entity=r.chance(1, 3))
        old = None
        if variant in ("populated", "junk", "partial"):
            old = gen_ds(r, "O%d" % s, item_kind, extra_entity=(new["extra"] is not None) if same_names else r.chance(1, 2))
        perm_seed = r.below(1 << 30)
        base = {"kind": "crash", "variant": variant, "old": old, "new": new, "perm_seed": perm_seed, "partial_drop": r.below(8)}
        # effect count is not known before running; generate k up to a bound and let run_impl report completion
        for k in range(0, 16):
            out.append({**base, "k": k, "trunc": None})
            for off in trunc_offsets:
                out.append({**base, "k": k, "trunc": off})
    return out


def gen_cases(rng, tier):
    quick = tier == "quick"
    cases = []
    # crash points; cases whose truncated effect is not a write or whose k is past the end are dropped in dedupe below
    cases += gen_crash_cases(rng.fork("crash"), 6 if quick else 60, [[0, 1], [1, 2]] if quick else [[0, 1], [1, 3], [1, 2], [9, 10], [99, 100]])
    for k in range(10 if quick else 150):
        r = rng.fork(("dsrt", k))
        cases.append({"kind": "dsrt", "ds": gen_ds(r, "R%d" % k, r.choice(["int", "str"]), r.chance(1, 2))})
    for k in range(230 if quick else 3500):
        cases.append(gen_il_case(rng.fork(("il", k)), malformed=(k % 12 == 11)))
    for k in range(len(RANK_SHAPES) * len(CODECS) * (1 if quick else 6)):
        cases.append(gen_rank_grid_case(rng.fork(("il-ranks", k)), k))
    for k in range(len(WARM_KINDS) * len(CODECS) * (1 if quick else 6)):
        cases.append(gen_history_grid_case(rng.fork(("il-history", k)), k))
    for k in range(130 if quick else 2000):
        cases.append(gen_coll_case(rng.fork(("coll", k)), malformed=(k % 10 == 9)))
    for k in range(30 if quick else 300):
        cases.append(gen_key_case(rng.fork(("key", k))))
    for k in range(40 if quick else 400):
        cases.append(gen_vocab_case(rng.fork(("vocab", k))))
    only = os.environ.get("C15_KINDS")           # development aid: restrict to some kinds
    if only:
        cases = [c for c in cases if c["kind"] in only.split(",")]
    return cases


# ---------------------------------------------------------------------------------------------
# implementation drivers
# ---------------------------------------------------------------------------------------------

_ready = False


def _setup():
    global _ready, np, pd, pa, pickle, ItemList, ItemListCollection, Vocabulary, DatasetBuilder, Dataset
    if _ready:
        return
    common.use_repo()
    import pickle

    import numpy as np
    import pandas as pd
    import pyarrow as pa
    import structlog
    from lenskit.data import Dataset, DatasetBuilder, ItemList, ItemListCollection, Vocabulary
    # DataContainer.save warns (through structlog) whenever the target exists; keep the run's output clean
    structlog.configure(wrapper_class=structlog.make_filtering_bound_logger(50))
    _ready = True


def _mkid(kind, i):
    return f"s{i:04d}" if kind == "str" else int(i)


def _np_dtype(dt):
    return np.dtype({"b1": "bool"}.get(dt, dt))


def _to_array(dt, vals):
    d = _np_dtype(dt)
    if d.kind == "f":
        u = np.dtype(f"u{d.itemsize}")
        return np.array(vals, dtype=u).view(d)
    if d.kind == "b":
        return np.array(vals, dtype=bool)
    return np.array(vals, dtype=d)


def _canon_array(a):
    a = np.asarray(a)
    d = a.dtype
    if d.kind == "f":
        dt = f"f{d.itemsize}"
        vals = a.view(np.dtype(f"u{d.itemsize}")).tolist()
    elif d.kind == "b":
        dt, vals = "b1", [int(x) for x in a.tolist()]
    elif d.kind in "iu":
        dt, vals = f"{d.kind}{d.itemsize}", [int(x) for x in a.tolist()]
    else:
        dt, vals = "other:" + d.str, [str(x) for x in a.tolist()]
    return [dt, vals]


def _unid(x):
    if isinstance(x, bytes):
        x = x.decode()
    if isinstance(x, str):
        return int(x[1:])
    return int(x)


def _build_il(spec):
    kind = spec["idkind"]
    kw = {}
    if spec["ids"] is not None:
        if kind == "str":
            kw["item_ids"] = np.array([_mkid("str", i) for i in spec["ids"]], dtype=object) if spec["n"] % 2 else [_mkid("str", i) for i in spec["ids"]]
        elif kind == "int32":
            kw["item_ids"] = np.array(spec["ids"], dtype=np.int32)
        else:
            kw["item_ids"] = np.array(spec["ids"], dtype=np.int64)
    if spec["nums"] is not None:
        kw["item_nums"] = np.array(spec["nums"], dtype=np.int32)
    if spec["vocab"] is not None:
        kw["vocabulary"] = Vocabulary([_mkid("str" if kind == "str" else "int", i) for i in spec["vocab"]], reorder=False)
    for name, dt, vals in spec["fields"]:
        kw["scores" if name == "score" else name] = _to_array(dt, vals)
    if spec["ranks"] is not None:
        kw["rank"] = np.array(spec["ranks"], dtype=np.int32)
        return ItemList(**kw)
    return ItemList(ordered=spec["ordered"], **kw)


def _id_array(kind, ids, as_list=False):
    if kind == "str":
        return [_mkid("str", i) for i in ids] if as_list else np.array([_mkid("str", i) for i in ids], dtype=object)
    return np.array(ids, dtype=np.int32 if kind == "int32" else np.int64)


def _warm(il, op):
    """use a list through its public interface (fills whatever the list computes lazily); failures that the
    interface documents (no identifiers / numbers, unknown identifiers) are part of the use"""
    try:
        if op == "ids":
            il.ids()
        elif op == "numbers":
            il.numbers(missing="negative")
        elif op == "ranks":
            il.ranks()
        elif op == "scores":
            il.scores()
        elif op == "len":
            len(il)
        elif op == "str":
            str(il)
        elif op == "to_df":
            il.to_df()
        elif op == "to_arrow":
            il.to_arrow()
        elif op == "to_arrow+num":
            il.to_arrow(numbers=True)
        elif op == "to_arrow-array":
            il.to_arrow(type="array")
        elif op == "arrow_types":
            il.arrow_types()
        elif op == "arrow_types+num":
            il.arrow_types(numbers=True)
        elif op == "pickle":
            pickle.dumps(il)
        elif op == "coll-add":
            ItemListCollection(["user_id"]).add(il, 1)
        elif op == "subset":
            il[: max(len(il) - 1, 0)]
        elif op == "clone":
            il.clone()
        else:
            raise ValueError(op)
    except (KeyError, RuntimeError, TypeError):
        pass


class ChainRefused(Exception):
    pass


def _run_chain(il, spec, warm=True):
    """the list at the end of the history spec["chain"] that starts with `il`"""
    kind = spec["idkind"]
    for st in spec.get("chain", []):
        if warm:
            for w in st["warm"]:
                _warm(il, w)
        op = st["op"]
        if op == "none":
            continue
        if op == "clone":
            il = il.clone()
        elif op == "get":
            idx, how = st["idx"], st["how"]
            if how == "mask":
                m = np.zeros(len(il), dtype=bool)
                m[idx] = True
                sel = m
            elif how == "index":
                sel = np.array(idx, dtype=np.int64) if len(idx) % 2 else [int(i) for i in idx]
                if not len(idx):
                    sel = np.array([], dtype=np.int64)
            elif how == "slice":
                sel = slice(*st["slice"])
            else:
                sel = int(idx[0])
            il = il[sel]
        else:
            kw = {}
            if st["ids"] is not None:
                kw["item_ids"] = _id_array(kind, st["ids"], as_list=(kind == "str" and len(st["ids"]) % 2 == 0))
            if st["vocab"] is not None:
                kw["vocabulary"] = Vocabulary([_mkid("str" if kind == "str" else "int", i) for i in st["vocab"]], reorder=False)
            if st["ordered"] is not None:
                kw["ordered"] = st["ordered"]
            if st["scores"] is False:
                kw["scores"] = False
            elif st["scores"] is not None:
                kw["scores"] = _to_array("f4", st["scores"])
            if st["rank"] is not None:
                kw["rank"] = np.array(st["rank"], dtype=np.int32)
            for name, dt, vals in st["fields"]:
                kw[name] = False if dt is None else _to_array(dt, vals)
            try:
                il = ItemList(il, **kw)
            except (TypeError, ValueError) as e:
                raise ChainRefused(_errname(e) + ": " + str(e)[:100])
    return il


def _state(il):
    """internal state of an item list, as the model's input"""
    ids = None if il._ids is None else [_unid(x) for x in il._ids.tolist()]
    nums = None if getattr(il, "_numbers", None) is None else [int(x) for x in il._numbers.numpy().tolist()]
    vocab = None if il._vocab is None else [_unid(x) for x in il._vocab.ids().tolist()]
    ranks = None if il._ranks is None else [int(x) for x in il._ranks.numpy().tolist()]
    idty = ID_INT64
    src = il._ids if il._ids is not None else (il._vocab.ids() if il._vocab is not None else None)
    if src is not None:
        idty = ID_STR if src.dtype.kind in "OUS" else (ID_INT32 if src.dtype == np.int32 else ID_INT64)
    return {"len": len(il), "idty": idty, "ids": ids, "nums": nums, "vocab": vocab, "ordered": bool(il.ordered), "ranks": ranks,
            "fields": [[k] + _canon_array(v.numpy()) for k, v in il._fields.items()]}


def _observe(il):
    try:
        ids = [_unid(x) for x in il.ids().tolist()]
    except RuntimeError:
        ids = None
    try:
        nums = [int(x) for x in np.asarray(il.numbers(missing="negative")).tolist()]
    except RuntimeError:
        nums = None
    r = il.ranks()
    return {"len": len(il), "ids": ids, "nums": nums, "ordered": bool(il.ordered),
            "ranks": None if r is None else [int(x) for x in np.asarray(r).tolist()],
            "fields": [[k] + _canon_array(v.numpy()) for k, v in il._fields.items()]}


ERRS = {"KeyError": "EKey", "TypeError": "EType", "RuntimeError": "ERuntime", "ValueError": "EValue"}


def _errname(e):
    n = type(e).__name__
    return ERRS.get(n, "E:" + n)


def _il_roundtrip(il, codec):
    if codec == "pickle":
        return pickle.loads(pickle.dumps(il))
    if codec == "df":
        return ItemList.from_df(il.to_df())
    if codec == "arrow":
        return ItemList.from_arrow(il.to_arrow())
    if codec == "arrow+num":
        return ItemList.from_arrow(il.to_arrow(numbers=True))
    if codec == "arrow-array":
        return ItemList.from_arrow(il.to_arrow(type="array"))
    raise ValueError(codec)


def run_il(case):
    spec = case["il"]
    st = _state(_build_il(spec))
    try:
        before = _observe(_run_chain(_build_il(spec), spec))
        # _observe resolves ids/numbers through the vocabulary, which caches them; rebuild for a clean object
        il = _run_chain(_build_il(spec), spec)
    except ChainRefused as e:
        return {"state": st, "before": None, "after": None, "error": "derive:" + str(e).split(":")[0], "msg": str(e)[:120]}
    try:
        il2 = _il_roundtrip(il, case["codec"])
    except (KeyError, TypeError, RuntimeError, ValueError, AssertionError) as e:
        return {"state": st, "before": before, "after": None, "error": _errname(e), "msg": str(e)[:120]}
    return {"state": st, "before": before, "after": _observe(il2), "error": None, "has_vocab_after": il2._vocab is not None}


def _mkkey(kind, v):
    return f"k{v:03d}" if kind == "str" else int(v)


def _unkey(x):
    return int(x[1:]) if isinstance(x, str) else int(x)


def run_coll(case):
    states, before = [], []
    try:
        c = ItemListCollection(case["kf"])
        for key, spec in zip(case["keys"], case["lists"]):
            states.append(_state(_build_il(spec)))
            il = _run_chain(_build_il(spec), spec)
            before.append(_observe(_run_chain(_build_il(spec), spec)))
            c.add(il, *[_mkkey(case["keykind"], v) for v in key])
    except ChainRefused as e:
        return {"states": states, "before": before, "after": None, "error": "derive:" + str(e).split(":")[0], "msg": str(e)[:120]}
    except (TypeError, ValueError) as e:
        return {"states": states, "before": before, "after": None, "error": "add:" + _errname(e), "msg": str(e)[:120]}
    d = tempfile.mkdtemp(prefix="c15c")
    try:
        p = os.path.join(d, "c.parquet")
        try:
            c.save_parquet(p, batch_size=case["batch"])
        except Exception as e:
            return {"states": states, "before": before, "after": None, "error": "save:" + _errname(e), "msg": str(e)[:160]}
        if not os.path.exists(p):
            return {"states": states, "before": before, "after": None, "error": "nofile", "msg": ""}
        try:
            entries = list(zip(c.keys(), c.lists()))
            parts = min(int(case.get("parts", 1)), len(entries))
            if parts > 1:
                bounds = [len(entries) * j // parts for j in range(parts + 1)]
                paths = []
                for j in range(parts):
                    sub = ItemListCollection(case["kf"])
                    for k, il in entries[bounds[j]:bounds[j + 1]]:
                        sub.add(il, *k)
                    pj = os.path.join(d, f"part-{parts - j}.parquet")      # file names sort against the order passed
                    sub.save_parquet(pj, batch_size=case["batch"])
                    paths.append(pj)
                c2 = ItemListCollection.load_parquet(paths)
            else:
                c2 = ItemListCollection.load_parquet(p)
        except Exception as e:
            return {"states": states, "before": before, "after": None, "error": "load:" + _errname(e), "msg": str(e)[:160]}
        after = {"kf": list(c2.key_fields), "keys": [[_unkey(v) for v in k] for k in c2.keys()],
                 "lists": [_observe(il) for il in c2.lists()]}
        return {"states": states, "before": before, "after": after, "error": None}
    finally:
        shutil.rmtree(d, ignore_errors=True)


def _key_cache():
    from lenskit.data.collection import _keys
    out = []
    for fields, kt in _keys.KEY_CACHE.items():
        name = kt.__name__
        out.append([list(fields), int(name[len("LKILCKeyType"):]) if name.startswith("LKILCKeyType") else 0])
    return out


def run_key(case):
    from lenskit.data.collection._keys import create_key, create_key_type
    for f in case["pre"]:
        create_key_type(*f)
    vals = [_mkkey(case["valkind"], v) for v in case["vals"]]
    k = create_key(tuple(case["fields"]), *vals)
    cache = _key_cache()
    red = k.__reduce__()
    k2 = pickle.loads(pickle.dumps(k))
    tn = type(k2).__name__
    return {"cache": cache, "ty": next(t for f, t in cache if f == case["fields"]),
            "reduce_fn": getattr(red[0], "__name__", str(red[0])),
            "reduce_args": [list(red[1][0])] + [_unkey(v) for v in red[1][1:]] if red[0].__name__ == "create_key" else None,
            "after": {"ty": int(tn[len("LKILCKeyType"):]) if tn.startswith("LKILCKeyType") else 0,
                      "fields": list(k2._fields), "vals": [_unkey(v) for v in k2], "same_type": type(k2) is type(k),
                      "equal": k2 == k, "vals_same_pytype": all(type(a) is type(b) for a, b in zip(k, k2))},
            "cache_after": _key_cache()}


def run_vocab(case):
    kind = case["idkind"]
    v = Vocabulary([_mkid(kind, i) for i in case["ids"]], name="item" if case["named"] else None, reorder=False)
    probe = np.array([_mkid(kind, i) for i in case["probe"]], dtype=object if kind == "str" else np.int64)

    def view(x):
        return {"ids": [_unid(t) for t in x.ids().tolist()], "name": x.name, "size": len(x),
                "numbers": [int(t) for t in x.numbers(probe, missing="negative").tolist()]}
    before = view(v)
    v2 = pickle.loads(pickle.dumps(v))
    import copy
    return {"before": before, "after": view(v2), "after_deepcopy": view(copy.deepcopy(v)), "equal": bool(v2 == v)}


# ---- datasets ------------------------------------------------------------------------------

def _build_ds(spec):
    import scipy.sparse as sps
    kind = spec["item_kind"]
    items = [_mkid(kind, i) for i in spec["items"]]
    dsb = DatasetBuilder(name=spec["name"])
    isplit = spec.get("item_split", len(items))
    dsb.add_entities("item", items[:isplit])
    if items[isplit:]:
        dsb.add_entities("item", items[isplit:])
    rsplit = spec.get("rating_split", len(spec["ratings"]))
    first = True
    for rows in (spec["ratings"][:rsplit], spec["ratings"][rsplit:]):
        if not rows:
            continue
        df = pd.DataFrame({"user_id": [r[0] for r in rows], "item_id": [_mkid(kind, r[1]) for r in rows],
                           "rating": [r[2] / 2.0 for r in rows]})
        if first:
            dsb.add_interactions("rating", df, entities=["user", "item"], missing="insert", default=True)
        else:
            dsb.add_interactions("rating", df, entities=["user", "item"], missing="insert")
        first = False
    if spec["title"]:
        ids = [_mkid(kind, i) for i in spec["title"]]
        dsb.add_scalar_attribute("item", "title", ids, [f"T{spec['salt']}-{i}" for i in spec["title"]])
    if spec["genres"]:
        dsb.add_list_attribute("item", "genres", items, [["g%d" % ((i + j + spec["salt"]) % 4) for j in range(i % 3)] for i in spec["items"]])
    if spec["emb"]:
        dsb.add_vector_attribute("item", "emb", items, np.array([[i + spec["salt"], i * 0.5] for i in spec["items"]], dtype=np.float32))
    if spec["tags"]:
        m = np.array([[(i + spec["salt"]) % 3, 0, i % 2] for i in spec["items"]], dtype=np.float32)
        dsb.add_vector_attribute("item", "tags", items, sps.csr_array(m), dim_names=["x", "y", "z"])
    if spec["extra"] is not None:
        dsb.add_entities("tag", [100 + v for v in sorted(set(spec["extra"]))])
    return dsb.build()


def _table_digest(t):
    # list child names (item / element) are a Parquet naming detail, not content
    return hashlib.sha256((repr([(f.name, str(f.type).replace("element:", "item:")) for f in t.schema]) + json.dumps(t.to_pylist(), default=str, sort_keys=True)).encode()).hexdigest()[:16]


def _container_view(ds):
    c = ds._data
    return {"schema": c.schema.model_dump_json(), "entities": list(c.schema.entities), "relationships": list(c.schema.relationships),
            "tables": {n: _table_digest(t) for n, t in c.tables.items()}, "order": list(c.tables)}


def _ds_view(ds):
    """what can be observed of a dataset through its public interface"""
    out = {"schema": json.loads(ds.schema.model_dump_json())}
    for e in ds.schema.entities:
        es = ds.entities(e)
        out["ent:" + e] = es.ids().tolist()
        for a in es.attributes:
            at = es.attribute(a)
            if at.is_sparse:
                m = at.scipy()
                out[f"attr:{e}.{a}"] = [m.indptr.tolist(), m.indices.tolist(), m.data.tolist(), at.dim_names]
            elif at.is_vector:
                out[f"attr:{e}.{a}"] = [np.asarray(at.numpy()).tolist(), at.dim_names]
            else:
                out[f"attr:{e}.{a}"] = at.arrow().to_pylist()
    for r in ds.schema.relationships:
        rs = ds.relationships(r)
        out["rel:" + r] = rs.arrow().to_pylist()
    out["itable"] = ds.interaction_table(format="pandas", original_ids=True).to_dict("list")
    m = ds.interaction_matrix(format="structure")
    out["csr"] = [np.asarray(m.rowptrs).tolist(), np.asarray(m.colinds).tolist()]
    out["users"] = ds.users.ids().tolist()
    out["items"] = ds.items.ids().tolist()
    return json.loads(json.dumps(out, default=str))


def run_dsrt(case):
    ds = _build_ds(case["ds"])
    d = tempfile.mkdtemp(prefix="c15d")
    try:
        p = os.path.join(d, "ds")
        ds.save(p)
        files = sorted(os.listdir(p))
        ds2 = Dataset.load(p)
        ds3 = pickle.loads(pickle.dumps(ds))
        v, v2, v3 = _ds_view(ds), _ds_view(ds2), _ds_view(ds3)
        c, c2, c3 = _container_view(ds), _container_view(ds2), _container_view(ds3)
        return {"files": files, "load_equal": v == v2, "pickle_equal": v == v3,
                "load_diff": [k for k in v if v[k] != v2.get(k)][:5], "pickle_diff": [k for k in v if v[k] != v3.get(k)][:5],
                "container": c, "container_loaded": c2, "container_pickled": c3,
                "n_attrs": sum(1 for k in v if k.startswith("attr:")),
                "view_ids": {"item": [str(x) for x in v["ent:item"]], "user": [int(x) for x in v["ent:user"]]}}
    finally:
        shutil.rmtree(d, ignore_errors=True)


class Crash(Exception):
    pass


def _crashing_save(ds, path, k, trunc, perm_rank):
    """Run ds.save(path) with a failure injected before effect number k (0-based over: each unlink, rmdir,
    mkdir, schema write, each table write, summary write).  trunc=(a,b): the k-th effect, if a write, is
    performed and then cut to a/b of its length.  Returns (trace, perm, crashed)."""
    import lenskit.data.container as C
    import lenskit.data.summary as S
    from pathlib import Path
    trace, perm = [], []
    st = {"i": 0}

    def cut(p):
        size = os.path.getsize(p)
        off = min(size * trunc[0] // trunc[1], max(size - 2, 0))
        with open(p, "r+b") as f:
            f.truncate(off)

    def tick(code):
        "-> 'go' | 'cut' (perform then truncate then crash); raises Crash to skip the effect"
        i = st["i"]
        st["i"] += 1
        trace.append(code)
        if i == k:
            if trunc is not None and code in (3, 4, 5):
                return "cut"
            raise Crash()
        return "go"

    def rmtree(p):
        p = Path(p)
        entries = sorted(os.listdir(p), key=lambda e: (perm_rank(e), e))
        for e in entries:
            perm.append(e)
            tick(0)
            os.unlink(p / e)
        tick(1)
        os.rmdir(p)

    class TickPath(type(Path())):
        def mkdir(self, *a, **kw):
            tick(2)
            return super().mkdir(*a, **kw)

    class CutFile:
        def __init__(self, f, p, mode):
            self.f, self.p, self.mode = f, p, mode

        def __enter__(self):
            return self.f

        def __exit__(self, *exc):
            self.f.close()
            if self.mode == "cut" and exc[0] is None:
                cut(self.p)
                raise Crash()
            return False

    def my_open(p, mode="r", *a, **kw):
        if "w" not in mode:
            return open(p, mode, *a, **kw)
        m = tick(3)
        return CutFile(open(p, mode, *a, **kw), p, m)

    def my_write_table(table, where, *a, **kw):
        m = tick(4)
        orig_wt(table, where, *a, **kw)
        if m == "cut":
            cut(where)
            raise Crash()

    def my_save_stats(data, out, *a, **kw):
        m = tick(5)
        orig_ss(data, out, *a, **kw)
        if m == "cut":
            cut(out)
            raise Crash()

    orig_rm, orig_wt, orig_path, orig_ss = C.rmtree, C.write_table, C.Path, S.save_stats
    had_open = "open" in C.__dict__
    C.rmtree, C.write_table, C.Path, S.save_stats, C.open = rmtree, my_write_table, TickPath, my_save_stats, my_open
    crashed = False
    try:
        ds.save(path)
    except Crash:
        crashed = True
    finally:
        C.rmtree, C.write_table, C.Path, S.save_stats = orig_rm, orig_wt, orig_path, orig_ss
        if not had_open:
            del C.open
    return trace, perm, crashed


def _dir_state(p, known):
    """directory contents for the model: {file name: ('schema', json) | ('table', digest) | ('text',) | ('broken',)}"""
    import pyarrow.parquet as pq
    from lenskit.data.schema import DataSchema
    if not os.path.exists(p):
        return None
    out = {}
    for e in sorted(os.listdir(p)):
        f = os.path.join(p, e)
        if e == "schema.json":
            try:
                s = DataSchema.model_validate_json(open(f, encoding="utf8").read())
                out[e] = ["schema", s.model_dump_json(), list(s.entities), list(s.relationships)]
            except Exception:
                out[e] = ["broken"]
        elif e.endswith(".parquet"):
            try:
                out[e] = ["table", _table_digest(pq.read_table(f))]
            except Exception:
                out[e] = ["broken"]
        else:
            out[e] = ["text"]
    return out


def _file_hashes(p):
    if not os.path.exists(p):
        return {}
    return {e: hashlib.sha256(open(os.path.join(p, e), "rb").read()).hexdigest() for e in os.listdir(p)}


def _try_load(p):
    try:
        ds = Dataset.load(p)
        # force every table to be materialised
        return _container_view(ds)
    except Exception as e:
        return None


def run_crash(case):
    new = _build_ds(case["new"])
    d = tempfile.mkdtemp(prefix="c15s")
    try:
        p = os.path.join(d, "target")
        old_view = None
        if case["variant"] == "empty":
            os.mkdir(p)
        elif case["old"] is not None:
            _build_ds(case["old"]).save(p)
            if case["variant"] == "junk":
                open(os.path.join(p, "notes.txt"), "w").write("left over\n")
            if case["variant"] == "partial":
                tables = sorted(e for e in os.listdir(p) if e.endswith(".parquet"))
                victim = os.path.join(p, tables[case["partial_drop"] % len(tables)])
                if case["partial_drop"] % 2:
                    os.unlink(victim)
                else:
                    with open(victim, "r+b") as f:
                        f.truncate(os.path.getsize(victim) // 2)
        old_state = _dir_state(p, None)
        old_hashes = _file_hashes(p)
        old_view = _try_load(p)
        rs = common.Rng(case["perm_seed"])
        ranks = {}

        def perm_rank(e):
            if e not in ranks:
                ranks[e] = rs.below(1000)
            return ranks[e]

        trace, perm, crashed = _crashing_save(new, p, case["k"], tuple(case["trunc"]) if case["trunc"] else None, perm_rank)
        after_hashes = _file_hashes(p)
        loaded = _try_load(p)
        new_view = _container_view(new)
        canon_new = {"schema": new_view["schema"], "tables": {n: new_view["tables"][n] for n in new_view["entities"] + new_view["relationships"]}}

        def norm(v):
            return None if v is None else {"schema": v["schema"], "tables": v["tables"]}
        if loaded is None:
            outcome = 0
        elif norm(loaded) == canon_new:
            outcome = 1
        elif old_view is not None and norm(loaded) == norm(old_view):
            outcome = 2
        else:
            outcome = 3
        # data files of the old dataset: its schema and the tables its schema names
        touched = None
        if old_state is not None and old_state.get("schema.json", ["x"])[0] == "schema":
            data = ["schema.json"] + [f"{n}.parquet" for n in old_state["schema.json"][2] + old_state["schema.json"][3]]
            touched = any(after_hashes.get(e) != old_hashes.get(e) for e in data) or any(e not in old_hashes for e in after_hashes)
        return {"trace": trace, "perm": perm, "crashed": crashed, "outcome": outcome, "old_state": old_state, "old_loads": old_view is not None,
                "new": new_view, "touched": touched, "after_files": sorted(after_hashes),
                "loaded_tables_from": None if loaded is None else
                {n: ("new" if new_view["tables"].get(n) == h else "old" if old_view and old_view["tables"].get(n) == h else "?")
                 for n, h in loaded["tables"].items()}}
    finally:
        shutil.rmtree(d, ignore_errors=True)


def run_impl(case):
    _setup()
    return {"crash": run_crash, "dsrt": run_dsrt, "il": run_il, "coll": run_coll, "key": run_key, "vocab": run_vocab}[case["kind"]](case)


# ---------------------------------------------------------------------------------------------
# model side
# ---------------------------------------------------------------------------------------------

def c_lz(xs):
    return clist(xs, cz)


def c_olz(xs):
    return copt(xs, c_lz)


def c_ty(dt):
    return cnat(DTYPES.index(dt)) if dt in DTYPES else cnat(99)


def c_fields(fs):
    return clist(fs, lambda f: f"({cstr(f[0])}, mkCol {c_ty(f[1])} {c_lz(f[2])})")


def c_ilist(st):
    return (f"(mkIL {cnat(st['len'])} {cnat(st['idty'])} {c_olz(st['ids'])} {c_olz(st['nums'])} {c_olz(st['vocab'])} "
            f"{cbool(st['ordered'])} {c_olz(st['ranks'])} {c_fields(st['fields'])})")


def c_obs(o):
    return (f"(mkObs {cnat(o['len'])} {c_olz(o['ids'])} {c_olz(o['nums'])} {cbool(o['ordered'])} {c_olz(o['ranks'])} {c_fields(o['fields'])})")


def _intlike(fs):
    return all(all(isinstance(v, int) for v in f[2]) for f in fs)


# which lazily computed state a public use may fill (model side; Props/C15.v caches_do_not_leak shows the result of a
# history does not depend on these steps, so the mapping only has to be plausible, not exact)
WARM_MODEL = {"ids": ["WIds"], "numbers": ["WNums"], "ranks": ["WRanks"], "to_df": ["WIds", "WNums", "WRanks"],
              "to_arrow": ["WIds", "WRanks"], "to_arrow-array": ["WIds", "WRanks"], "to_arrow+num": ["WIds", "WNums", "WRanks"],
              "pickle": ["WIds", "WNums"]}
IDTY = {"int": ID_INT64, "str": ID_STR, "int32": ID_INT32}


def c_fov(dt, vals):
    return "FDrop" if dt is None else f"(FSet (mkCol {c_ty(dt)} {c_lz(vals)}))"


def c_steps(spec):
    out = []
    for st in spec.get("chain", []):
        for w in st["warm"]:
            out += [f"SWarm {m}" for m in WARM_MODEL.get(w, [])]
        op = st["op"]
        if op == "clone":
            out.append("SClone")
        elif op == "get":
            out.append(f"SGet {clist(st['idx'], cnat)}")
        elif op == "derive":
            sc = "None" if st["scores"] is None else ("(Some FDrop)" if st["scores"] is False else f"(Some {c_fov('f4', st['scores'])})")
            fs = clist(st["fields"], lambda f: f"({cstr(f[0])}, {c_fov(f[1], f[2])})")
            out.append(f"SDerive (mkOv {c_olz(st['ids'])} {cnat(IDTY[spec['idkind']])} {c_olz(st['vocab'])} {copt(st['ordered'], cbool)} "
                       f"{sc} {c_olz(st['rank'])} {fs})")
    return "[" + "; ".join(out) + "]"


def c_oobs(o):
    return "None" if o is None else f"(Some {c_obs(o)})"


def term_il(case, obs):
    if not _intlike(obs["state"]["fields"]):
        return None
    il = c_ilist(obs["state"])
    ss = c_steps(case["il"])
    rt = {"pickle": f"chain_pickle {il} {ss}", "df": f"chain_df {il} {ss}", "arrow": f"chain_arrow {il} {ss} false",
          "arrow+num": f"chain_arrow {il} {ss} true", "arrow-array": f"chain_arrow {il} {ss} false"}[case["codec"]]
    # the history itself (the list handed to the codec), then the round trip
    return f"agree_obs (chain_run {il} {ss}) {c_oobs(obs['before'])} && agree_obs ({rt}) {c_oobs(obs['after'])}"


def term_coll(case, obs):
    if obs["error"] and obs["error"].startswith("add:") and len(obs["states"]) < len(case["lists"]):
        # the failing add never produced a state; rebuild what is known: model only the prefix + expect failure at add
        return None
    if obs["error"] and obs["error"].startswith("derive:"):
        return None
    items = clist(list(zip(case["keys"], obs["states"], case["lists"])), lambda ks: f"({c_lz(ks[0])}, ({c_ilist(ks[1])}, {c_steps(ks[2])}))")
    kf = clist(case["kf"], cstr)
    if obs["after"] is None:
        o = "None"
    else:
        a = obs["after"]
        o = f"(Some ({clist(a['kf'], cstr)}, {clist(list(zip(a['keys'], a['lists'])), lambda kl: f'({c_lz(kl[0])}, {c_obs(kl[1])})')}))"
    return f"agree_coll (chain_coll {cnat(min(case['batch'], 4999))} {kf} {items}) {o}"


def term_key(case, obs):
    cache = clist(obs["cache"], lambda e: f"({clist(e[0], cstr)}, {cnat(e[1])})")
    a = obs["after"]
    k = f"(mkKey {cnat(obs['ty'])} {clist(case['fields'], cstr)} {c_lz(case['vals'])})"
    return (f"(let (k2, c2) := rebuild_key {cache} (reduce_key {k}) in "
            f"Nat.eqb (key_ty k2) {cnat(a['ty'])} && lseqb (key_names k2) {clist(a['fields'], cstr)} && lZeqb (key_vals k2) {c_lz(a['vals'])} "
            f"&& Nat.eqb (List.length c2) {cnat(len(obs['cache_after']))})")


def _fname(e, names):
    if e == "schema.json":
        return "NSchema"
    if e == "summary.md":
        return "NSummary"
    if e.endswith(".parquet"):
        return f"(NTable {cnat(names[e[:-8]])})"
    return f"(NOther {cnat(sum(e.encode()) % 1000)})"


def term_crash(case, obs):
    new = obs["new"]
    old_state = obs["old_state"]
    names, digests, schemas = {}, {}, {}

    def nm(n):
        return names.setdefault(n, len(names))

    def dg(h):
        return digests.setdefault(h, 10 + len(digests))

    def sc(js, ents, rels):
        tag = schemas.setdefault(js, 1 + len(schemas))
        return f"(mkSchema {cz(tag)} {clist([nm(n) for n in ents], cnat)} {clist([nm(n) for n in rels], cnat)})"

    ds = f"(mkDataset {sc(new['schema'], new['entities'], new['relationships'])} {clist(new['order'], lambda n: f'({cnat(nm(n))}, {cz(dg(new['tables'][n]))})')})"
    if old_state is None:
        old = "None"
    else:
        ents = []
        for e, v in old_state.items():
            if e.endswith(".parquet"):
                nm(e[:-8])
        for e, v in old_state.items():
            if v[0] == "schema":
                c = f"(FSchema {sc(v[1], v[2], v[3])})"
            elif v[0] == "table":
                c = f"(FTable {cz(dg(v[1]))})"
            elif v[0] == "text":
                c = "FText"
            else:
                c = "FBroken"
            ents.append(f"({_fname(e, names)}, {c})")
        old = "(Some [" + "; ".join(ents) + "])"
    perm = "[" + "; ".join(_fname(e, names) for e in obs["perm"]) + "]"
    # a crash during rmtree leaves `perm` incomplete; the entries not yet reached are appended in name order
    if old_state is not None:
        rest = [e for e in sorted(old_state) if e not in obs["perm"]]
        perm = "[" + "; ".join(_fname(e, names) for e in obs["perm"] + rest) + "]"
    return (f"agree_crash {old} {ds} {perm} {cnat(case['k'])} {cbool(case['trunc'] is not None)} "
            f"{clist(obs['trace'], cnat)} {cnat(obs['outcome'])}")


def term_dsrt(case, obs):
    c, c2 = obs["container"], obs["container_loaded"]
    names, digests = {}, {}

    def nm(n):
        return names.setdefault(n, len(names))

    def dg(h):
        return digests.setdefault(h, 10 + len(digests))
    sch = f"(mkSchema 1 {clist([nm(n) for n in c['entities']], cnat)} {clist([nm(n) for n in c['relationships']], cnat)})"
    ds = f"(mkDataset {sch} {clist(c['order'], lambda n: f'({cnat(nm(n))}, {cz(dg(c['tables'][n]))})')})"
    tag2 = 1 if c2["schema"] == c["schema"] else 2
    sch2 = f"(mkSchema {tag2} {clist([nm(n) for n in c2['entities']], cnat)} {clist([nm(n) for n in c2['relationships']], cnat)})"
    loaded = f"(LOk {sch2} {clist(c2['order'], lambda n: f'({cnat(nm(n))}, {cz(dg(c2['tables'][n]))})')})"
    return f"lres_eqb (load (save_done None {ds} [])) {loaded}"


def term_vocab(case, obs):
    # default pickling of a Vocabulary is the identity on its identifier array: same identifiers, same numbering
    return f"lZeqb {c_lz(case['ids'])} {c_lz(obs['after']['ids'])} && lZeqb {c_lz(obs['before']['numbers'])} {c_lz(obs['after']['numbers'])}"


def coq_term(case, obs):
    return {"crash": term_crash, "dsrt": term_dsrt, "il": term_il, "coll": term_coll, "key": term_key, "vocab": term_vocab}[case["kind"]](case, obs)


# ---------------------------------------------------------------------------------------------
# the property as a predicate on implementation output (independent of the Coq model)
# ---------------------------------------------------------------------------------------------

def _fields_map(fs):
    return {f[0]: (f[1], f[2]) for f in fs}


def _cmp_list(b, a, what, ids=True, nums=True, tag=""):
    v = []
    if a["len"] != b["len"]:
        v.append((f"{tag}:length", f"{what}: length {b['len']} came back as {a['len']}"))
    if ids and b["ids"] is not None and a["ids"] != b["ids"]:
        v.append((f"{tag}:ids", f"{what}: identifiers {b['ids']} came back as {a['ids']}"))
    if nums and b["nums"] is not None and a["nums"] != b["nums"]:
        v.append((f"{tag}:numbers", f"{what}: numbers {b['nums']} came back as {a['nums']}"))
    if a["ordered"] != b["ordered"]:
        v.append((f"{tag}:ordered-flag", f"{what}: ordered={b['ordered']} came back as ordered={a['ordered']}"))
    elif a["ranks"] != b["ranks"]:
        v.append((f"{tag}:ranks", f"{what}: ranks {b['ranks']} came back as {a['ranks']}"))
    fb, fa = _fields_map(b["fields"]), _fields_map(a["fields"])
    if fb != fa:
        v.append((f"{tag}:fields", f"{what}: fields {sorted(fb)} {fb} came back as {fa}"))
    return v


def oracle_il(case, obs):
    codec = case["codec"]
    b = obs["before"]
    if case.get("malformed") and b is not None:
        # a field named user_id / user_num is dropped by from_df (documented); everything else must still hold
        b = dict(b)
        if codec == "df":
            b["fields"] = [f for f in b["fields"] if f[0] not in ("user_id", "user_num")]
    if (obs["error"] or "").startswith("derive:"):
        if case.get("bad_chain"):
            return []          # an override of the wrong length is refused by the constructor
        return [(f"{obs['error']}", f"deriving the list handed to the codec raised: {obs.get('msg')}")]
    if case.get("bad_chain"):
        return [("derive:wrong-length-accepted", "the copy constructor accepted an array whose length differs from the list's")]
    unknown = b["nums"] is not None and any(x < 0 for x in b["nums"])
    if obs["after"] is None:
        e = obs["error"]
        if codec in ("df", "arrow+num") and unknown and e == "EKey":
            return []          # documented missing="error" policy of numbers()
        if codec.startswith("arrow") and b["len"] == 0 and e == "EType":
            return [("arrow:empty-list", "an empty item list does not survive to_arrow/from_arrow: to_arrow emits a table without columns "
                     "and from_arrow raises TypeError")]
        if codec in ("arrow", "arrow-array") and b["ids"] is None and e in ("EType", "ERuntime"):
            return []          # numbers-only list asked for identifiers: nothing to store
        return [(f"{codec}:raises:{e}", f"{codec} round trip raised {e}: {obs.get('msg')}")]
    a = obs["after"]
    want_ids = True
    want_nums = codec in ("pickle", "df", "arrow+num")
    if codec in ("arrow", "arrow-array") and b["ids"] is None:
        want_ids = False
    return _cmp_list(b, a, f"item list via {codec}", ids=want_ids, nums=want_nums, tag=codec)


def oracle_coll(case, obs):
    v = []
    numbers_only = any(s["ids"] is None and s["vocab"] is None for s in obs["states"])
    idtys = {s["idty"] for s in obs["states"] if s["len"] > 0}
    if obs["after"] is None:
        e = obs["error"]
        if e.startswith("derive:"):
            return [(f"collection:{e}", f"deriving a list of the collection raised: {obs.get('msg')}")]
        kinds = {l["idkind"] for l in case["lists"]}
        if e.startswith("add:") and (len(idtys) > 1 or len(kinds) > 1 or len(obs["states"]) < len(case["lists"])) and case.get("malformed"):
            return []          # identifier types differ between lists: refused at add time
        if numbers_only and case.get("malformed"):
            return []          # numbers-only lists cannot be stored by identifier: any refusal is acceptable
        if e == "nofile" and not case["lists"]:
            return [("collection:no-lists-no-file", "saving a collection without lists writes no file, so it cannot be loaded back")]
        return [(f"collection:{e}", f"collection round trip failed with {e}: {obs.get('msg')}")]
    a = obs["after"]
    if a["kf"] != case["kf"]:
        v.append(("collection:key-fields", f"key fields {case['kf']} came back as {a['kf']}"))
    if a["keys"] != case["keys"]:
        v.append(("collection:keys", f"keys {case['keys']} came back as {a['keys']} (order, duplicates)"))
    if len(a["lists"]) != len(obs["before"]):
        v.append(("collection:list-count", f"{len(obs['before'])} lists came back as {len(a['lists'])}"))
    for b, l in zip(obs["before"], a["lists"]):
        if b["len"] == 0:
            if l["len"] != 0:
                v.append(("collection:empty-list", "an empty list came back non-empty"))
            elif l["ordered"] != b["ordered"]:
                v.append(("collection:empty-list-ordered-flag",
                          f"an empty list with ordered={b['ordered']} came back with ordered={l['ordered']} (the flag of an empty list is not "
                          "stored: it comes back as 'some non-empty list of the collection is ordered')"))
        else:
            v += _cmp_list(b, l, "list in collection", ids=True, nums=False, tag="collection")
    seen, out = set(), []
    for k, w in v:
        if k not in seen:
            seen.add(k)
            out.append((k, w))
    return out


def oracle_key(case, obs):
    v = []
    a = obs["after"]
    if obs["reduce_fn"] != "create_key" and case["fields"] != ["user_id"]:
        v.append(("key:reduce", f"generic key reduces through {obs['reduce_fn']}"))
    if a["fields"] != case["fields"] or a["vals"] != case["vals"] or not a["equal"] or not a["vals_same_pytype"]:
        v.append(("key:roundtrip", f"key {case['fields']}={case['vals']} came back as {a['fields']}={a['vals']}"))
    if not a["same_type"]:
        v.append(("key:type", "unpickling in the same process produced a different key type"))
    return v


def oracle_dsrt(case, obs):
    v = []
    if not obs["load_equal"]:
        v.append(("dataset:save-load", f"a saved and reloaded dataset differs in {obs['load_diff']}"))
    if not obs["pickle_equal"]:
        v.append(("dataset:pickle", f"a pickled dataset differs in {obs['pickle_diff']}"))
    c, c2 = obs["container"], obs["container_loaded"]
    if c["schema"] != c2["schema"] or any(c["tables"][n] != c2["tables"].get(n) for n in c["entities"] + c["relationships"]):
        v.append(("dataset:tables", "a reloaded table or the schema differs from the one saved"))
    return v


def oracle_crash(case, obs):
    v = []
    o = obs["outcome"]
    if o == 3:
        v.append(("crash:mixture", f"interrupted save (before effect {case['k']}, trace {obs['trace']}) left a directory that loads as a mixture: "
                  f"tables come from {obs['loaded_tables_from']} under the {'new' if obs['after_files'] else '?'} schema"))
    if o == 2 and obs["touched"]:
        v.append(("crash:old-after-change", "directory still loads as the old dataset although one of its data files was removed or rewritten"))
    if not obs["crashed"] and o != 1:
        v.append(("save-load:not-new", f"a completed save loads as {['fail', 'new', 'old', 'mixture'][o]}"))
    return v


def oracle_vocab(case, obs):
    v = []
    for how in ("after", "after_deepcopy"):
        a, b = obs[how], obs["before"]
        if a["ids"] != b["ids"] or a["numbers"] != b["numbers"]:
            v.append(("vocabulary:pickle-numbering", f"a vocabulary with identifiers {b['ids']} (in number order) came back as {a['ids']} "
                      f"({'pickle' if how == 'after' else 'deepcopy'}): numbers of {case['probe']} changed from {b['numbers']} to {a['numbers']}"))
            break
    if obs["after"]["name"] != obs["before"]["name"] or obs["after"]["size"] != obs["before"]["size"] or not obs["equal"]:
        v.append(("vocabulary:pickle", "an unpickled vocabulary differs from the original in name, size or equality"))
    return v


def oracle(case, obs):
    return {"vocab": oracle_vocab, "crash": oracle_crash, "dsrt": oracle_dsrt, "il": oracle_il, "coll": oracle_coll, "key": oracle_key}[case["kind"]](case, obs)


def nontrivial(case, obs):
    k = case["kind"]
    if k == "crash":
        return case["old"] is not None and obs["crashed"]
    if k == "dsrt":
        return obs["n_attrs"] >= 1
    if k == "il":
        b = obs["before"]
        return b is not None and b["len"] > 0 and len(b["fields"]) >= 1 and obs["after"] is not None
    if k == "coll":
        ls = obs["states"]
        return obs["after"] is not None and len(ls) >= 2 and (any(s["len"] == 0 for s in ls) or len({tuple(sorted(f[0] for f in s["fields"])) for s in ls}) > 1)
    if k == "vocab":
        return len(case["ids"]) >= 3
    return len(case["fields"]) >= 2


def counters(case, obs):
    k = case["kind"]
    yield "kind=" + k
    if k == "crash":
        yield "crash:variant=" + case["variant"]
        yield "crash:outcome=" + ["fail", "new", "old", "mixture"][obs["outcome"]]
        yield "crash:trunc=" + ("none" if case["trunc"] is None else "yes")
        if obs["crashed"]:
            yield "crash:at-effect=" + ["unlink", "rmdir", "mkdir", "schema", "table", "summary"][obs["trace"][-1]]
        else:
            yield "crash:completed"
    elif k == "il":
        st = obs["state"]
        yield "il:codec=" + case["codec"]
        yield "il:len=" + str(min(st["len"], 4))
        yield "il:idty=" + str(st["idty"])
        yield "il:shape=" + ("ids" if st["ids"] is not None else "") + ("+nums" if st["nums"] is not None else "") + ("+vocab" if st["vocab"] is not None else "")
        yield "il:ordered=" + str(st["ordered"])
        if st["ranks"] is not None:
            yield "il:explicit-ranks"
            yield "il:ranks=" + str(case["il"].get("rank_shape"))
        yield "il:result=" + (obs["error"] or "ok")
        yield from _chain_counters("il", case["il"])
        for f in st["fields"]:
            yield "il:dtype=" + f[1]
    elif k == "coll":
        yield "coll:style=" + case["style"] + ("/malformed" if case["malformed"] else "")
        yield "coll:lists=" + str(min(len(case["lists"]), 5))
        yield "coll:result=" + (obs["error"] or "ok")
        yield "coll:keyfields=" + str(len(case["kf"]))
        yield "coll:files=" + str(case.get("parts", 1))
        if len(case["keys"]) != len({tuple(x) for x in case["keys"]}):
            yield "coll:duplicate-keys"
        if any(s["len"] == 0 for s in obs["states"]):
            yield "coll:has-empty-list"
        if len({tuple(sorted(f[0] for f in s["fields"])) for s in obs["states"] if s["len"]}) > 1:
            yield "coll:lists-differ-in-fields"
        if len({s["ordered"] for s in obs["states"]}) > 1:
            yield "coll:mixed-ordering"
        seen = set()
        for l in case["lists"]:
            for c in _chain_counters("coll", l):
                if c not in seen:
                    seen.add(c)
                    yield c
            if l.get("ranks") is not None and "r" + str(l.get("rank_shape")) not in seen:
                seen.add("r" + str(l.get("rank_shape")))
                yield "coll:ranks=" + str(l.get("rank_shape"))
    elif k == "dsrt":
        yield "dsrt:attrs=" + str(obs["n_attrs"])
        for e in ("item", "user"):
            ids = obs["view_ids"].get(e) or []
            yield f"dsrt:{e}-vocabulary-" + ("sorted" if ids == sorted(ids) else "not-sorted")
    elif k == "vocab":
        yield "vocab:idkind=" + case["idkind"]
        yield "vocab:size=" + str(min(len(case["ids"]), 6))


def _chain_counters(tag, spec):
    chain = spec.get("chain", [])
    ops = [st for st in chain if st["op"] != "none"]
    yield f"{tag}:history-steps={len(ops)}"
    warmed = False
    for st in chain:
        for w in st["warm"]:
            yield f"{tag}:used-before={w}"
        if st["op"] == "get":
            yield f"{tag}:derive=subset-{st['how']}" + ("-empty" if not st["idx"] else "")
        elif st["op"] == "clone":
            yield f"{tag}:derive=clone"
        elif st["op"] == "derive":
            for k in ("ids", "vocab", "ordered", "scores", "rank"):
                if st[k] is not None:
                    yield f"{tag}:derive={k}" + ("=False" if st[k] is False else "")
            if st["rank"] is not None:
                yield f"{tag}:ranks=" + str(st.get("rank_shape"))
            for f in st["fields"]:
                yield f"{tag}:derive=" + ("drop-field" if f[1] is None else "field")
        if st["op"] != "none" and st["warm"]:
            warmed = True
    if warmed:
        yield f"{tag}:derived-from-used-source"


def sample(case, obs):
    s = json.dumps({"case": case, "observation": obs}, default=str)
    return json.loads(s) if len(s) < 6000 else {"case_kind": case["kind"], "note": "sample too large; see replays / corpus", "size": len(s)}


_SHRUNK: dict = {}
SHRINK_CAP = 6          # at most this many failing inputs are minimised per run (each attempt re-runs the case):
                        # one per distinct set of oracle keys (the recorded findings recur on many cases)


def _shrink_chain(spec, fails_spec):
    """drop whole steps, then uses, then overrides of the history of one list while the failure stays"""
    chain = spec.get("chain", [])
    if not chain:
        return spec
    budget = [24]

    def ok(ch):
        if budget[0] <= 0:
            return False
        budget[0] -= 1
        return fails_spec({**spec, "chain": ch})
    # any step may go: a history that becomes invalid (lengths) simply does not reproduce the same key
    for i in range(len(chain)):
        if ok(chain[:i] + chain[i + 1:]):
            return _shrink_chain({**spec, "chain": chain[:i] + chain[i + 1:]}, fails_spec)
    for i in range(len(chain)):
        for j in range(len(chain[i]["warm"])):
            ch = [dict(st) for st in chain]
            ch[i]["warm"] = chain[i]["warm"][:j] + chain[i]["warm"][j + 1:]
            if ok(ch):
                return _shrink_chain({**spec, "chain": ch}, fails_spec)
    for i in range(len(chain)):
        if chain[i]["op"] != "derive":
            continue
        for k in ("vocab", "ordered", "scores", "rank"):
            if chain[i][k] is not None:
                ch = [dict(st) for st in chain]
                ch[i][k] = None
                if ok(ch):
                    return _shrink_chain({**spec, "chain": ch}, fails_spec)
        for j in range(len(chain[i]["fields"])):
            ch = [dict(st) for st in chain]
            ch[i]["fields"] = chain[i]["fields"][:j] + chain[i]["fields"][j + 1:]
            if ok(ch):
                return _shrink_chain({**spec, "chain": ch}, fails_spec)
    return spec


def shrink(case, fails):
    try:
        keys = tuple(sorted({k for k, _ in oracle(case, run_impl(case))}))
    except Exception:
        keys = ("?",)
    if keys in _SHRUNK or len(_SHRUNK) >= SHRINK_CAP:
        return case
    _SHRUNK[keys] = 1
    if case["kind"] == "coll" and len(case["lists"]) >= 1:
        if len(case["lists"]) > 1:
            idx = common.shrink_list(list(range(len(case["lists"]))),
                                     lambda xs: bool(xs) and fails({**case, "lists": [case["lists"][i] for i in xs], "keys": [case["keys"][i] for i in xs]}), 30)
            case = {**case, "lists": [case["lists"][i] for i in idx], "keys": [case["keys"][i] for i in idx]}
        for i in range(len(case["lists"])):
            def with_spec(sp, i=i):
                return {**case, "lists": case["lists"][:i] + [sp] + case["lists"][i + 1:]}
            case = with_spec(_shrink_chain(case["lists"][i], lambda sp: fails(with_spec(sp))))
        return case
    if case["kind"] == "il":
        il = _shrink_chain(case["il"], lambda sp: fails({**case, "il": sp}))
        case = {**case, "il": il}
        if not il.get("chain") and il["fields"]:
            fs = common.shrink_list(il["fields"], lambda xs: fails({**case, "il": {**il, "fields": xs}}), 10)
            case = {**case, "il": {**il, "fields": fs}}
    return case


# ---------------------------------------------------------------------------------------------
# trained models and pipelines: pickle, reload, scores bit-equal (exercise only)
# ---------------------------------------------------------------------------------------------

def extra(rep, tier, rng):
    _setup()
    import importlib

    from lenskit.data import from_interactions_df
    from lenskit.operations import recommend, score
    from lenskit.pipeline import topn_pipeline
    rows = []
    for u in range(1, 31):
        for i in rng.sample(list(range(1, 26)), rng.randint(4, 10)):
            rows.append((u, i, float(rng.randint(1, 10)) / 2))
    df = pd.DataFrame(rng.shuffle(rows), columns=["user_id", "item_id", "rating"])
    # two batches, the later one bringing smaller identifiers: vocabularies are not in sorted identifier order
    hi, lo = df[(df.user_id > 12) & (df.item_id > 9)], df[~((df.user_id > 12) & (df.item_id > 9))]
    dsb = DatasetBuilder()
    dsb.add_interactions("rating", hi, entities=["user", "item"], missing="insert", default=True)
    dsb.add_interactions("rating", lo, entities=["user", "item"], missing="insert")
    ds = dsb.build()
    assert ds.items.ids().tolist() != sorted(ds.items.ids().tolist()) and ds.users.ids().tolist() != sorted(ds.users.ids().tolist())
    specs = [("lenskit.basic.bias", "BiasScorer", {}), ("lenskit.basic.popularity", "PopScorer", {}),
             ("lenskit.knn", "ItemKNNScorer", {"k": 5}), ("lenskit.knn", "UserKNNScorer", {"k": 5}),
             ("lenskit.als", "BiasedMFScorer", {"features": 4, "epochs": 3}), ("lenskit.als", "ImplicitMFScorer", {"features": 4, "epochs": 3}),
             ("lenskit.funksvd", "FunkSVDScorer", {"features": 3, "epochs": 3}), ("lenskit.sklearn.svd", "BiasedSVDScorer", {"features": 3})]
    if tier != "quick":
        specs += [("lenskit.flexmf", "FlexMFExplicitScorer", {"embedding_size": 4, "epochs": 2}),
                  ("lenskit.flexmf", "FlexMFImplicitScorer", {"embedding_size": 4, "epochs": 2})]
    done = []
    for mod, cls, cfg in specs:
        try:
            C = getattr(importlib.import_module(mod), cls)
            pipe = topn_pipeline(C(**cfg), n=5)
            pipe.train(ds)
        except Exception as e:       # a scorer that cannot be built here is not this property's subject
            done.append(f"{cls}: skipped ({type(e).__name__})")
            continue
        blob = pickle.dumps(pipe)
        pipe2 = pickle.loads(blob)
        comp2 = pickle.loads(pickle.dumps(pipe.node("scorer").component))
        bad = None
        for u in (1, 7, 30):
            items = list(range(1, 26))
            s1 = score(pipe, u, items).scores()
            s2 = score(pipe2, u, items).scores()
            if s1.tobytes() != s2.tobytes():
                bad = f"scores for user {u} differ after pickling the pipeline"
            r1, r2 = recommend(pipe, u, 5), recommend(pipe2, u, 5)
            if r1.ids().tolist() != r2.ids().tolist() or r1.scores().tobytes() != r2.scores().tobytes():
                bad = f"recommendations for user {u} differ after pickling the pipeline"
        if type(comp2) is not C:
            bad = "component unpickled as a different type"
        if bad:
            rep.violation(f"model-pickle:{cls}", f"{cls}: {bad}", {"scorer": cls, "config": cfg, "how": "props/c15.py extra()"})
        done.append(f"{cls}: ok ({len(blob)} bytes)")
    rep.coverage["model_pickle_exercise"] = done
