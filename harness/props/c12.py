"""C12 -- batch and parallel execution is transparent: same results for any worker count.

Case kinds (all on the real lenskit code):
  seq    : invoker(model, f, n_jobs=1).map in this process, incl. a failing task at every position
  pool   : one process pool per case (own driver process: harness/c12_driver.py), several map calls on it
           (delays so that completion order differs from task order, duplicates, fewer/equal/more tasks than
           workers, a failing task at some position, optionally a worker that dies), then release checks
  shm    : shm_serialize / shm_deserialize of a model tree through a manager that rounds blocks up to a page
  batch  : lenskit.batch.{recommend,score,predict} against the single-query operations (n_jobs=1 in this
           process; n_jobs>1 through the driver), incl. a component failing for one key
"""

from __future__ import annotations

import json
import os
import subprocess
import tempfile

import common
from common import cbool, clist, cnat, copt, cstr, cz
from framework import TranslateError  # noqa: F401

PID = "C12"
PROPS_FILE = "Props/C12.v"
GEN_FILES = ["Gen/C12_shape.v"]
MODEL_FILES = ["Model/C12_shapes.v", "Model/C12_pool.v"]
ALLOWED_AXIOMS: list[str] = []
SHARD = 150
CASE_HEADER = ("From Coq Require Import ZArith List Bool String.\n"
               "From LK Require Import Model.C12_shapes Gen.C12_shape Model.C12_pool.\n"
               "Open Scope string_scope. Open Scope list_scope.")
TRUSTED = [
    "Coq 8.16.1 kernel + vm_compute (no native_compute); Print Assumptions of every theorem in Props/C12.v: closed under the global context",
    "extractor harness/translate/c12.py: the bodies of InProcessOpInvoker.map, ProcessPoolOpInvoker.{__init__,map,_task_iter,shutdown}, worker.{initalize,worker}, "
    "LensKitProcess.run, LensKitMPContext.Process, invoker, ModelOpInvoker.__exit__, SHMPickler.{__init__,_buffer_cb,reducer_override}, shm_serialize, shm_deserialize, _run_pipeline, BatchPipelineRunner.run and "
    "BatchResults.add_result must be exactly the expected statements; SHMPickler has no other member and serialize.py no other module-level definition; every statement of worker.initalize is one of the "
    "recognised steps (generated worker_init_steps) and worker.py has no other module-level statement (fails closed otherwise)",
    "IEEE 754 contract behind the floating-point part of the task values: mul / add / sub / div / sqrt / float64->float32 conversion are correctly rounded element by "
    "element whatever the code path (Python float, NumPy loop, torch kernel), and the generated reductions are over integer multiples of one power of two whose exact sum "
    "is representable, so these values are functions of the operands alone in one numeric environment; the harness compares bit patterns, except that a COMPUTED NaN "
    "(task results, batch scores) is compared as NaN whatever its payload and sign: IEEE 754 does not say which operand's payload an operation on two NaNs returns (it differs "
    "between CPython's generic and specialised float paths within one process); NaNs of the model that are TRANSPORTED are compared bit by bit (content hashes)",
    "NumPy contract (model's encode): ndarray.__reduce_ex__(5) ships an array that is an axis permutation of a C-ordered block out of band as that block (order C / F / K with "
    "the axis order) and every other array in band; the harness reads the class of each generated array from the public result of __reduce_ex__(5), and the block bytes the "
    "model predicts are compared with the bytes observed in every shared-memory block",
    "library contract (Section hypothesis of batch_is_sequential, discharged for the abstract pool by scheduler_order): Executor.map(fn, tasks) hands back fn(task) "
    "for every task in task order; the real scheduler is Python's concurrent.futures and is exercised, not verified",
    "pickle protocol 5 contract: pickle.loads(data, buffers=bs) rebuilds the object when bs are, in order, equal to the buffers the pickler passed to buffer_callback",
    "the correspondence harness: task outcomes and pipeline outputs are compared as codes of their canonical JSON; the interleaving replayed in the model is "
    "reconstructed from the worker pid of every result",
]
ASSUMPTIONS = [
    "task functions and models are picklable and deterministic; pipelines are trained before the batch run",
    "a worker process that dies (os._exit) is reported as BrokenProcessPool by the executor; which earlier results were already handed over is timing dependent "
    "(only checked to be a correct prefix)",
]
RULE = ("seq: 1-9 tasks, failing position anywhere or none; pool: n_jobs in {2,3,5,16} (quick) with task counts below / at / above the worker count, duplicate tasks, "
        "decreasing delays, a failing task at a chosen position, every pool model holding ndarrays of every memory layout (C, Fortran, transposed view, permuted axes, "
        "every-second slice, negative stride, inner columns, inner rows of a Fortran block, broadcast; 0-4 dims incl. 0-d and empty; 19 dtypes incl. big-endian, strings, "
        "date-times, structured; read-only) and dense (transposed, strided, 0-d, empty; 9 dtypes), COO (coalesced, repeated entry, unsorted), CSR/CSC (32/64-bit indices), "
        "BSR and BSC tensors, nested, whose content hashes are computed inside the worker and compared leaf by leaf; every seq / pool model also holds four float vectors "
        "given bit by bit (NumPy and torch, float32 and float64: small and large subnormal numbers, least normal and largest finite numbers, signed zeros, infinities, "
        "NaNs with a payload, rounding ties) and every second pool task (every third seq task) evaluates 1-3 computations on a model or task vector by Python floats, NumPy or "
        "torch (exact reductions over subnormal numbers scaled in and out of the normal range; chains of 1-3 elementwise mul / add / sub / div / sqrt by powers of two or "
        "values of every class, optionally narrowed to float32) whose bit patterns are part of the task's value; shm: trees of 0-6 payloads (vectors of 0-40 bytes, arrays "
        "of any layout up to 12 elements, tensors), page sizes 1/64/4096; batch: 3 scorers x recommend/score/predict, id / dict / "
        "collection test data with 1-2 key fields (with or without user_id), duplicate keys, 0-6 keys, n_jobs 1 (and 2,3 through the driver), a component failing "
        "for one key, the parameters of the call (module-level helper or a runner used directly; list length n in {None, 0, 1, 2, 3, 50 > catalogue, -1} by position / keyword / "
        "not given; candidate items of the recommend invocation; output names; pipeline default length None / 1 / 4; a grid of helper / runner x every n), ratings of ordinary magnitude or scaled by 2^-135 (every rating, mean and score a subnormal single-precision number; every second pool batch); non-trivial = a pool case, or a map with >= 3 tasks, or a batch with >= 2 keys, or a tree with >= 2 payloads one of which is empty or padded, or a tree holding an array that is not C-ordered or a tensor; "
        "distinct = by hash of the case")

HARNESS = os.path.dirname(os.path.dirname(os.path.abspath(__file__)))


def translate():
    from translate import c12 as t
    from translate.pyq import TranslateError as TE
    try:
        return t.translate(common.SRC)
    except TE as e:
        raise TranslateError(str(e))


# ---------------------------------------------------------------------------------------------
# generators
# ---------------------------------------------------------------------------------------------

ND_DTYPES = ["float64", "float32", "int32", "int64", "uint8", "bool", "int8", "uint16", "uint64", "float16", "complex64", "complex128", ">i4", ">f8",
             "<U2", "S3", "datetime64[s]", "timedelta64[ms]", [["a", "<i4"], ["b", "<f8"]]]
ND_LAYOUTS = ["C", "F", "T", "perm", "step", "neg", "cols", "frows", "bcast"]
ND_SHAPES = [[], [0], [1], [3], [5], [2, 3], [3, 2], [1, 4], [4, 1], [0, 3], [3, 0], [2, 2], [2, 3, 4], [3, 1, 2], [2, 2, 2], [2, 0, 2], [2, 3, 2, 2]]


def gen_nd(rng, layout=None, max_elems=24, min_dims=0):
    "an ndarray leaf: dtype x shape (0-4 dims, also empty and 0-d) x memory layout x read-only"
    lay = layout or rng.choice(ND_LAYOUTS)
    need = max(min_dims, {"C": 0, "bcast": 1, "step": 1, "neg": 1, "cols": 1, "F": 2, "T": 2, "frows": 2, "perm": 3}[lay])
    shapes = [sh for sh in ND_SHAPES if len(sh) >= need and _prod(sh) <= max_elems]
    proper = [sh for sh in shapes if sh and min(sh) >= 2]          # no empty or unit axis: the layout is what its name says
    shape = list(rng.choice(proper if proper and rng.chance(3, 4) else shapes))
    if lay == "C" and not min_dims and rng.chance(1, 8):
        shape = []                                                   # 0-d
    leaf = {"kind": "nd", "dtype": rng.choice(ND_DTYPES[:5]) if rng.chance(1, 2) else rng.choice(ND_DTYPES), "shape": shape,
            "data": [rng.randint(0, 100) for _ in range(_prod(shape))], "layout": lay, "readonly": rng.chance(1, 6)}
    if lay == "perm":
        axes = rng.shuffle(list(range(len(shape))))
        if axes == sorted(axes) or axes == sorted(axes, reverse=True):
            axes = axes[1:] + axes[:1]
        leaf["axes"] = axes
    return leaf


def _prod(sh):
    n = 1
    for d in sh:
        n *= d
    return n


T_DTYPES = ["float32", "float64", "int64", "int32", "float16", "bfloat16", "bool", "uint8", "complex64"]


def gen_tensor(rng, kind=None):
    "a tensor leaf: dense (dtype, transposed / strided / 0-d / empty) or sparse (COO coalesced or not, CSR/CSC with 32- or 64-bit indices, BSR/BSC)"
    kind = kind or rng.choice(["dense", "dense", "coo", "coo", "csr", "csc", "bsr", "bsc"])
    r, c = rng.randint(1, 3), rng.randint(2, 4)
    data = [rng.choice([0, 0, 1, 2, 5]) for _ in range(r * c)]
    if not any(data) and not rng.chance(1, 3):          # sometimes no stored element at all
        data[0] = 3
    leaf = {"kind": kind, "shape": [r, c], "data": [float(x) for x in data]}
    if kind == "dense":
        leaf["tdtype"] = rng.choice(T_DTYPES)
        leaf["tlayout"] = rng.choice(["C", "C", "T", "step", "0d"])
        if rng.chance(1, 8):
            leaf["shape"], leaf["data"], leaf["tlayout"] = [0, c], [], "C"
    else:
        leaf["tdtype"] = rng.choice(["float32", "float32", "float64", "int64"])
        if kind == "coo":
            leaf["coalesced"] = rng.choice([True, True, "dup", "unsorted"])
        if kind in ("csr", "csc"):
            leaf["idx32"] = rng.chance(1, 3)
    return leaf


def gen_payloads(rng):
    "every memory layout of an ndarray and every tensor representation once, in random order, some nested"
    leaves = [gen_nd(rng, lay) for lay in ND_LAYOUTS] + [gen_nd(rng, "C", min_dims=0) for _ in range(2)] + [gen_nd(rng, "F", min_dims=3)]
    leaves += [gen_tensor(rng, k) for k in ["dense", "dense", "dense", "coo", "coo", "csr", "csc", "bsr", "bsc"]]
    leaves += [{"kind": "coo", "shape": [2, 3], "data": [0.0, 1.0, 0.0, 2.0, 0.0, 3.0], "tdtype": "float32", "coalesced": rng.choice(["dup", "unsorted"])}]
    leaves = rng.shuffle(leaves)
    k = rng.randint(2, 5)
    return {"flat": leaves[k:], "deep": {"inner": leaves[:k], "tag": {"kind": "py", "value": "t"}}}


def gen_model(rng, rich):
    m = {"k": {"kind": "py", "value": rng.randint(0, 9)}}
    n = rng.randint(0, 3)
    for j in range(n):
        dt = rng.choice(["float64", "float32", "int32", "int64", "uint8"])
        ln = rng.weighted([(0, 1), (1, 1), (3, 2), (5, 2), (8, 1)])
        m[f"a{j}"] = {"kind": "nd", "dtype": dt, "shape": [ln], "data": [rng.randint(0, 100) for _ in range(ln)]}
    if rng.chance(1, 2):
        m["m2"] = gen_nd(rng, min_dims=2)
    m["num"] = gen_num_model(rng.fork("num"))
    if rich:
        m["payloads"] = gen_payloads(rng)
        m["nest"] = [{"kind": "nd", "dtype": "uint8", "shape": [2], "data": [rng.randint(0, 255), 7]}, {"kind": "py", "value": "s"}]
    return m


# ---- floating-point values bit by bit, and small computations on them -------------------------------------------
# What a task returns must be f(model, x) whatever process evaluates it: the computations below are exact functions of
# their operands under IEEE arithmetic (see c12_tasks.calc), over the values on which a process-wide numeric mode would
# show: subnormal operands and results, the largest finite numbers, signed zeros, NaNs with a payload, ties of the
# rounding.

FSPEC = {"float64": (52, 11), "float32": (23, 8)}


def _fb(dt, sign, exp, frac):
    m, e = FSPEC[dt]
    return (sign << (m + e)) | (exp << m) | frac


def _pow2(dt, k):
    "bits of 2**k (normal range)"
    m, e = FSPEC[dt]
    return _fb(dt, 0, k + (1 << (e - 1)) - 1, 0)


def gen_fvalue(rng, dt):
    m, e = FSPEC[dt]
    emax = (1 << e) - 1
    bias = (1 << (e - 1)) - 1
    r = rng.below(12)
    sign = 1 if rng.chance(1, 4) else 0
    if r < 3:                                            # a small multiple of the least subnormal number
        return _fb(dt, sign, 0, rng.randint(1, 1000))
    if r < 5:                                            # subnormal numbers just below the least normal one
        return _fb(dt, sign, 0, (1 << m) - 1 - rng.below(3)) if rng.chance(1, 2) else _fb(dt, sign, 0, 1 << rng.randint(m - 4, m - 1))
    if r == 5:                                           # the least normal numbers
        return _fb(dt, sign, 1, rng.choice([0, 1, (1 << m) - 1]))
    if r == 6:                                           # the largest finite numbers
        return _fb(dt, sign, emax - 1, rng.choice([(1 << m) - 1, 0, 1 << (m - 1)]))
    if r == 7:                                           # signed zeros and infinities
        return _fb(dt, sign, rng.choice([0, 0, emax]), 0)
    if r == 8:                                           # quiet NaNs with a payload
        return _fb(dt, sign, emax, (1 << (m - 1)) | rng.randint(0, 4000))
    if r == 9:                                           # ties of the rounding: 1 + ulp, 1 - ulp/2, 1/3-like
        return _fb(dt, sign, bias - rng.below(2), rng.choice([1, (1 << m) - 1, int("01" * 26, 2) & ((1 << m) - 1)]))
    return _fb(dt, sign, bias + rng.randint(-3, 6), rng.below(1 << m) if rng.chance(1, 2) else 0)      # ordinary


def gen_fvector(rng, dt):
    "4 small multiples of the least subnormal number (their sums are exact), then 4-8 values of every class"
    return [_fb(dt, 0, 0, rng.randint(1, 1000)) for _ in range(4)] + [gen_fvalue(rng, dt) for _ in range(rng.randint(4, 8))]


def gen_num_model(rng):
    return {"a64": {"kind": "fbits", "lib": "np", "dtype": "float64", "bits": gen_fvector(rng, "float64")},
            "a32": {"kind": "fbits", "lib": "np", "dtype": "float32", "bits": gen_fvector(rng, "float32")},
            "t64": {"kind": "fbits", "lib": "torch", "dtype": "float64", "bits": gen_fvector(rng, "float64")},
            "t32": {"kind": "fbits", "lib": "torch", "dtype": "float32", "bits": gen_fvector(rng, "float32")}}


def gen_calc(rng, num_model):
    """one computation of a task: on a vector of the model or of the task itself, by Python floats, NumPy or torch"""
    lib = rng.choice(["py", "np", "np", "torch", "torch"])
    dt = "float64" if lib == "py" else rng.choice(["float64", "float32"])
    m, e = FSPEC[dt]
    bias = (1 << (e - 1)) - 1
    c = {"lib": lib, "dtype": dt, "src": rng.choice(["model", "task"])}
    if c["src"] == "model":
        import c12_tasks
        n = len(num_model[c12_tasks.NUM_KEY[lib, dt]]["bits"])
    else:
        c["xs"] = gen_fvector(rng, dt)
        n = len(c["xs"])
    steps = []
    if rng.chance(1, 2):
        # a reduction over the small subnormal multiples: exact, so the order of the additions is immaterial; scaled into
        # the normal range before or after (a power of two: exact as well), or left subnormal
        sel = rng.sample([0, 1, 2, 3], rng.randint(2, 4))
        up = m + rng.randint(12, bias - m - 12)           # 2**up * (k * least subnormal) is normal and far from overflow
        how = rng.below(4)
        if how == 0:
            steps = [["sum", None], ["mul", [_pow2(dt, up)]]]
        elif how == 1:
            steps = [["mul", [_pow2(dt, rng.randint(0, 20))]], ["sum", None]]
        elif how == 2:
            steps = [["dot", [_pow2(dt, rng.choice([0, 3, up]))] * len(sel)]]
        else:
            steps = [["mul", [_pow2(dt, up)]], ["sum", None]]
        c["class"] = "subnormal-sum"
    else:
        sel = rng.sample(list(range(n)), rng.randint(1, min(n, 6)))
        for _ in range(rng.randint(1, 3)):
            op = rng.choice(["mul", "mul", "add", "sub", "div", "sqrt"])
            if op == "sqrt":
                steps.append([op, None])
            elif rng.chance(1, 2):                        # by a power of two: into and out of the subnormal range
                k = rng.choice([1, -1]) * rng.randint(1, bias - 2)
                steps.append([op, [_pow2(dt, k)]])
            else:
                steps.append([op, [gen_fvalue(rng, dt)] if rng.chance(1, 2) else [gen_fvalue(rng, dt) for _ in sel]])
        if dt == "float64" and rng.chance(1, 4):
            steps.append(["cast32", None])
        c["class"] = "elementwise"
    if c["src"] == "model":
        c["sel"] = sorted(sel) if c["class"] == "subnormal-sum" else sel
    else:
        c["xs"] = [c["xs"][i] for i in sel]
    c["steps"] = steps
    return c


FAIL_KINDS = ["TaskFailure", "StopIteration", "KeyError", "ValueError", "HardStop"]


def gen_tasks(rng, n, fail_at=None, delays=False, dup=False, kill_at=None, fail_kind=None):
    ts = []
    for i in range(n):
        t = {"id": i, "x": rng.randint(0, 50)}
        if delays:
            t["delay_ms"] = max(0, (n - i) * rng.choice([0, 5, 15, 30]))
        if i == fail_at:
            t["fail"] = fail_kind or rng.choice(FAIL_KINDS)
        if i == kill_at:
            t["kill"] = True
        ts.append(t)
    if dup and n >= 2:
        j = rng.below(n - 1)
        ts[-1] = dict(ts[j])
    return ts


def attach_calcs(rng, maps, num_model, often=(1, 2)):
    "0-3 floating-point computations per task (the same for duplicates of a task)"
    for mi, tasks in enumerate(maps):
        for t in tasks:
            r = rng.fork(("calc", mi, t["id"], t["x"]))
            if t.get("fail") or t.get("kill") or not r.chance(*often):
                continue
            t["calc"] = [gen_calc(r, num_model) for _ in range(r.randint(1, 3))]
    return maps


def gen_seq_case(rng):
    n = rng.weighted([(0, 1), (1, 2), (2, 2), (3, 3), (5, 3), (9, 1)])
    fail_at = rng.below(n) if n and rng.chance(1, 2) else None
    maps = [gen_tasks(rng, n, fail_at, dup=rng.chance(1, 3))]
    if rng.chance(1, 2):                     # a failure of every class somewhere in a second map
        m = rng.randint(1, 6)
        maps.append(gen_tasks(rng, m, fail_at=rng.below(m), fail_kind=FAIL_KINDS[rng.below(len(FAIL_KINDS))]))
    model = gen_model(rng, rng.chance(1, 3))
    return {"kind": "seq", "n_jobs": 1, "model": model, "maps": attach_calcs(rng.fork("calcs"), maps, model["num"], (1, 3))}


def gen_pool_case(rng, n_jobs, kill=False):
    maps = [gen_tasks(rng, n_jobs + rng.randint(1, 4), delays=True, dup=True),              # more tasks than workers, slow first
            gen_tasks(rng, n_jobs, delays=rng.chance(1, 2)),                                   # as many as workers
            gen_tasks(rng, max(1, n_jobs - 1 - rng.below(2)), dup=n_jobs > 2),                 # fewer
            []]
    nfail = n_jobs + rng.randint(0, 3)
    maps.append(gen_tasks(rng, nfail, fail_at=rng.below(nfail), delays=rng.chance(1, 2)))  # a failing task somewhere
    maps.append(gen_tasks(rng, 3, fail_at=0))
    maps.append(gen_tasks(rng, rng.randint(2, 5)))                                             # the pool still works afterwards
    for fk in rng.sample(FAIL_KINDS[1:], 2):                                                  # other exception classes
        m = rng.randint(2, n_jobs + 2)
        maps.append(gen_tasks(rng, m, fail_at=rng.below(m), fail_kind=fk))
    if kill:
        nk = n_jobs + 2
        maps.append(gen_tasks(rng, nk, kill_at=rng.below(nk), delays=True))
    # the last map fails while slow tasks are still running, and the error unwinds through the with-block
    ne = n_jobs + 3
    exit_map = [{"id": i, "x": i, "delay_ms": 300} for i in range(ne)]
    bad = rng.below(2)
    exit_map[bad] = {"id": bad, "x": bad, "fail": rng.choice(FAIL_KINDS[:4])}
    model = gen_model(rng, True)
    return {"kind": "pool", "n_jobs": n_jobs, "model": model, "maps": attach_calcs(rng.fork("calcs"), maps, model["num"]), "exit_map": exit_map}


def gen_shm_case(rng):
    leaves = []
    for _ in range(rng.weighted([(0, 1), (1, 2), (2, 3), (4, 2), (6, 1)])):
        r = rng.below(12)
        if r < 2:
            leaves.append({"kind": "py", "value": rng.randint(-5, 5)})
        elif r < 5:                               # the plain case: a short vector
            dt = rng.choice(["uint8", "int16", "int32", "float32", "float64"])
            ln = rng.weighted([(0, 2), (1, 2), (2, 2), (3, 2), (5, 1)])
            leaves.append({"kind": "nd", "dtype": dt, "shape": [ln], "data": [rng.randint(0, 100) for _ in range(ln)]})
        elif r < 10:                              # any dtype, shape and memory layout
            leaves.append(gen_nd(rng, max_elems=12))
        else:
            leaves.append(gen_tensor(rng))
    nest = rng.chance(1, 2)
    fr = rng.fork("fbits")
    if fr.chance(1, 3):                           # float vectors given bit by bit: subnormal numbers, NaN payloads, signed zeros
        dt = fr.choice(["float64", "float32"])
        leaves.insert(fr.below(len(leaves) + 1), {"kind": "fbits", "lib": fr.choice(["np", "np", "torch"]), "dtype": dt, "bits": gen_fvector(fr, dt)})
    return {"kind": "shm", "leaves": leaves, "nest": nest, "page": rng.choice([1, 64, 4096])}


def gen_ratings(rng):
    users = list(range(1, rng.randint(4, 8)))
    items = list(range(10, rng.randint(16, 22)))
    rows = []
    for u in users:
        for i in rng.sample(items, rng.randint(2, min(6, len(items)))):
            rows.append([u, i, rng.randint(1, 10)])
    return rows, users, items


N_VALUES = [None, 0, 1, 2, 3, 50, -1]       # not given / empty list / one / small / larger than the catalogue (<= 12 items) / negative


def gen_batch_case(rng, n_jobs=1, rating_exp=None, params=None):
    rows, users, items = gen_ratings(rng)
    op = rng.choice(["recommend", "score", "predict"])
    ops = None
    if params is not None:                    # the parameter grid: one recommend invocation
        op = "recommend"
    elif rng.chance(1, 2):                    # several invocations on one runner, in every order
        ops = rng.shuffle(["recommend", "score", "predict"])[: rng.randint(2, 3)]
        op = ops[0]
    scorer = rng.choice(["pop", "bias", "iknn"])
    nk = rng.weighted([(0, 1), (1, 2), (2, 3), (3, 3), (4, 2), (6, 1)])
    keyusers = [rng.choice(users + [99]) for _ in range(nk)]                 # duplicates and an unknown user
    if ops:
        form = rng.choice(["dict", "coll", "coll", "coll", "ids"])           # with and without items in the test data
    elif op == "recommend":
        form = rng.choice(["ids", "ids", "coll"])
    else:
        form = rng.choice(["dict", "coll", "coll"])
    if form == "dict":
        keyusers = list(dict.fromkeys(keyusers))
    key_fields = ["user_id"]
    keys = [[u] for u in keyusers]
    if form == "coll":
        schema = rng.choice(["u", "u+seq", "seq+u", "seq"])
        if schema == "u+seq":
            key_fields, keys = ["user_id", "seq"], [[u, rng.randint(1, 3)] for u in keyusers]
        elif schema == "seq+u":
            key_fields, keys = ["seq", "user_id"], [[rng.randint(1, 3), u] for u in keyusers]
        elif schema == "seq":
            key_fields, keys = ["seq"], [[j + 1] for j in range(len(keyusers))]
    its = [rng.sample(items + [77], rng.randint(0, 4)) for _ in keys]
    case = {"kind": "batch", "mode": "batch", "n_jobs": n_jobs, "ratings": rows, "scorer": scorer, "op": op, "form": form, "key_fields": key_fields,
            "keys": keys, "items": None if form == "ids" else its, "n": rng.choice([None, 2, 3]) if (ops or op == "recommend") else None,
            "pipe_n": rng.choice([None, 4]), "fail_user": None, "fail_exc": None, "ops": ops}
    # magnitude of the ratings: ordinary, or every rating / mean / score a subnormal single-precision number
    case["rating_exp"] = rng.fork("rating-exp").choice([0, 0, 0, -135]) if rating_exp is None else rating_exp
    # the PARAMETERS of the batch call as a dimension of their own: through the module-level helper or a runner used directly, the
    # list length over its whole range (the single-query operation with the same value is the reference, whatever it does), given by
    # position / by keyword / not at all, candidate items as an input of the recommend invocation
    pr = rng.fork("params")
    case["via"] = "runner" if ops else pr.choice(["helper", "runner"])
    case["n_kw"] = pr.chance(1, 2)
    case["n_given"] = True
    case["cands"] = None
    case["pipe_n"] = pr.choice([None, 4, 1, case["pipe_n"]])
    if ops or op == "recommend":
        case["n"] = pr.choice(N_VALUES + [case["n"], 0])
        if case["via"] == "runner":
            if case["n"] is None:
                case["n_given"] = pr.chance(1, 2)
            if pr.chance(1, 3):
                case["cands"] = pr.sample(items + [77], pr.randint(0, 5))
    case["onames"] = None
    if case["via"] == "runner" and pr.chance(1, 4):
        case["onames"] = {o: pr.choice([None, "out-" + o, "top"]) for o in (ops or [op])[:1]}
    if params is not None:
        case.update(params)
        case["fail_user"] = case["fail_exc"] = None
    if keys and "user_id" in key_fields and rng.chance(1, 4):
        case["fail_user"] = keys[rng.below(len(keys))][key_fields.index("user_id")]
        case["fail_exc"] = rng.choice(["QueryFailure", "StopIteration", "KeyError"])
    return case


def gen_cases(rng, tier):
    quick = tier == "quick"
    cases = []
    pools = [2, 3, 5, 16] if quick else [2, 3, 5, 16] * 6 + [2, 4, 7, 8]     # every pool model carries every payload class (~25 leaves)
    for j, nj in enumerate(pools):
        cases.append(gen_pool_case(rng.fork(("pool", j)), nj, kill=(j % 4 == 1)))
    for j in range(2 if quick else 16):
        cases.append(gen_batch_case(rng.fork(("bpool", j)), n_jobs=[2, 3, 5][j % 3], rating_exp=[0, -135][j % 2]))
    for j in range(60 if quick else 600):
        cases.append(gen_seq_case(rng.fork(("seq", j))))
    for j in range(150 if quick else 1500):
        cases.append(gen_shm_case(rng.fork(("shm", j))))
    for j in range(60 if quick else 500):
        cases.append(gen_batch_case(rng.fork(("batch", j))))
    # the parameter grid of the recommend helper / runner (in process): every class of list length through both entry points
    grid = [{"via": via, "n": n, "n_given": True} for via in ("helper", "runner") for n in N_VALUES] + [{"via": "runner", "n": None, "n_given": False}]
    for j, g in enumerate(grid * (1 if quick else 4)):
        cases.append(gen_batch_case(rng.fork(("bparams", j)), params=g))
    only = os.environ.get("C12_KINDS")           # development aid
    if only:
        cases = [c for c in cases if c["kind"] in only.split(",") and (c["kind"] != "batch" or c["n_jobs"] == 1 or "bpool" in only)]
    return cases


# ---------------------------------------------------------------------------------------------
# implementation drivers
# ---------------------------------------------------------------------------------------------

_ready = False


def _setup():
    global _ready
    if _ready:
        return
    common.use_repo()
    import structlog
    structlog.configure(wrapper_class=structlog.make_filtering_bound_logger(50))
    _ready = True


def _driver(spec, timeout=600):
    d = tempfile.mkdtemp(prefix="c12")
    try:
        sp, op = os.path.join(d, "spec.json"), os.path.join(d, "out.json")
        json.dump(spec, open(sp, "w"))
        p = subprocess.run([common.PY, os.path.join(HARNESS, "c12_driver.py"), sp, op], env=common.base_env(), capture_output=True, text=True, timeout=timeout)
        if p.returncode != 0 or not os.path.exists(op):
            raise RuntimeError(f"pool driver failed ({p.returncode}): {p.stderr[-1200:]}")
        return json.load(open(op))
    finally:
        import shutil
        shutil.rmtree(d, ignore_errors=True)


def _expected(case):
    """f(model, x) for every task, computed here, in order: the single-task operation"""
    import c12_tasks
    model = c12_tasks.build_payload(case["model"])
    dg = c12_tasks.digest(model)
    return [[None if (t.get("fail") or t.get("kill")) else c12_tasks.value_of(model, t, dg) for t in tasks] for tasks in case["maps"]]


def run_seq(case):
    import c12_tasks
    from lenskit.parallel import invoker
    model = c12_tasks.build_payload(case["model"])
    out = {"maps": []}
    with invoker(model, c12_tasks.task, n_jobs=1) as inv:
        out["invoker"] = type(inv).__name__
        for tasks in case["maps"]:
            got, err = [], None
            try:
                for r in inv.map(iter(tasks)):
                    got.append(r)
            except BaseException as e:
                err = type(e).__name__
            out["maps"].append({"results": got, "error": err})
    out["released"] = not hasattr(inv, "model")
    out["expected"] = _expected(case)
    return json.loads(json.dumps(out))


def run_pool(case):
    out = _driver({"mode": "invoker", "n_jobs": case["n_jobs"], "model": case["model"], "maps": case["maps"], "exit_map": case.get("exit_map")})
    out["expected"] = json.loads(json.dumps(_expected(case)))
    return out


class PadMgr:
    def __init__(self, page):
        self.page, self.made = page, []

    def SharedMemory(self, size):
        from multiprocessing.shared_memory import SharedMemory
        s = SharedMemory(create=True, size=-(-size // self.page) * self.page)
        self.made.append(s)
        return s

    def close(self):
        for s in self.made:
            try:
                s.close()
                s.unlink()
            except Exception:
                pass


def _shm_payload(case):
    leaves = case["leaves"]
    if case["nest"]:
        return {"k": {"kind": "py", "value": 1}, "first": leaves[: len(leaves) // 2], "rest": {f"x{j}": l for j, l in enumerate(leaves[len(leaves) // 2:])}}
    return {f"x{j}": l for j, l in enumerate(leaves)}


def run_shm(case):
    import gc

    import c12_tasks
    from lenskit.parallel.serialize import shm_deserialize, shm_serialize
    spec = _shm_payload(case)
    obj = c12_tasks.build_payload(spec)
    want = c12_tasks.digest(obj)
    mgr = PadMgr(case["page"])
    out = {"shapes": [], "payloads": [], "roundtrip_ok": False, "error": None, "changed": [], "stage": None}
    try:
        try:
            d = shm_serialize(obj, mgr)
        except Exception as e:
            out["error"], out["stage"] = type(e).__name__, "serialize"
            out["changed"] = [[p, c] for p, c in c12_tasks.failing_leaves(spec, obj)]
            return out
        out["shapes"] = [[None if s is None else s.size, n] for s, n in d.buffers]
        out["payloads"] = [[] if s is None else list(bytes(s.buf[:n])) for s, n in d.buffers]
        try:
            back = shm_deserialize(d)
            got = c12_tasks.digest(back)
            out["roundtrip_ok"] = got == want
            out["changed"] = [[p, c, w, g] for p, c, w, g in c12_tasks.changed_leaves(spec, want, got)]
            del back
        except Exception as e:
            out["error"], out["stage"] = type(e).__name__, "deserialize"
        gc.collect()
        return json.loads(json.dumps(out))
    finally:
        mgr.close()


def run_batch(case):
    if case["n_jobs"] == 1:
        import c12_batch
        return json.loads(json.dumps(c12_batch.run(case)))
    return _driver(case)


def run_impl(case):
    _setup()
    return {"seq": run_seq, "pool": run_pool, "shm": run_shm, "batch": run_batch}[case["kind"]](case)


# ---------------------------------------------------------------------------------------------
# model side
# ---------------------------------------------------------------------------------------------

ERRCODE = {"TaskFailure": 0, "BrokenProcessPool": 2}


def _strip(r):
    """The value of a task as it is compared (oracle and Coq codes alike): id, x2, the content hashes of the model that
    ARRIVED (bit-exact, NaN payloads included) and the computed floating-point results with every computed NaN as "nan"
    (c12_tasks.canon_num: which payload an operation on two NaNs returns is not a function of its operands)."""
    import c12_tasks
    if r is None:
        return None
    return {"id": r.get("id"), "x2": r.get("x2"), "digest": r.get("digest"), "num": c12_tasks.canon_num(r.get("num"))}


def _schedule(results, n_tasks):
    """An interleaving consistent with which worker ran which task: tasks are claimed in task order; a worker
    finishes its previous task before it claims the next; tasks without a known worker get a fresh one."""
    ev, busy = [], set()
    pid_of = {}
    for i in range(n_tasks):
        w = results[i]["pid"] if i < len(results) else None
        if w is None or w not in pid_of:
            pid_of[w if w is not None else ("anon", i)] = len(pid_of)
        wi = pid_of[w if w is not None else ("anon", i)]
        if wi in busy:
            ev.append(f"Finish {wi}")
        ev.append(f"Claim {wi}")
        busy.add(wi)
    for wi in sorted(busy, reverse=True):
        ev.append(f"Finish {wi}")
    return ev


def term_maps(case, obs):
    if obs.get("setup_error"):
        return "false"                                 # the model transports every model
    terms = []
    for tasks, m, exp in zip(case["maps"], obs["maps"], obs["expected"]):
        if any(t.get("kill") for t in tasks):
            continue                                   # which results were already handed over is timing dependent
        codes = {}

        def code(v):
            return codes.setdefault(json.dumps(v, sort_keys=True), len(codes) + 1)
        tbl = ["(Err 0)" if e is None else f"(Ok {cnat(code(_strip(e)))})" for e in exp]
        got = [codes.get(json.dumps(_strip(r), sort_keys=True), 999) for r in m["results"]]
        err = 0 if m["error"] is None else 1
        # results carry the worker pid; for a failing map the failed task and those after it have none
        sched = _schedule(m["results"] if m["error"] is None else m["results"] + [{"pid": None}] * (len(tasks) - len(m["results"])), len(tasks))
        terms.append(f"agree_map {cnat(case['n_jobs'])} [{'; '.join(tbl)}] {clist(list(range(len(tasks))), cnat)} "
                     f"[{'; '.join(sched)}] {clist(got, cnat)} {cnat(err)}")
    return "(" + " && ".join(terms or ["true"]) + ")"


def _nd_leaves(spec):
    if isinstance(spec, list):
        return [x for sp in spec for x in _nd_leaves(sp)]
    if spec.get("kind") is None:
        return [x for sp in spec.values() for x in _nd_leaves(sp)]
    return [spec] if spec["kind"] == "nd" else []


def _tree(spec):
    import c12_tasks
    if isinstance(spec, list):
        return "(TNode [" + "; ".join(_tree(s) for s in spec) + "])"
    k = spec.get("kind")
    if k is None:
        return "(TNode [" + "; ".join(_tree(s) for s in spec.values()) + "])"
    if k == "py":
        return f"(TAtom {cz(int(spec['value']))})"
    if k != "nd" and not (k == "fbits" and spec["lib"] == "np"):
        return "(TAtom 0)"                     # tensors travel through torch's reducers (contract), not through the blocks
    info = c12_tasks.nd_info(c12_tasks.build_payload(spec))
    tr = info["transport"]
    trs = f"(OutOfBand {clist(tr[1], cnat)} {clist(tr[2], cnat)})" if tr[0] == "oob" else "InBand"
    return f"(TArr {trs} {cnat(info['isz'])} {clist(info['shape'], cnat)} {clist(info['elems'], lambda e: clist(e, cnat))})"


def term_shm(case, obs):
    if obs.get("stage") == "serialize":
        return "false"                             # the model serialises every tree
    pads = [0 if s is None else s - n for s, n in obs["shapes"]]
    shapes = clist(obs["shapes"], lambda sn: f"({copt(sn[0], cnat)}, {cnat(sn[1])})")
    payloads = clist(obs["payloads"], lambda b: clist(b, cnat))
    # the pad of the i-th *buffer* is looked up by the model's running buffer number, which also counts empty ones
    return f"agree_shm {_tree(_shm_payload(case))} {clist(pads, cnat)} {shapes} {payloads} {cbool(obs['roundtrip_ok'])}"


NODE = {"recommend": "recommender", "score": "scorer", "predict": "rating-predictor"}
ONAME = {"recommend": "recommendations", "score": "scores", "predict": "predictions"}


def _ops(case):
    return case.get("ops") or [case["op"]]


def _oname(case, op):
    "the output name of an invocation: the operation's default, or the `output=` given to the runner's method"
    return (_via(case) == "runner" and (case.get("onames") or {}).get(op)) or ONAME[op]


def _via(case):
    return "runner" if len(_ops(case)) > 1 else (case.get("via") or "helper")


def _param_tag(case, op):
    "names the class of the parameters of a recommend invocation in the oracle key (nothing for the ordinary small / absent n)"
    if op != "recommend":
        return ""
    n = case.get("n")
    t = ":n=0" if n == 0 else ":n<0" if (n is not None and n < 0) else ":n>catalogue" if (n is not None and n >= 50) else ""
    if _via(case) == "runner" and case.get("cands") is not None:
        t += ":candidates"
    return t


def term_batch(case, obs):
    codes = {}

    def code(v):
        return codes.setdefault(json.dumps(v, sort_keys=True), len(codes) + 1)
    kf = case["key_fields"]
    ops = _ops(case)
    via = _via(case)
    # the list length as a code (None given explicitly = 4000; absent = no input at all), the candidate list as one more
    ncode = None if (via == "runner" and not case.get("n_given", True)) else 4000 if case.get("n") is None else 4002 + case["n"]
    CANDS = 2000
    with_cands = via == "runner" and case.get("cands") is not None
    # the pipeline as a table: (node, query, items) -> output code; items are identified by the request number
    reqs, table = [], []
    for j, k in enumerate(case["keys"]):
        items_code = 1000 + j
        key = clist(list(zip(kf, k)), lambda fv: f"({cstr(fv[0])}, {cnat(fv[1])})")
        reqs.append(f"({key}, {cnat(items_code)})")
        q = k[kf.index("user_id")] if "user_id" in kf else None
        for op in ops:
            sres = obs["single"][ONAME[op]][j]
            out = "(Err 3)" if (sres is not None and "error" in sres) else f"(Ok [({cstr(NODE[op])}, {cnat(code(sres))})])"
            # the single-query operation was called with exactly these inputs: the pipeline's value is known at this point only
            it = (items_code if op != 'recommend' else CANDS if with_cands else None)
            table.append(f"(({cstr(NODE[op])}, {copt(q, cnat)}, {copt(it, cnat)}, {copt(ncode if op == 'recommend' else None, cnat)}), {out})")
    run_all = (f"(fun (nodes : list string) (inp : list (string * nat)) => match nodes with [nd] => "
               f"match find (fun e => String.eqb (fst (fst (fst (fst e)))) nd && onat_eqb (snd (fst (fst (fst e)))) (alookup \"query\" inp) "
               f"&& onat_eqb (snd (fst (fst e))) (alookup \"items\" inp) && onat_eqb (snd (fst e)) (alookup \"n\" inp)) "
               f"[{'; '.join(table)}] with Some e => snd e | None => Err 9 end | _ => Err 8 end)")
    invs = []
    for op in ops:
        # the invocation the call stands for: the helper / runner.recommend(**extra) hands every parameter it was given to the pipeline
        extra = []
        if op == "recommend":
            if ncode is not None:
                extra.append(f"({cstr('n')}, {cnat(ncode)})")
            if with_cands:
                extra.append(f"({cstr('items')}, {cnat(CANDS)})")
        if via == "helper":      # the request the module-level helper puts on its runner (generated helper_recommend / _score / _predict)
            invs.append(f"(helper_inv helper_{op} {cnat(ncode if op == 'recommend' else 0)})")
        else:
            invs.append(f"(mkInv {cbool(op != 'recommend')} [{'; '.join(extra)}] [({cstr(NODE[op])}, {cstr(_oname(case, op))})])")
    if obs["error"]:
        want = "None"
    else:
        outs = []
        for name, col in obs["outputs"]:
            rows = clist(list(zip(col["keys"], col["lists"])), lambda kl: f"({clist(list(zip(col['key_fields'], kl[0])), lambda fv: f'({cstr(fv[0])}, {cnat(fv[1])})')}, {cnat(codes.get(json.dumps(kl[1], sort_keys=True), 999))})")
            outs.append(f"({cstr(name)}, {rows})")
        want = f"(Some [{'; '.join(outs)}])"
    sched = "[" + "; ".join(["Claim 0; Finish 0"] * len(case["keys"])) + "]" if case["keys"] else "[]"
    return (f"agree_batch {cnat(case['n_jobs'])} {run_all} [{'; '.join(invs)}] [{'; '.join(reqs)}] {sched} {want}")


def coq_term(case, obs):
    k = case["kind"]
    if k in ("seq", "pool"):
        return term_maps(case, obs)
    if k == "shm":
        return term_shm(case, obs)
    return term_batch(case, obs)


# ---------------------------------------------------------------------------------------------
# the property as a predicate on implementation output (independent of the Coq model)
# ---------------------------------------------------------------------------------------------

def oracle_maps(case, obs):
    v = []
    if obs.get("setup_error"):
        for path, cls in obs.get("not_serialisable") or [["model", "?"]]:
            v.append((f"{case['kind']}:model-not-transported:{cls}", f"invoker(model, f, n_jobs={case['n_jobs']}) raised {obs['setup_error']}: the {cls} payload at {path} "
                      f"cannot be sent to the workers ({_leaf_at(case['model'], path)}); with n_jobs=1 the same model works"))
        return v
    for r in (r for m in obs["maps"] for r in m["results"]):          # what arrived in the workers, leaf by leaf
        changed = _changed(case, obs, r)
        for path, cls, w, g in changed[:3]:
            v.append((f"{case['kind']}:payload-changed:{cls}", f"n_jobs={case['n_jobs']}, task {r['id']} in process {r.get('pid')}: the {cls} payload at {path} is not what "
                      f"the caller passed: sent {w}, arrived {g}; spec {_leaf_at(case['model'], path)}"))
        if changed:
            break
    seen = set()
    import c12_tasks
    for mi, (tasks, m, exp_raw) in enumerate(zip(case["maps"], obs["maps"], obs["expected"])):
        exp = [_strip(e) for e in exp_raw]
        # the value of a task is a function of (model, task): floating-point arithmetic gives the same bits in whichever process it runs
        # (computed NaNs compared as NaN, every other result bit by bit)
        for ti, (t, r, e) in enumerate(zip(tasks, m["results"], exp_raw)):
            if e is None or r.get("id") != t["id"] or r.get("num") == e.get("num"):
                continue
            for c, g, w in zip(t.get("calc") or [], r.get("num") or [], e["num"]):
                key = f"{case['kind']}:value-depends-on-process:{c['lib']}:{c['dtype']}:{c['class']}"
                if c12_tasks.canon_num([g]) != c12_tasks.canon_num([w]) and key not in seen and len(seen) < 3:
                    seen.add(key)
                    xs = c["xs"] if c["src"] == "task" else [case["model"]["num"][_num_key(c)]["bits"][i] for i in c["sel"]]
                    v.append((key, f"n_jobs={case['n_jobs']}, map {mi}, task {t['id']} in process {r.get('pid')}: {c['lib']} {c['dtype']} arithmetic on the "
                              f"{'model' if c['src'] == 'model' else 'task'} vector with bit patterns {[hex(b) for b in xs]}, steps "
                              f"{[[op, None if k is None else [hex(b) for b in k]] for op, k in c['steps']]}, gave {_hexes(g)} in the worker but {_hexes(w)} as "
                              f"f(model, x) evaluated by the caller (n_jobs=1): the numeric environment of the process that runs the task differs"))
        bad = next((i for i, t in enumerate(tasks) if t.get("fail") or t.get("kill")), None)
        got = [_strip(r) for r in m["results"]]
        if bad is None:
            if m["error"] is not None:
                v.append((f"{case['kind']}:spurious-error", f"map {mi} raised {m['error']} although no task fails"))
            elif got != exp:
                what = "count" if len(got) != len(exp) else ("order" if sorted(map(json.dumps, got)) == sorted(map(json.dumps, exp)) else "value")
                v.append((f"{case['kind']}:map-{what}", f"map {mi} with n_jobs={case['n_jobs']}: results differ from f(model, x) in task order ({what}): "
                          f"ids {[r['id'] for r in got]} for tasks {[t['id'] for t in tasks]}"))
        else:
            if m["error"] is None:
                v.append((f"{case['kind']}:failure-swallowed", f"map {mi}: task {bad} fails but the map completed with {len(got)} results"))
            elif got != exp[: len(got)] or len(got) > bad:
                v.append((f"{case['kind']}:failure-misattributed", f"map {mi}: results handed over before the error are not f(model, x) of the tasks before the failing one"))
            elif not any(t.get("kill") for t in tasks) and len(got) != bad:
                v.append((f"{case['kind']}:failure-position", f"map {mi}: {len(got)} results were handed over before the error of task {bad}"))
    if case["kind"] == "pool":
        a = obs["after"]
        ex = obs.get("exit")
        if ex is not None:
            bad = next(i for i, t in enumerate(case["exit_map"]) if t.get("fail"))
            if ex["error"] is None:
                v.append(("pool:failure-swallowed", f"the failing task {bad} of the last map did not surface as an error"))
            elif len(ex["results"]) > bad:
                v.append(("pool:failure-misattributed", "results were handed over past the failing task of the last map"))
        if a["children"] or a["shm_left"]:
            how = "after a task failure unwound through the with-block (other tasks still running)" if ex is not None else "after the with-block"
            v.append(("pool:not-released", f"{how}: {a['children']} child processes are alive and shared-memory segments {a['shm_left']} remain "
                      "when control returns to the caller"))
        if obs["invoker"] != "ProcessPoolOpInvoker":
            v.append(("pool:wrong-invoker", f"n_jobs={case['n_jobs']} gave {obs['invoker']}"))
    elif not obs.get("released", True):
        v.append(("seq:not-released", "the in-process invoker still holds the model after the with-block"))
    return v


def _num_key(c):
    import c12_tasks
    return c12_tasks.NUM_KEY[c["lib"], c["dtype"]]


def _hexes(r):
    return r if not isinstance(r, list) or r[0] == "error" else [r[0], [hex(b) for b in r[1]]]


def _changed(case, obs, result):
    import c12_tasks
    want = next((e["digest"] for exp in obs["expected"] for e in exp if e is not None), None) or obs.get("model_digest")
    if want is None or result.get("digest") == want:
        return []
    return c12_tasks.changed_leaves(case["model"], want, result.get("digest"))


def oracle_shm(case, obs):
    v = []
    if obs.get("stage") == "serialize":
        for path, cls in obs["changed"] or [["model", "?"]]:
            v.append((f"shm:not-serialisable:{cls}", f"shm_serialize raised {obs['error']} for a model holding a {cls} payload at {path}"))
        return v
    if any((sz is None) != (n == 0) or (sz is not None and sz < n) for sz, n in obs["shapes"]):
        v.append(("shm:buffer-lengths", f"(block size, recorded payload length) pairs {obs['shapes']}: a payload does not fit its block, or an empty one has a block"))
    if obs["error"]:
        v.append(("shm:roundtrip", f"shm_deserialize(shm_serialize(model)) raised {obs['error']} (page {case['page']})"))
    elif not obs["roundtrip_ok"]:
        for path, cls, w, g in obs["changed"][:3]:
            v.append((f"shm:roundtrip:{cls}", f"shm_deserialize(shm_serialize(model)): the {cls} payload at {path} came back changed (page {case['page']}): "
                      f"sent {w}, got {g}; spec {_leaf_at(_shm_payload(case), path)}"))
        if not obs["changed"]:
            v.append(("shm:roundtrip", f"shm_deserialize(shm_serialize(model)) differs from the model (page {case['page']})"))
    return v


def _leaf_at(spec, path):
    import re
    cur = spec
    for m in re.finditer(r"\.([A-Za-z_0-9]+)|\[(\d+)\]", path[len("model"):]):
        cur = cur[m.group(1)] if m.group(1) is not None else cur[int(m.group(2))]
    if isinstance(cur, dict) and cur.get("kind") == "nd":
        return {k: cur[k] for k in ("dtype", "shape", "layout", "readonly", "axes") if k in cur}
    if isinstance(cur, dict) and "kind" in cur:
        return {k: cur[k] for k in cur if k != "data"}
    return "?"


def oracle_batch(case, obs):
    v = []
    tag = "batch" if case["n_jobs"] == 1 else "batch-pool"
    ops = _ops(case)
    failing = [s for op in ops for s in obs["single"][ONAME[op]] if s is not None and "error" in s]
    if case["n_jobs"] > 1:
        a = obs["after"]
        if a["children"] or a["shm_left"]:
            v.append(("batch-pool:not-released", f"after the batch run {a['children']} child processes and segments {a['shm_left']} remain"))
    if failing:
        if obs["error"] is None:
            got = {name: len(col["keys"]) for name, col in obs["outputs"]}
            v.append((f"{tag}:failure-swallowed", f"the single-query operation fails ({failing[0]['error']}) for some key but the batch run returned normally "
                      f"with {got} results for {len(case['keys'])} keys"))
        return v
    if obs["error"]:
        v.append((f"{tag}:spurious-error", f"batch {'+'.join(ops)} raised {obs['error']}: {obs.get('msg')}"))
        return v
    names = [name for name, _ in obs["outputs"]]
    if names != [_oname(case, op) for op in ops]:
        v.append((f"{tag}:outputs", f"outputs {names} for invocations {ops}"))
        return v
    for op, (name, col) in zip(ops, obs["outputs"]):
        single = obs["single"][ONAME[op]]
        if col["key_fields"] != case["key_fields"]:
            v.append((f"{tag}:key-fields", f"{name}: key fields {case['key_fields']} came back as {col['key_fields']}"))
        if col["keys"] != case["keys"]:
            v.append((f"{tag}:keys", f"{name}: keys {case['keys']} came back as {col['keys']} (one per input key, input order, duplicates kept)"))
        elif col["lists"] != single:
            j = next(i for i, (x, y) in enumerate(zip(col["lists"], single)) if x != y)
            how = {"via": _via(case), "n": case.get("n"), "pipe_n": case.get("pipe_n")}
            how.update({"n_kw": bool(case.get("n_kw"))} if _via(case) == "helper" else {"n_given": case.get("n_given", True), "cands": case.get("cands")})
            v.append((f"{tag}:value:{op}" + ("" if len(ops) == 1 else ":multi-invocation") + _param_tag(case, op),
                      f"invocations {ops} ({how}): {name} for key {case['keys'][j]} differs from the single-query {op} called with the same parameters: "
                      f"{col['lists'][j]} vs {single[j]}"))
    return v


def oracle(case, obs):
    k = case["kind"]
    return oracle_maps(case, obs) if k in ("seq", "pool") else oracle_shm(case, obs) if k == "shm" else oracle_batch(case, obs)


def nontrivial(case, obs):
    k = case["kind"]
    if k == "pool":
        return True
    if k == "seq":
        return any(len(t) >= 3 for t in case["maps"])
    if k == "shm":
        return (len(obs["shapes"]) >= 2 and any(s is None or s > n for s, n in obs["shapes"])) or \
            any(c not in ("nd:C", "nd:0d") for c in _leaf_classes(case["leaves"]))
    return len(case["keys"]) >= 2


def counters(case, obs):
    k = case["kind"]
    yield "kind=" + k
    if k in ("seq", "pool"):
        yield f"{k}:n_jobs={case['n_jobs']}"
        for tasks, m, exp in zip(case["maps"], obs["maps"], obs["expected"]):
            rel = "none" if not tasks else "below" if len(tasks) < case["n_jobs"] else "at" if len(tasks) == case["n_jobs"] else "above"
            yield f"{k}:tasks-vs-workers={rel}"
            yield f"{k}:map-result={m['error'] or 'ok'}"
            for t, e in zip(tasks, exp):
                if t.get("fail"):
                    yield f"{k}:failure-class={t['fail']}"
                for c, w in zip(t.get("calc") or [], (e or {}).get("num") or []):
                    yield f"{k}:calc={c['lib']}:{c['dtype']}:{c['class']}:{c['src']}"
                    for cl in _value_classes(w):
                        yield f"{k}:calc-result={cl}"
            if len({json.dumps({a: b for a, b in t.items() if a != 'delay_ms'}, sort_keys=True) for t in tasks}) < len(tasks):
                yield f"{k}:duplicate-tasks"
            if m["error"] is None and len({r["pid"] for r in m["results"]}) > 1:
                yield f"{k}:map-used-several-workers"
            if m["error"] is None and [r["t1"] for r in m["results"]] != sorted(r["t1"] for r in m["results"]):
                yield f"{k}:completion-order-differs-from-task-order"
        for cls in sorted({c for c in _leaf_classes(case["model"])}):
            yield f"{k}:payload={cls}"
    elif k == "shm":
        for cls in sorted({c for c in _leaf_classes(case["leaves"])}):
            yield f"shm:payload={cls}"
        yield "shm:page=" + str(case["page"])
        yield "shm:buffers=" + str(min(len(obs["shapes"]), 5))
        if any(s is None for s, _ in obs["shapes"]):
            yield "shm:zero-length-buffer"
        if any(s is not None and s > n for s, n in obs["shapes"]):
            yield "shm:block-longer-than-payload"
    else:
        yield f"batch:n_jobs={case['n_jobs']}"
        yield "batch:ops=" + "+".join(_ops(case))
        yield "batch:via=" + _via(case)
        if any(_oname(case, o) != ONAME[o] for o in _ops(case)):
            yield "batch:output-renamed"
        if "recommend" in _ops(case):
            n = case.get("n")
            yield "batch:n=" + ("absent" if (_via(case) == "runner" and not case.get("n_given", True)) else "None" if n is None else "0" if n == 0 else "negative" if n < 0
                                else ">catalogue" if n >= 50 else "1" if n == 1 else "small")
            yield "batch:pipeline-default-n=" + str(case.get("pipe_n"))
            if _via(case) == "runner" and case.get("cands") is not None:
                yield "batch:candidates=" + ("none" if not case["cands"] else "given")
            lens = {len(r["ids"]) for r in obs["single"]["recommendations"] if r is not None and "ids" in r}
            if 0 in lens:
                yield "batch:recommend-empty-list"
        yield "batch:form=" + case["form"] + "/" + "+".join(case["key_fields"])
        yield "batch:keys=" + str(min(len(case["keys"]), 5))
        yield "batch:result=" + (obs["error"] or "ok")
        yield f"batch:rating-scale=2^{case.get('rating_exp') or 0}"
        if len({tuple(x) for x in case["keys"]}) < len(case["keys"]):
            yield "batch:duplicate-keys"
        if case["fail_user"] is not None:
            yield "batch:failing-component=" + str(case.get("fail_exc"))


def _value_classes(r):
    "which kinds of floating-point values a computed result (evaluated by the caller) holds"
    if not isinstance(r, list) or r[0] == "error":
        return ["error"]
    m, e = FSPEC[r[0]]
    out = set()
    for b in r[1]:
        ex, fr = (b >> m) & ((1 << e) - 1), b & ((1 << m) - 1)
        out.add("zero" if ex == 0 and fr == 0 else "subnormal" if ex == 0 else ("nan" if fr else "inf") if ex == (1 << e) - 1 else "normal")
    return sorted(out)


def _leaf_classes(spec):
    import c12_tasks
    if isinstance(spec, list):
        return [c for sp in spec for c in _leaf_classes(sp)]
    if spec.get("kind") is None:
        return [c for sp in spec.values() for c in _leaf_classes(sp)]
    return [] if spec["kind"] == "py" else [c12_tasks.leaf_class(spec)]


def sample(case, obs):
    s = json.dumps({"case": case, "observation": obs}, default=str)
    return json.loads(s) if len(s) < 5000 else {"case_kind": case["kind"], "n_jobs": case.get("n_jobs"), "note": "sample too large", "size": len(s)}


SEARCH_CASES = 0          # the generic fallback would run the thorough tier's pools; `search` below is used instead


def search(rng, rep):
    """Called when an obligation is broken and no generated case failed: thorough-tier cases of the cheap kinds."""
    _setup()
    hit = False
    cases = [gen_seq_case(rng.fork(("s", j))) for j in range(200)] + [gen_batch_case(rng.fork(("b", j))) for j in range(200)] \
        + [gen_shm_case(rng.fork(("m", j))) for j in range(300)]
    for case in cases:
        try:
            obs = run_impl(case)
        except Exception:
            continue
        for key, what in oracle(case, obs):
            rep.violation(key, what, {"case": case, "observation": obs})
            hit = True
        if hit:
            break
    return hit


def shrink(case, fails):
    return case
