"""C12 -- batch and parallel execution is transparent: same results for any worker count.

Case kinds (all on the real lenskit code):
  seq    : invoker(model, f, n_jobs=1).map in this process, incl. a failing task at every position
  pool   : one process pool per case (own driver process: harness/c12_driver.py), several map calls on it
           (delays so that completion order differs from task order, duplicates, fewer/equal/more tasks than
           workers, a failing task at some position, optionally a worker that dies), then release checks
  shm    : shm_serialize / shm_deserialize of a model tree through a manager that rounds blocks up to a page
  batch  : lenskit.batch.{recommend,score,predict} against the single-query operations (n_jobs=1 in this
           process; n_jobs>1 through the driver), incl. a component failing for one key
"""

from __future__ import annotations

import json
import os
import subprocess
import tempfile

import common
from common import cbool, clist, cnat, copt, cstr, cz
from framework import TranslateError  # noqa: F401

PID = "C12"
PROPS_FILE = "Props/C12.v"
GEN_FILES = ["Gen/C12_shape.v"]
MODEL_FILES = ["Model/C12_shapes.v", "Model/C12_pool.v"]
ALLOWED_AXIOMS: list[str] = []
SHARD = 150
CASE_HEADER = ("From Coq Require Import ZArith List Bool String.\n"
               "From LK Require Import Model.C12_shapes Gen.C12_shape Model.C12_pool.\n"
               "Open Scope string_scope. Open Scope list_scope.")
TRUSTED = [
    "Coq 8.16.1 kernel + vm_compute (no native_compute); Print Assumptions of every theorem in Props/C12.v: closed under the global context",
    "extractor harness/translate/c12.py: the bodies of InProcessOpInvoker.map, ProcessPoolOpInvoker.{__init__,map,_task_iter,shutdown}, worker.{initalize,worker}, "
    "invoker, ModelOpInvoker.__exit__, SHMPickler._buffer_cb, shm_serialize, shm_deserialize, _run_pipeline, BatchPipelineRunner.run and BatchResults.add_result "
    "must be exactly the expected statements (fails closed otherwise)",
    "library contract (Section hypothesis of batch_is_sequential, discharged for the abstract pool by scheduler_order): Executor.map(fn, tasks) hands back fn(task) "
    "for every task in task order; the real scheduler is Python's concurrent.futures and is exercised, not verified",
    "pickle protocol 5 contract: pickle.loads(data, buffers=bs) rebuilds the object when bs are, in order, equal to the buffers the pickler passed to buffer_callback",
    "the correspondence harness: task outcomes and pipeline outputs are compared as codes of their canonical JSON; the interleaving replayed in the model is "
    "reconstructed from the worker pid of every result",
]
ASSUMPTIONS = [
    "task functions and models are picklable and deterministic; pipelines are trained before the batch run",
    "a worker process that dies (os._exit) is reported as BrokenProcessPool by the executor; which earlier results were already handed over is timing dependent "
    "(only checked to be a correct prefix)",
]
RULE = ("seq: 1-9 tasks, failing position anywhere or none; pool: n_jobs in {2,3,5,16} (quick) with task counts below / at / above the worker count, duplicate tasks, "
        "decreasing delays, a failing task at a chosen position, models holding ndarrays (incl. zero-length), dense, COO, CSR and CSC tensors whose content hash is "
        "computed inside the worker; shm: trees of 0-6 array payloads of 0-40 bytes, page sizes 1/64/4096; batch: 3 scorers x recommend/score/predict, id / dict / "
        "collection test data with 1-2 key fields (with or without user_id), duplicate keys, 0-6 keys, n_jobs 1 (and 2,3 through the driver), a component failing "
        "for one key; non-trivial = a pool case, or a map with >= 3 tasks, or a batch with >= 2 keys, or a tree with >= 2 payloads one of which is empty or padded; "
        "distinct = by hash of the case")

HARNESS = os.path.dirname(os.path.dirname(os.path.abspath(__file__)))


def translate():
    from translate import c12 as t
    from translate.pyq import TranslateError as TE
    try:
        return t.translate(common.SRC)
    except TE as e:
        raise TranslateError(str(e))


# ---------------------------------------------------------------------------------------------
# generators
# ---------------------------------------------------------------------------------------------

def gen_model(rng, rich):
    m = {"k": {"kind": "py", "value": rng.randint(0, 9)}}
    n = rng.randint(0, 3)
    for j in range(n):
        dt = rng.choice(["float64", "float32", "int32", "int64", "uint8"])
        ln = rng.weighted([(0, 1), (1, 1), (3, 2), (5, 2), (8, 1)])
        m[f"a{j}"] = {"kind": "nd", "dtype": dt, "shape": [ln], "data": [rng.randint(0, 100) for _ in range(ln)]}
    if rng.chance(1, 2):
        r, c = rng.randint(1, 3), rng.randint(1, 3)
        m["m2"] = {"kind": "nd", "dtype": "float64", "shape": [r, c], "data": [rng.randint(0, 9) for _ in range(r * c)]}
    if rich:
        for kind in rng.sample(["dense", "coo", "csr", "csc"], rng.randint(1, 4)):
            r, c = rng.randint(1, 3), rng.randint(2, 4)
            data = [rng.choice([0, 0, 1, 2, 5]) for _ in range(r * c)]
            if not any(data):
                data[0] = 3
            m["t_" + kind] = {"kind": kind, "shape": [r, c], "data": [float(x) for x in data]}
        m["nest"] = [{"kind": "nd", "dtype": "uint8", "shape": [2], "data": [rng.randint(0, 255), 7]}, {"kind": "py", "value": "s"}]
    return m


FAIL_KINDS = ["TaskFailure", "StopIteration", "KeyError", "ValueError", "HardStop"]


def gen_tasks(rng, n, fail_at=None, delays=False, dup=False, kill_at=None, fail_kind=None):
    ts = []
    for i in range(n):
        t = {"id": i, "x": rng.randint(0, 50)}
        if delays:
            t["delay_ms"] = max(0, (n - i) * rng.choice([0, 5, 15, 30]))
        if i == fail_at:
            t["fail"] = fail_kind or rng.choice(FAIL_KINDS)
        if i == kill_at:
            t["kill"] = True
        ts.append(t)
    if dup and n >= 2:
        j = rng.below(n - 1)
        ts[-1] = dict(ts[j])
    return ts


def gen_seq_case(rng):
    n = rng.weighted([(0, 1), (1, 2), (2, 2), (3, 3), (5, 3), (9, 1)])
    fail_at = rng.below(n) if n and rng.chance(1, 2) else None
    maps = [gen_tasks(rng, n, fail_at, dup=rng.chance(1, 3))]
    if rng.chance(1, 2):                     # a failure of every class somewhere in a second map
        m = rng.randint(1, 6)
        maps.append(gen_tasks(rng, m, fail_at=rng.below(m), fail_kind=FAIL_KINDS[rng.below(len(FAIL_KINDS))]))
    return {"kind": "seq", "n_jobs": 1, "model": gen_model(rng, rng.chance(1, 3)), "maps": maps}


def gen_pool_case(rng, n_jobs, kill=False):
    maps = [gen_tasks(rng, n_jobs + rng.randint(1, 4), delays=True, dup=True),              # more tasks than workers, slow first
            gen_tasks(rng, n_jobs, delays=rng.chance(1, 2)),                                   # as many as workers
            gen_tasks(rng, max(1, n_jobs - 1 - rng.below(2)), dup=n_jobs > 2),                 # fewer
            []]
    nfail = n_jobs + rng.randint(0, 3)
    maps.append(gen_tasks(rng, nfail, fail_at=rng.below(nfail), delays=rng.chance(1, 2)))  # a failing task somewhere
    maps.append(gen_tasks(rng, 3, fail_at=0))
    maps.append(gen_tasks(rng, rng.randint(2, 5)))                                             # the pool still works afterwards
    for fk in rng.sample(FAIL_KINDS[1:], 2):                                                  # other exception classes
        m = rng.randint(2, n_jobs + 2)
        maps.append(gen_tasks(rng, m, fail_at=rng.below(m), fail_kind=fk))
    if kill:
        nk = n_jobs + 2
        maps.append(gen_tasks(rng, nk, kill_at=rng.below(nk), delays=True))
    # the last map fails while slow tasks are still running, and the error unwinds through the with-block
    ne = n_jobs + 3
    exit_map = [{"id": i, "x": i, "delay_ms": 300} for i in range(ne)]
    bad = rng.below(2)
    exit_map[bad] = {"id": bad, "x": bad, "fail": rng.choice(FAIL_KINDS[:4])}
    return {"kind": "pool", "n_jobs": n_jobs, "model": gen_model(rng, True), "maps": maps, "exit_map": exit_map}


def gen_shm_case(rng):
    leaves = []
    for _ in range(rng.weighted([(0, 1), (1, 2), (2, 3), (4, 2), (6, 1)])):
        if rng.chance(1, 4):
            leaves.append({"kind": "py", "value": rng.randint(-5, 5)})
        else:
            dt = rng.choice(["uint8", "int16", "int32", "float32", "float64"])
            ln = rng.weighted([(0, 2), (1, 2), (2, 2), (3, 2), (5, 1)])
            leaves.append({"kind": "nd", "dtype": dt, "shape": [ln], "data": [rng.randint(0, 100) for _ in range(ln)]})
    nest = rng.chance(1, 2)
    return {"kind": "shm", "leaves": leaves, "nest": nest, "page": rng.choice([1, 64, 4096])}


def gen_ratings(rng):
    users = list(range(1, rng.randint(4, 8)))
    items = list(range(10, rng.randint(16, 22)))
    rows = []
    for u in users:
        for i in rng.sample(items, rng.randint(2, min(6, len(items)))):
            rows.append([u, i, rng.randint(1, 10)])
    return rows, users, items


def gen_batch_case(rng, n_jobs=1):
    rows, users, items = gen_ratings(rng)
    op = rng.choice(["recommend", "score", "predict"])
    ops = None
    if rng.chance(1, 2):                      # several invocations on one runner, in every order
        ops = rng.shuffle(["recommend", "score", "predict"])[: rng.randint(2, 3)]
        op = ops[0]
    scorer = rng.choice(["pop", "bias", "iknn"])
    nk = rng.weighted([(0, 1), (1, 2), (2, 3), (3, 3), (4, 2), (6, 1)])
    keyusers = [rng.choice(users + [99]) for _ in range(nk)]                 # duplicates and an unknown user
    if ops:
        form = rng.choice(["dict", "coll", "coll", "coll", "ids"])           # with and without items in the test data
    elif op == "recommend":
        form = rng.choice(["ids", "ids", "coll"])
    else:
        form = rng.choice(["dict", "coll", "coll"])
    if form == "dict":
        keyusers = list(dict.fromkeys(keyusers))
    key_fields = ["user_id"]
    keys = [[u] for u in keyusers]
    if form == "coll":
        schema = rng.choice(["u", "u+seq", "seq+u", "seq"])
        if schema == "u+seq":
            key_fields, keys = ["user_id", "seq"], [[u, rng.randint(1, 3)] for u in keyusers]
        elif schema == "seq+u":
            key_fields, keys = ["seq", "user_id"], [[rng.randint(1, 3), u] for u in keyusers]
        elif schema == "seq":
            key_fields, keys = ["seq"], [[j + 1] for j in range(len(keyusers))]
    its = [rng.sample(items + [77], rng.randint(0, 4)) for _ in keys]
    case = {"kind": "batch", "mode": "batch", "n_jobs": n_jobs, "ratings": rows, "scorer": scorer, "op": op, "form": form, "key_fields": key_fields,
            "keys": keys, "items": None if form == "ids" else its, "n": rng.choice([None, 2, 3]) if (ops or op == "recommend") else None,
            "pipe_n": rng.choice([None, 4]), "fail_user": None, "fail_exc": None, "ops": ops}
    if keys and "user_id" in key_fields and rng.chance(1, 4):
        case["fail_user"] = keys[rng.below(len(keys))][key_fields.index("user_id")]
        case["fail_exc"] = rng.choice(["QueryFailure", "StopIteration", "KeyError"])
    return case


def gen_cases(rng, tier):
    quick = tier == "quick"
    cases = []
    pools = [2, 3, 5, 16] if quick else [2, 3, 5, 16] * 10 + [2, 4, 7, 8]
    for j, nj in enumerate(pools):
        cases.append(gen_pool_case(rng.fork(("pool", j)), nj, kill=(j % 4 == 1)))
    for j in range(2 if quick else 16):
        cases.append(gen_batch_case(rng.fork(("bpool", j)), n_jobs=[2, 3, 5][j % 3]))
    for j in range(60 if quick else 600):
        cases.append(gen_seq_case(rng.fork(("seq", j))))
    for j in range(150 if quick else 2000):
        cases.append(gen_shm_case(rng.fork(("shm", j))))
    for j in range(60 if quick else 500):
        cases.append(gen_batch_case(rng.fork(("batch", j))))
    only = os.environ.get("C12_KINDS")           # development aid
    if only:
        cases = [c for c in cases if c["kind"] in only.split(",") and (c["kind"] != "batch" or c["n_jobs"] == 1 or "bpool" in only)]
    return cases


# ---------------------------------------------------------------------------------------------
# implementation drivers
# ---------------------------------------------------------------------------------------------

_ready = False


def _setup():
    global _ready
    if _ready:
        return
    common.use_repo()
    import structlog
    structlog.configure(wrapper_class=structlog.make_filtering_bound_logger(50))
    _ready = True


def _driver(spec, timeout=600):
    d = tempfile.mkdtemp(prefix="c12")
    try:
        sp, op = os.path.join(d, "spec.json"), os.path.join(d, "out.json")
        json.dump(spec, open(sp, "w"))
        p = subprocess.run([common.PY, os.path.join(HARNESS, "c12_driver.py"), sp, op], env=common.base_env(), capture_output=True, text=True, timeout=timeout)
        if p.returncode != 0 or not os.path.exists(op):
            raise RuntimeError(f"pool driver failed ({p.returncode}): {p.stderr[-1200:]}")
        return json.load(open(op))
    finally:
        import shutil
        shutil.rmtree(d, ignore_errors=True)


def _expected(case):
    """f(model, x) for every task, computed here, in order: the single-task operation"""
    import c12_tasks
    model = c12_tasks.build_payload(case["model"])
    dg = c12_tasks.digest(model)
    return [[None if (t.get("fail") or t.get("kill")) else c12_tasks.value_of(model, t, dg) for t in tasks] for tasks in case["maps"]]


def run_seq(case):
    import c12_tasks
    from lenskit.parallel import invoker
    model = c12_tasks.build_payload(case["model"])
    out = {"maps": []}
    with invoker(model, c12_tasks.task, n_jobs=1) as inv:
        out["invoker"] = type(inv).__name__
        for tasks in case["maps"]:
            got, err = [], None
            try:
                for r in inv.map(iter(tasks)):
                    got.append(r)
            except BaseException as e:
                err = type(e).__name__
            out["maps"].append({"results": got, "error": err})
    out["released"] = not hasattr(inv, "model")
    out["expected"] = _expected(case)
    return json.loads(json.dumps(out))


def run_pool(case):
    out = _driver({"mode": "invoker", "n_jobs": case["n_jobs"], "model": case["model"], "maps": case["maps"], "exit_map": case.get("exit_map")})
    out["expected"] = json.loads(json.dumps(_expected(case)))
    return out


class PadMgr:
    def __init__(self, page):
        self.page, self.made = page, []

    def SharedMemory(self, size):
        from multiprocessing.shared_memory import SharedMemory
        s = SharedMemory(create=True, size=-(-size // self.page) * self.page)
        self.made.append(s)
        return s

    def close(self):
        for s in self.made:
            try:
                s.close()
                s.unlink()
            except Exception:
                pass


def _shm_payload(case):
    leaves = case["leaves"]
    if case["nest"]:
        return {"k": {"kind": "py", "value": 1}, "first": leaves[: len(leaves) // 2], "rest": {f"x{j}": l for j, l in enumerate(leaves[len(leaves) // 2:])}}
    return {f"x{j}": l for j, l in enumerate(leaves)}


def run_shm(case):
    import gc

    import c12_tasks
    from lenskit.parallel.serialize import shm_deserialize, shm_serialize
    obj = c12_tasks.build_payload(_shm_payload(case))
    mgr = PadMgr(case["page"])
    try:
        d = shm_serialize(obj, mgr)
        shapes = [[None if s is None else s.size, n] for s, n in d.buffers]
        try:
            back = shm_deserialize(d)
            same = c12_tasks.digest(back) == c12_tasks.digest(obj)
            err = None
            del back
        except Exception as e:
            same, err = False, type(e).__name__
        gc.collect()
        return {"shapes": shapes, "roundtrip_ok": same, "error": err}
    finally:
        mgr.close()


def run_batch(case):
    if case["n_jobs"] == 1:
        import c12_batch
        return json.loads(json.dumps(c12_batch.run(case)))
    return _driver(case)


def run_impl(case):
    _setup()
    return {"seq": run_seq, "pool": run_pool, "shm": run_shm, "batch": run_batch}[case["kind"]](case)


# ---------------------------------------------------------------------------------------------
# model side
# ---------------------------------------------------------------------------------------------

ERRCODE = {"TaskFailure": 0, "BrokenProcessPool": 2}


def _strip(r):
    return {k: r[k] for k in ("id", "x2", "digest")}


def _schedule(results, n_tasks):
    """An interleaving consistent with which worker ran which task: tasks are claimed in task order; a worker
    finishes its previous task before it claims the next; tasks without a known worker get a fresh one."""
    ev, busy = [], set()
    pid_of = {}
    for i in range(n_tasks):
        w = results[i]["pid"] if i < len(results) else None
        if w is None or w not in pid_of:
            pid_of[w if w is not None else ("anon", i)] = len(pid_of)
        wi = pid_of[w if w is not None else ("anon", i)]
        if wi in busy:
            ev.append(f"Finish {wi}")
        ev.append(f"Claim {wi}")
        busy.add(wi)
    for wi in sorted(busy, reverse=True):
        ev.append(f"Finish {wi}")
    return ev


def term_maps(case, obs):
    terms = []
    for tasks, m, exp in zip(case["maps"], obs["maps"], obs["expected"]):
        if any(t.get("kill") for t in tasks):
            continue                                   # which results were already handed over is timing dependent
        codes = {}

        def code(v):
            return codes.setdefault(json.dumps(v, sort_keys=True), len(codes) + 1)
        tbl = ["(Err 0)" if e is None else f"(Ok {cnat(code(e))})" for e in exp]
        got = [codes.get(json.dumps(_strip(r), sort_keys=True), 999) for r in m["results"]]
        err = 0 if m["error"] is None else 1
        # results carry the worker pid; for a failing map the failed task and those after it have none
        sched = _schedule(m["results"] if m["error"] is None else m["results"] + [{"pid": None}] * (len(tasks) - len(m["results"])), len(tasks))
        terms.append(f"agree_map {cnat(case['n_jobs'])} [{'; '.join(tbl)}] {clist(list(range(len(tasks))), cnat)} "
                     f"[{'; '.join(sched)}] {clist(got, cnat)} {cnat(err)}")
    return "(" + " && ".join(terms or ["true"]) + ")"


def _bytes_of(leaf):
    import numpy as np
    return np.array(leaf["data"], dtype=np.dtype(leaf["dtype"])).reshape(leaf["shape"]).tobytes()


def _tree(spec):
    if isinstance(spec, list):
        return "(TNode [" + "; ".join(_tree(s) for s in spec) + "])"
    k = spec.get("kind")
    if k is None:
        return "(TNode [" + "; ".join(_tree(s) for s in spec.values()) + "])"
    if k == "py":
        return f"(TAtom {cz(int(spec['value']))})"
    return "(TBuf " + clist(list(_bytes_of(spec)), cnat) + ")"


def term_shm(case, obs):
    pads = [0 if s is None else s - n for s, n in obs["shapes"]]
    shapes = clist(obs["shapes"], lambda sn: f"({copt(sn[0], cnat)}, {cnat(sn[1])})")
    # the pad of the i-th *buffer* is looked up by the model's running buffer number, which also counts empty ones
    return f"agree_shm {_tree(_shm_payload(case))} {clist(pads, cnat)} {shapes} {cbool(obs['roundtrip_ok'])}"


NODE = {"recommend": "recommender", "score": "scorer", "predict": "rating-predictor"}
ONAME = {"recommend": "recommendations", "score": "scores", "predict": "predictions"}


def _ops(case):
    return case.get("ops") or [case["op"]]


def term_batch(case, obs):
    codes = {}

    def code(v):
        return codes.setdefault(json.dumps(v, sort_keys=True), len(codes) + 1)
    kf = case["key_fields"]
    ops = _ops(case)
    # the pipeline as a table: (node, query, items) -> output code; items are identified by the request number
    reqs, table = [], []
    for j, k in enumerate(case["keys"]):
        items_code = 1000 + j
        key = clist(list(zip(kf, k)), lambda fv: f"({cstr(fv[0])}, {cnat(fv[1])})")
        reqs.append(f"({key}, {cnat(items_code)})")
        q = k[kf.index("user_id")] if "user_id" in kf else None
        for op in ops:
            sres = obs["single"][ONAME[op]][j]
            out = "(Err 3)" if (sres is not None and "error" in sres) else f"(Ok [({cstr(NODE[op])}, {cnat(code(sres))})])"
            table.append(f"(({cstr(NODE[op])}, {copt(q, cnat)}, {copt(items_code if op != 'recommend' else None, cnat)}), {out})")
    run_all = (f"(fun (nodes : list string) (inp : list (string * nat)) => match nodes with [nd] => "
               f"match find (fun e => String.eqb (fst (fst (fst e))) nd && onat_eqb (snd (fst (fst e))) (alookup \"query\" inp) "
               f"&& onat_eqb (snd (fst e)) (alookup \"items\" inp)) "
               f"[{'; '.join(table)}] with Some e => snd e | None => Err 9 end | _ => Err 8 end)")
    invs = []
    for op in ops:
        extra = f"[({cstr('n')}, {cnat(4000 + (case['n'] or 0))})]" if op == "recommend" else "[]"
        invs.append(f"(mkInv {cbool(op != 'recommend')} {extra} [({cstr(NODE[op])}, {cstr(ONAME[op])})])")
    if obs["error"]:
        want = "None"
    else:
        outs = []
        for name, col in obs["outputs"]:
            rows = clist(list(zip(col["keys"], col["lists"])), lambda kl: f"({clist(list(zip(col['key_fields'], kl[0])), lambda fv: f'({cstr(fv[0])}, {cnat(fv[1])})')}, {cnat(codes.get(json.dumps(kl[1], sort_keys=True), 999))})")
            outs.append(f"({cstr(name)}, {rows})")
        want = f"(Some [{'; '.join(outs)}])"
    sched = "[" + "; ".join(["Claim 0; Finish 0"] * len(case["keys"])) + "]" if case["keys"] else "[]"
    return (f"agree_batch {cnat(case['n_jobs'])} {run_all} [{'; '.join(invs)}] [{'; '.join(reqs)}] {sched} {want}")


def coq_term(case, obs):
    k = case["kind"]
    if k in ("seq", "pool"):
        return term_maps(case, obs)
    if k == "shm":
        return term_shm(case, obs)
    return term_batch(case, obs)


# ---------------------------------------------------------------------------------------------
# the property as a predicate on implementation output (independent of the Coq model)
# ---------------------------------------------------------------------------------------------

def oracle_maps(case, obs):
    v = []
    for mi, (tasks, m, exp) in enumerate(zip(case["maps"], obs["maps"], obs["expected"])):
        bad = next((i for i, t in enumerate(tasks) if t.get("fail") or t.get("kill")), None)
        got = [_strip(r) for r in m["results"]]
        if bad is None:
            if m["error"] is not None:
                v.append((f"{case['kind']}:spurious-error", f"map {mi} raised {m['error']} although no task fails"))
            elif got != exp:
                what = "count" if len(got) != len(exp) else ("order" if sorted(map(json.dumps, got)) == sorted(map(json.dumps, exp)) else "value")
                v.append((f"{case['kind']}:map-{what}", f"map {mi} with n_jobs={case['n_jobs']}: results differ from f(model, x) in task order ({what}): "
                          f"ids {[r['id'] for r in got]} for tasks {[t['id'] for t in tasks]}"))
        else:
            if m["error"] is None:
                v.append((f"{case['kind']}:failure-swallowed", f"map {mi}: task {bad} fails but the map completed with {len(got)} results"))
            elif got != exp[: len(got)] or len(got) > bad:
                v.append((f"{case['kind']}:failure-misattributed", f"map {mi}: results handed over before the error are not f(model, x) of the tasks before the failing one"))
            elif not any(t.get("kill") for t in tasks) and len(got) != bad:
                v.append((f"{case['kind']}:failure-position", f"map {mi}: {len(got)} results were handed over before the error of task {bad}"))
    if case["kind"] == "pool":
        a = obs["after"]
        ex = obs.get("exit")
        if ex is not None:
            bad = next(i for i, t in enumerate(case["exit_map"]) if t.get("fail"))
            if ex["error"] is None:
                v.append(("pool:failure-swallowed", f"the failing task {bad} of the last map did not surface as an error"))
            elif len(ex["results"]) > bad:
                v.append(("pool:failure-misattributed", "results were handed over past the failing task of the last map"))
        if a["children"] or a["shm_left"]:
            how = "after a task failure unwound through the with-block (other tasks still running)" if ex is not None else "after the with-block"
            v.append(("pool:not-released", f"{how}: {a['children']} child processes are alive and shared-memory segments {a['shm_left']} remain "
                      "when control returns to the caller"))
        if obs["invoker"] != "ProcessPoolOpInvoker":
            v.append(("pool:wrong-invoker", f"n_jobs={case['n_jobs']} gave {obs['invoker']}"))
    elif not obs.get("released", True):
        v.append(("seq:not-released", "the in-process invoker still holds the model after the with-block"))
    return v


def oracle_shm(case, obs):
    v = []
    leaves = [l for l in case["leaves"] if l.get("kind") == "nd"]
    want = [len(_bytes_of(l)) for l in leaves]
    if [n for _, n in obs["shapes"]] != want:
        v.append(("shm:buffer-lengths", f"recorded payload lengths {[n for _, n in obs['shapes']]} differ from the arrays' {want}"))
    if not obs["roundtrip_ok"]:
        v.append(("shm:roundtrip", f"shm_deserialize(shm_serialize(model)) differs from the model (page {case['page']}, error {obs['error']})"))
    return v


def oracle_batch(case, obs):
    v = []
    tag = "batch" if case["n_jobs"] == 1 else "batch-pool"
    ops = _ops(case)
    failing = [s for op in ops for s in obs["single"][ONAME[op]] if s is not None and "error" in s]
    if case["n_jobs"] > 1:
        a = obs["after"]
        if a["children"] or a["shm_left"]:
            v.append(("batch-pool:not-released", f"after the batch run {a['children']} child processes and segments {a['shm_left']} remain"))
    if failing:
        if obs["error"] is None:
            got = {name: len(col["keys"]) for name, col in obs["outputs"]}
            v.append((f"{tag}:failure-swallowed", f"the single-query operation fails ({failing[0]['error']}) for some key but the batch run returned normally "
                      f"with {got} results for {len(case['keys'])} keys"))
        return v
    if obs["error"]:
        v.append((f"{tag}:spurious-error", f"batch {'+'.join(ops)} raised {obs['error']}: {obs.get('msg')}"))
        return v
    names = [name for name, _ in obs["outputs"]]
    if names != [ONAME[op] for op in ops]:
        v.append((f"{tag}:outputs", f"outputs {names} for invocations {ops}"))
        return v
    for op, (name, col) in zip(ops, obs["outputs"]):
        single = obs["single"][name]
        if col["key_fields"] != case["key_fields"]:
            v.append((f"{tag}:key-fields", f"{name}: key fields {case['key_fields']} came back as {col['key_fields']}"))
        if col["keys"] != case["keys"]:
            v.append((f"{tag}:keys", f"{name}: keys {case['keys']} came back as {col['keys']} (one per input key, input order, duplicates kept)"))
        elif col["lists"] != single:
            j = next(i for i, (x, y) in enumerate(zip(col["lists"], single)) if x != y)
            v.append((f"{tag}:value:{op}" + ("" if len(ops) == 1 else ":multi-invocation"),
                      f"invocations {ops}: {name} for key {case['keys'][j]} differs from the single-query {op}: {col['lists'][j]} vs {single[j]}"))
    return v


def oracle(case, obs):
    k = case["kind"]
    return oracle_maps(case, obs) if k in ("seq", "pool") else oracle_shm(case, obs) if k == "shm" else oracle_batch(case, obs)


def nontrivial(case, obs):
    k = case["kind"]
    if k == "pool":
        return True
    if k == "seq":
        return any(len(t) >= 3 for t in case["maps"])
    if k == "shm":
        return len(obs["shapes"]) >= 2 and any(s is None or s > n for s, n in obs["shapes"])
    return len(case["keys"]) >= 2


def counters(case, obs):
    k = case["kind"]
    yield "kind=" + k
    if k in ("seq", "pool"):
        yield f"{k}:n_jobs={case['n_jobs']}"
        for tasks, m in zip(case["maps"], obs["maps"]):
            rel = "none" if not tasks else "below" if len(tasks) < case["n_jobs"] else "at" if len(tasks) == case["n_jobs"] else "above"
            yield f"{k}:tasks-vs-workers={rel}"
            yield f"{k}:map-result={m['error'] or 'ok'}"
            for t in tasks:
                if t.get("fail"):
                    yield f"{k}:failure-class={t['fail']}"
            if len({json.dumps({a: b for a, b in t.items() if a != 'delay_ms'}, sort_keys=True) for t in tasks}) < len(tasks):
                yield f"{k}:duplicate-tasks"
            if m["error"] is None and len({r["pid"] for r in m["results"]}) > 1:
                yield f"{k}:map-used-several-workers"
            if m["error"] is None and [r["t1"] for r in m["results"]] != sorted(r["t1"] for r in m["results"]):
                yield f"{k}:completion-order-differs-from-task-order"
        for name, s in case["model"].items():
            if isinstance(s, dict) and s.get("kind") not in (None, "py"):
                yield f"{k}:payload={s['kind']}"
    elif k == "shm":
        yield "shm:page=" + str(case["page"])
        yield "shm:buffers=" + str(min(len(obs["shapes"]), 5))
        if any(s is None for s, _ in obs["shapes"]):
            yield "shm:zero-length-buffer"
        if any(s is not None and s > n for s, n in obs["shapes"]):
            yield "shm:block-longer-than-payload"
    else:
        yield f"batch:n_jobs={case['n_jobs']}"
        yield "batch:ops=" + "+".join(_ops(case))
        yield "batch:form=" + case["form"] + "/" + "+".join(case["key_fields"])
        yield "batch:keys=" + str(min(len(case["keys"]), 5))
        yield "batch:result=" + (obs["error"] or "ok")
        if len({tuple(x) for x in case["keys"]}) < len(case["keys"]):
            yield "batch:duplicate-keys"
        if case["fail_user"] is not None:
            yield "batch:failing-component=" + str(case.get("fail_exc"))


def sample(case, obs):
    s = json.dumps({"case": case, "observation": obs}, default=str)
    return json.loads(s) if len(s) < 5000 else {"case_kind": case["kind"], "n_jobs": case.get("n_jobs"), "note": "sample too large", "size": len(s)}


SEARCH_CASES = 0          # the generic fallback would run the thorough tier's pools; `search` below is used instead


def search(rng, rep):
    """Called when an obligation is broken and no generated case failed: thorough-tier cases of the cheap kinds."""
    _setup()
    hit = False
    cases = [gen_seq_case(rng.fork(("s", j))) for j in range(200)] + [gen_batch_case(rng.fork(("b", j))) for j in range(200)] \
        + [gen_shm_case(rng.fork(("m", j))) for j in range(300)]
    for case in cases:
        try:
            obs = run_impl(case)
        except Exception:
            continue
        for key, what in oracle(case, obs):
            rep.violation(key, what, {"case": case, "observation": obs})
            hit = True
        if hit:
            break
    return hit


def shrink(case, fails):
    return case
