"""C06 -- ranking metrics equal their definitions (DESIGN.md section 4, C06)."""

from __future__ import annotations

import math
from fractions import Fraction

import common
from common import cbool, clist, cnat, copt, cq, cz, fjson, fparse, frac_of_float
from framework import TranslateError  # noqa: F401

PID = "C06"
PROPS_FILE = "Props/C06.v"
GEN_FILES = ["Gen/C06_metrics.v"]
MODEL_FILES = ["Model/C06_ranking.v"]
MODEL_INDEPENDENT_OF_GEN = True      # the case files evaluate the hand-written reference model
ALLOWED_AXIOMS: list[str] = []
CASE_HEADER = ("From Coq Require Import ZArith QArith.\nFrom LK Require Import Lib.QLib Model.C06_ranking.\n"
               "Open Scope Q_scope.")
SHARD = 60
TRUSTED = [
    "Coq 8.16.1 kernel + vm_compute (no native_compute); Print Assumptions of every theorem in Props/C06.v: closed under the global context",
    "translator harness/translate/c06.py (+ pyq.py helpers): Python ast -> Gallina for RankingMetricBase.truncate, every "
    "measure_list of Hit/Precision/Recall/RecipRank/RBP/DCG/NDCG/MeanPopRank, array_dcg, fixed_dcg; the NumPy/pandas vocabulary it "
    "maps to (Model/C06_ranking.v part 1: np.isin, mask sum/any/nonzero, np.power, np.arange, mask indexing, slices, np.maximum, "
    "np.reciprocal, np.dot, np.sum, Series.reindex/nlargest/sort_values/mean) is a hand-written contract",
    "modelling assumptions written into the translation: np.require(x, float32) and np.nan_to_num are the identity (gains finite "
    "and float32-representable; the harness uses tolerance 2^-20 where a gain is not), NumPy scalar division never raises",
    "hand-written reference model (Model/C06_ranking.v part 2, proved equal to the generated functions in Proofs/C06_gen.v) tied to the "
    "running code by correspondence cases evaluated inside Coq on exact rationals (tolerance 2^-40 relative for float64 results)",
    "MeanPopRank.__init__ (pandas rank(method='average')) is modelled by hand (quantile), its statement order is pattern-checked by the "
    "translator; item_stats counts are recomputed by the harness from the generated interactions",
    "NumPy / pandas / ItemList / Dataset internals are exercised, not verified; the discount function is tabulated by calling it",
]
ASSUMPTIONS = [
    "recommendation lists and test lists have distinct item ids (pandas reindex rejects duplicate test ids)",
    "gains are finite and non-negative; patience lies in [0, 1] for the consequence theorems",
    "consequence theorems (unit interval, swap) assume the clamped discount max(d(r), 1) is non-decreasing; the definitional equalities hold for every discount",
    "k >= 1 or None (k = 0 is modelled and compared but the property makes no claim about it)",
]
RULE = ("structured generator: ordered recommendation list of 0-14 ids and a test list of 0-9 ids from a pool of 18 "
        "(relations: empty truth, disjoint, overlapping, containing, ideal order), optional graded gains (half steps with ties and "
        "zeros, or float32-inexact values), cutoff k from {none, 1..16} placed below, between and above the two lengths (0 rarely), "
        "patience from dyadic values, the default 0.85, 0 and 1, discounts log2 (default), ln, rank (integer-valued), sqrt, a persistent "
        "table view and a non-monotone one; integer or string ids; a small interaction data set for MeanPopRank; malformed stream: "
        "unordered lists with a cutoff, graded metrics without a gain field.  Every case measures 11-13 metric instances.  "
        "non-trivial = ordered list of >= 3 recommendations with at least one relevant and one irrelevant item, >= 2 test items, "
        "no error outcome; distinct = by hash of the case")

POOL = list(range(1, 19))
DYADIC_PATIENCE = ["1/2", "3/4", "7/8", "1/4", "15/16"]


# ---------------------------------------------------------------------------------------------
# translation (tie A)
# ---------------------------------------------------------------------------------------------

def translate():
    from translate import c06 as t
    from translate.pyq import TranslateError as TE
    try:
        return t.translate(common.SRC)
    except TE as e:
        raise TranslateError(str(e))


# ---------------------------------------------------------------------------------------------
# generator
# ---------------------------------------------------------------------------------------------

def gen_case(rng, malformed=False, big=False):
    relation = rng.weighted([("overlap", 8), ("empty-test", 1), ("disjoint", 2), ("contains", 2), ("ideal", 2), ("empty-recs", 1)])
    maxr = 22 if big else 14
    nrec = 0 if relation == "empty-recs" else rng.randint(1, maxr) if rng.chance(1, 4) else rng.randint(3, 8)
    ntest = 0 if relation == "empty-test" else rng.randint(1, 9) if rng.chance(1, 3) else rng.randint(2, 5)
    pool = rng.shuffle(POOL + (list(range(19, 40)) if big else []))
    if relation == "disjoint":
        recs, test_ids = pool[:nrec], pool[nrec:nrec + ntest]
    elif relation == "contains":
        recs = pool[:nrec]
        test_ids = rng.shuffle(recs + pool[nrec:nrec + rng.randint(0, 3)])
    elif relation == "ideal":
        test_ids = pool[:ntest]
        recs = list(test_ids) + pool[ntest:ntest + rng.randint(0, 3)]
    else:
        recs = pool[:nrec]
        test_ids = rng.sample(pool[: nrec + 4], min(ntest, nrec + 4)) if nrec else pool[:ntest]
    recs = recs[:maxr]
    gstyle = rng.weighted([("half", 5), ("binaryish", 2), ("inexact", 1), ("allzero", 1)])
    gains = []
    for _ in test_ids:
        if gstyle == "half":
            gains.append(fjson(Fraction(rng.randint(0, 8), 2)))
        elif gstyle == "binaryish":
            gains.append(fjson(Fraction(rng.choice([0, 1, 1, 2]))))
        elif gstyle == "inexact":
            gains.append(fjson(frac_of_float(rng.choice([0.1, 0.3, 1 / 3, 2.7, 4.9, 0.7]) * rng.randint(1, 3))))
        else:
            gains.append("0/1")
    if relation == "ideal":
        order = sorted(range(len(test_ids)), key=lambda j: -fparse(gains[j]))
        recs = [test_ids[j] for j in order] + recs[len(test_ids):]
    has_gain = True
    ordered = True
    if malformed:
        which = rng.choice(["unordered", "nogain", "both"])
        ordered = which == "nogain"
        has_gain = which == "unordered"
    lens = sorted({len(recs), len(test_ids)})
    kopts = [(None, 3), (1, 1), (2, 1), (3, 1), (5, 1), (16, 1)]
    lo, hi = lens[0], lens[-1]
    if hi - lo >= 2:
        kopts.append((rng.randint(lo + 1, hi - 1), 4))       # between the two lengths
    if lo >= 2:
        kopts.append((rng.randint(1, lo - 1), 3))            # below both
    kopts.append((hi + rng.randint(0, 2), 2))                # at or above both
    if malformed or rng.chance(1, 40):
        kopts.append((0, 1))
    k = rng.weighted(kopts)
    if malformed and not ordered and k is None and rng.chance(2, 3):
        k = rng.randint(1, 6)
    pat = rng.weighted([(None, 2), ("dyadic", 6), ("0/1", 1), ("1/1", 1)])
    if pat == "dyadic":
        pat = rng.choice(DYADIC_PATIENCE)
    if pat is None and len(recs) > 9:
        pat = rng.choice(DYADIC_PATIENCE)       # keeps the exact powers of the 53-bit default small
    disc = rng.weighted([("log2", 5), ("ln", 2), ("rank", 2), ("sqrt", 1), ("table", 2), ("nonmono", 1)])
    case = {
        "recs": recs, "ordered": ordered, "test": [[i, g] for i, g in zip(test_ids, gains)], "has_gain": has_gain,
        "k": k, "patience": pat, "discount": disc, "idkind": rng.weighted([("int", 3), ("str", 1)]),
        "relation": relation, "gstyle": gstyle, "malformed": malformed,
    }
    if case["idkind"] == "int" and rng.chance(1, 3):
        nu = rng.randint(1, 6)
        items = rng.sample(POOL, rng.randint(1, 10))
        inter = []
        for it in items:
            for u in rng.sample(list(range(1, nu + 1)), rng.randint(1, nu)):
                inter.append([u, it])
        case["pop"] = {"inter": inter, "extra": rng.sample([i for i in POOL if i not in items], rng.randint(0, 3)),
                       "count": rng.choice(["users", "interactions"])}
    # a swap candidate for the metamorphic check: an earlier item with no more gain than a later one
    tg = {i: fparse(g) for i, g in case["test"]}
    pairs = [(p, q) for p in range(len(recs)) for q in range(p + 1, len(recs))
             if recs[p] not in tg and recs[q] in tg]
    case["swap"] = list(rng.choice(pairs)) if pairs else None
    return case


def gen_cases(rng, tier):
    n = 900 if tier == "quick" else 9000
    out = []
    for j in range(n):
        out.append(gen_case(rng.fork(j), malformed=(j % 10 == 9), big=(tier != "quick" and j % 7 == 3)))
    return out


# ---------------------------------------------------------------------------------------------
# metric instances of a case
# ---------------------------------------------------------------------------------------------

def metric_specs(case):
    ms = [{"m": "hit"}, {"m": "precision"}, {"m": "recall"}, {"m": "recip"},
          {"m": "rbp", "norm": False}, {"m": "rbp", "norm": True},
          {"m": "dcg", "graded": False}, {"m": "dcg", "graded": True},
          {"m": "ndcg", "graded": False}, {"m": "ndcg", "graded": True}]
    if case["patience"] is None:
        ms.append({"m": "rbp", "norm": True, "explicit_default": True})     # RBP(patience=0.85) spelled out
    if "pop" in case:
        ms.append({"m": "pop"})
    return ms


def mkey(s):
    if s["m"] == "rbp":
        return "rbp-norm" if s["norm"] else "rbp"
    if s["m"] in ("dcg", "ndcg"):
        return s["m"] + ("-graded" if s["graded"] else "-binary")
    return s["m"]


# ---------------------------------------------------------------------------------------------
# implementation driver
# ---------------------------------------------------------------------------------------------

_ready = False
_TABLE = None


def _setup():
    global _ready, np, pd, ItemList, R, DatasetBuilder, _TABLE
    if _ready:
        return
    common.use_repo()
    import numpy as np
    import pandas as pd
    from lenskit.data import DatasetBuilder, ItemList
    from lenskit.metrics import ranking as R
    _TABLE = np.log2(np.arange(1, 65)) + 0.5
    _ready = True


def _discount(kind):
    if kind == "log2":
        return None
    if kind == "ln":
        return np.log
    if kind == "rank":
        return lambda r: r                      # integer-valued
    if kind == "sqrt":
        return np.sqrt
    if kind == "table":
        return lambda r: _TABLE[: len(r)]       # a view of a persistent table
    if kind == "nonmono":
        return lambda r: 1.0 + (r % 3) * 0.75
    raise ValueError(kind)


def _ids(ids, kind):
    if kind == "str":
        return np.array([f"i{i:03d}" for i in ids], dtype=object if not ids else None)
    return np.array(ids, dtype=np.int64)


def _recs(ids, case, ordered=None):
    return ItemList(item_ids=_ids(ids, case["idkind"]), ordered=case["ordered"] if ordered is None else ordered)


def _test(case):
    ids = [i for i, _ in case["test"]]
    if case["has_gain"]:
        return ItemList(item_ids=_ids(ids, case["idkind"]), rating=np.array([float(fparse(g)) for _, g in case["test"]], dtype=np.float64))
    return ItemList(item_ids=_ids(ids, case["idkind"]))


def _instances(case):
    k = case["k"]
    pat = {} if case["patience"] is None else {"patience": float(fparse(case["patience"]))}
    d = _discount(case["discount"])
    dk = {} if d is None else {"discount": d}
    out = []
    for s in metric_specs(case):
        m = s["m"]
        if m == "hit":
            out.append(R.Hit(k))
        elif m == "precision":
            out.append(R.Precision(k))
        elif m == "recall":
            out.append(R.Recall(k))
        elif m == "recip":
            out.append(R.RecipRank(k))
        elif m == "rbp":
            if s.get("explicit_default"):
                out.append(R.RBP(k, patience=0.85, normalize=True))
            else:
                out.append(R.RBP(k, normalize=s["norm"], **pat))
        elif m == "dcg":
            out.append(R.DCG(k, gain="rating" if s["graded"] else None, **dk))
        elif m == "ndcg":
            out.append(R.NDCG(k, gain="rating" if s["graded"] else None, **dk))
        elif m == "pop":
            p = case["pop"]
            b = DatasetBuilder()
            df = pd.DataFrame({"user_id": [u for u, _ in p["inter"]], "item_id": [i for _, i in p["inter"]]})
            b.add_interactions("click", df, entities=["user", "item"], missing="insert", default=True)
            if p["extra"]:
                b.add_entities("item", list(p["extra"]))
            out.append(R.MeanPopRank(b.build(), k, count=p["count"]))
    return out


def _measure(m, recs, test):
    try:
        v = m.measure_list(recs, test)
    except ValueError:
        return [1, None]
    except KeyError:
        return [2, None]
    except Exception as e:  # anything else is reported, not hidden
        return [9, type(e).__name__]
    return [0, fjson(frac_of_float(v))]


def ideal_order(case):
    t = sorted(case["test"], key=lambda ig: -fparse(ig[1]))
    return [i for i, _ in t]


def run_impl(case):
    _setup()
    test = _test(case)
    ms = _instances(case)
    recs = _recs(case["recs"], case)
    obs = {"vals": [_measure(m, recs, test) for m in ms]}
    # the same call again (a metric must not depend on how often it was evaluated)
    obs["again"] = [_measure(m, recs, test) for m in ms]
    # metamorphic observations for the oracle
    if case["test"]:
        extra = [i for i in POOL if i not in {j for j, _ in case["test"]}][:2]
        ideal = _recs(ideal_order(case) + extra, case, ordered=True)
        obs["ideal"] = [_measure(m, ideal, test) for m in ms]
    if case["swap"]:
        p, q = case["swap"]
        sw = list(case["recs"])
        sw[p], sw[q] = sw[q], sw[p]
        obs["swapped"] = [_measure(m, _recs(sw, case), test) for m in ms]
    # the discount as the configured function evaluates it
    n = max(len(case["recs"]), len(case["test"]), 1) + 3
    d = _discount(case["discount"])
    vals = (np.log2 if d is None else d)(np.arange(1, n + 1))
    obs["disc"] = [fjson(Fraction(int(v)) if isinstance(v, (int, np.integer)) else frac_of_float(v)) for v in list(vals)]
    if "pop" in case:
        st = ms[-1].item_ranks
        obs["item_ranks"] = sorted([int(i), fjson(frac_of_float(v))] for i, v in st.items())
    return obs


# ---------------------------------------------------------------------------------------------
# model side
# ---------------------------------------------------------------------------------------------

def pop_counts(case):
    p = case["pop"]
    cnt = {}
    for u, i in p["inter"]:
        cnt.setdefault(i, set()).add(u)
    out = [[i, len(us)] for i, us in cnt.items()] + [[i, 0] for i in p["extra"]]
    return sorted(out)


def patience_q(case, s):
    if s.get("explicit_default") or case["patience"] is None:
        return frac_of_float(0.85)
    return fparse(case["patience"])


def c_metric(case, s):
    m = s["m"]
    if m in ("hit", "precision", "recall", "recip"):
        return {"hit": "MHit", "precision": "MPrecision", "recall": "MRecall", "recip": "MRecip"}[m]
    if m == "rbp":
        return f"(MRBP {cq(patience_q(case, s))} {cbool(s['norm'])})"
    if m == "dcg":
        return f"(MDCG {cbool(s['graded'])})"
    if m == "ndcg":
        return f"(MNDCG {cbool(s['graded'])})"
    return "(MPop " + clist(pop_counts(case), lambda e: f"({cz(e[0])}, {cnat(e[1])})") + ")"


def inexact32(case):
    import struct
    for _, g in case["test"]:
        f = float(fparse(g))
        if struct.unpack("f", struct.pack("f", f))[0] != f:
            return True
    return False


def coq_term(case, obs):
    if any(e == 9 for e, _ in obs["vals"]):
        return "false"
    tol = "tol32" if inexact32(case) else "tol64"
    k = copt(case["k"], cnat)
    recs = f"{{| il_ordered := {cbool(case['ordered'])}; il_ids := {clist(case['recs'], cz)} |}}"
    t = ("{| tl_items := " + clist(case["test"], lambda e: f"({cz(e[0])}, {cq(fparse(e[1]))})")
         + f"; tl_has_gain := {cbool(case['has_gain'])} |}}")
    disc = "(tbl_disc " + clist(obs["disc"], lambda v: cq(fparse(v))) + ")"
    ms = clist(metric_specs(case), lambda s: c_metric(case, s))
    ob = clist(obs["vals"], lambda ev: f"({cnat(ev[0])}, {copt(None if ev[1] is None else fparse(ev[1]), cq)})")
    return f"agree_all {tol} {disc} {k} {recs} {t} {ms} {ob}"


# ---------------------------------------------------------------------------------------------
# the property as a predicate on implementation output (independent of the Coq model)
# ---------------------------------------------------------------------------------------------

def disc_value(kind, r):
    if kind == "log2":
        return Fraction(math.log2(r))
    if kind == "ln":
        return Fraction(math.log(r))
    if kind == "rank":
        return Fraction(r)
    if kind == "sqrt":
        return Fraction(math.sqrt(r))
    if kind == "table":
        return Fraction(math.log2(r) + 0.5)
    if kind == "nonmono":
        return Fraction(1.0 + (r % 3) * 0.75)
    raise ValueError(kind)


def disc_monotone(kind):
    return kind != "nonmono"


def pop_quantiles(case):
    counts = dict((i, c) for i, c in pop_counts(case))
    pos = sorted(c for c in counts.values() if c > 0)
    q = {}
    for i, c in counts.items():
        if c > 0:
            less = sum(1 for x in pos if x < c)
            eq = sum(1 for x in pos if x == c)
            q[i] = (Fraction(less) + Fraction(eq + 1, 2)) / len(pos)
        else:
            q[i] = Fraction(0)
    return q


def definition(case, s, recs):
    """(error, value) the documentation prescribes; value None = undefined (NaN)."""
    k, m = case["k"], s["m"]
    tids = [i for i, _ in case["test"]]
    tg = {i: fparse(g) for i, g in case["test"]}

    def trunc():
        if k is not None and not case["ordered"]:
            return None
        return recs if k is None else recs[:k]

    if m in ("hit", "recip") and not tids:
        return 0, None
    L = trunc()
    if L is None:
        return 1, None
    good = [i in tg for i in L]
    if m == "hit":
        return 0, Fraction(1 if any(good) else 0)
    if m == "precision":
        return 0, (Fraction(sum(good), len(L)) if L else None)
    if m == "recall":
        den = len(tids) if k is None else min(len(tids), k)
        return 0, (Fraction(sum(good), den) if den else None)
    if m == "recip":
        for r, g in enumerate(good, 1):
            if g:
                return 0, Fraction(1, r)
        return 0, Fraction(0)
    if m == "rbp":
        if not tids:
            return 0, None
        g = patience_q(case, s)
        tot = sum((g ** (r - 1) for r, ok in enumerate(good, 1) if ok), Fraction(0))
        if not s["norm"]:
            return 0, tot * (1 - g)
        mx = sum((g ** (r - 1) for r in range(1, min(len(tids), len(L)) + 1)), Fraction(0))
        return 0, (tot / mx if mx else None)
    if m in ("dcg", "ndcg"):
        if s["graded"] and not case["has_gain"]:
            return 2, None
        w = lambda r: 1 / max(disc_value(case["discount"], r), Fraction(1))  # noqa: E731
        gain = (lambda i: tg.get(i, Fraction(0))) if s["graded"] else (lambda i: Fraction(1 if i in tg else 0))
        dcg = sum((gain(i) * w(r) for r, i in enumerate(L, 1)), Fraction(0))
        if m == "dcg":
            return 0, dcg
        gs = sorted((tg[i] if s["graded"] else Fraction(1) for i in tids), reverse=True)
        if k:
            gs = gs[:k]
        idcg = sum((g * w(r) for r, g in enumerate(gs, 1)), Fraction(0))
        return 0, (dcg / idcg if idcg else None)
    if m == "pop":
        if not L:
            return 0, None
        q = pop_quantiles(case)
        return 0, sum((q.get(i, Fraction(0)) for i in L), Fraction(0)) / len(L)
    raise ValueError(m)


def _num(ev):
    return None if ev[1] is None else float(fparse(ev[1]))


def _close(a, b, rel):
    if a is None or b is None:
        return a is None and b is None
    return abs(a - b) <= rel * max(1.0, abs(b))


def oracle(case, obs):
    v = []
    specs = metric_specs(case)
    rel = 2e-6 if inexact32(case) else 1e-9
    claimed = case["k"] != 0        # the property speaks about k >= 1 or none
    tg = {i: fparse(g) for i, g in case["test"]}
    nonneg_pos = any(g > 0 for g in tg.values())
    for j, s in enumerate(specs):
        key = mkey(s)
        e, val = obs["vals"][j]
        if e == 9:
            v.append((f"exception:{key}", f"{key} raised {val}"))
            continue
        if obs["again"][j] != obs["vals"][j]:
            v.append((f"repeat:{key}", f"{key} returned {obs['again'][j]} on the second identical call, {obs['vals'][j]} on the first"))
        if not claimed:
            continue
        we, wv = definition(case, s, case["recs"])
        if e != we:
            v.append((f"error:{key}", f"{key}: outcome code {e}, the documented behaviour gives {we}"))
            continue
        if e:
            continue
        got = _num(obs["vals"][j])
        want = None if wv is None else float(wv)
        if not _close(got, want, rel):
            v.append((f"definition:{key}", f"{key} returned {got}, its documented definition gives {want} "
                                           f"(k={case['k']}, {len(case['recs'])} recs, {len(case['test'])} test items)"))
        # consequences
        mono = disc_monotone(case["discount"])
        g = patience_q(case, s) if s["m"] == "rbp" else None
        normalised = key in ("recall", "rbp-norm") or (s["m"] == "ndcg" and mono)
        if normalised and case["test"] and got is not None and not (-1e-12 <= got <= 1 + 1e-9):
            v.append((f"range:{key}", f"{key} = {got} outside [0, 1]"))
        if key == "recall" and case["test"] and got is None:
            v.append(("range:recall", "recall undefined although the test list is not empty"))
        if s["m"] == "ndcg" and case["test"] and got is None and (not s["graded"] or nonneg_pos):
            v.append((f"range:{key}", f"{key} undefined although a test item has positive gain"))
        if "ideal" in obs and (key in ("recall", "rbp-norm") or s["m"] == "ndcg"):
            ie, _ = obs["ideal"][j]
            iv = _num(obs["ideal"][j])
            defined = not (s["m"] == "ndcg" and s["graded"] and not nonneg_pos)
            if ie == 0 and defined and not _close(iv, 1.0, rel):
                v.append((f"ideal:{key}", f"{key} of an ideal ranking of the test items is {iv}, not 1"))
        if "swapped" in obs and key != "pop" and (s["m"] not in ("dcg", "ndcg") or mono):
            se, _ = obs["swapped"][j]
            sv = _num(obs["swapped"][j])
            if se == 0 and got is not None and sv is not None and sv < got - 1e-12 * max(1.0, abs(got)):
                v.append((f"swap:{key}", f"{key} fell from {got} to {sv} after moving relevant item "
                                         f"{case['recs'][case['swap'][1]]} up past irrelevant {case['recs'][case['swap'][0]]}"))
            if se == 0 and (got is None) != (sv is None):
                v.append((f"swap:{key}", f"{key} defined on one of the two exchanged rankings only"))
        del g
    if "pop" in case and claimed:
        q = pop_quantiles(case)
        got = {i: float(fparse(x)) for i, x in obs["item_ranks"]}
        for i, qi in q.items():
            if i not in got or not _close(got[i], float(qi), 1e-9):
                v.append(("definition:pop-quantile", f"popularity quantile of item {i} is {got.get(i)}, definition gives {float(qi)}"))
                break
    seen, out = set(), []
    for k_, w in v:
        if k_ not in seen:
            seen.add(k_)
            out.append((k_, w))
    return out


def nontrivial(case, obs):
    if not case["ordered"] or any(e for e, _ in obs["vals"]):
        return False
    tids = {i for i, _ in case["test"]}
    L = case["recs"] if case["k"] is None else case["recs"][: case["k"]]
    rel = sum(1 for i in L if i in tids)
    return len(case["recs"]) >= 3 and len(tids) >= 2 and 0 < rel < len(L)


def counters(case, obs):
    yield "relation=" + case["relation"]
    yield "gains=" + case["gstyle"]
    yield "discount=" + case["discount"]
    yield "ids=" + case["idkind"]
    k, nr, nt = case["k"], len(case["recs"]), len(case["test"])
    lo, hi = min(nr, nt), max(nr, nt)
    if k is None:
        yield "k=none"
    elif k == 0:
        yield "k=0"
    elif k < lo:
        yield "k=below-both-lengths"
    elif k < hi:
        yield "k=between-the-lengths"
    else:
        yield "k=at-or-above-both"
    tids = {i for i, _ in case["test"]}
    if k and any(i in tids for i in case["recs"][k:]):
        yield "relevant-item-beyond-k"
    gs = [g for _, g in case["test"]]
    if len(set(gs)) < len(gs):
        yield "ties-in-gain"
    p = case["patience"]
    yield "patience=" + ("default" if p is None else "0-or-1" if p in ("0/1", "1/1") else "dyadic")
    if case["malformed"]:
        yield "malformed"
    for e in sorted({e for e, _ in obs["vals"]}):
        yield f"outcome-code={e}"
    if any(e == 0 and x is None for e, x in obs["vals"]):
        yield "some-metric-undefined(NaN)"
    if "pop" in case:
        yield "pop=" + case["pop"]["count"]
    if case["swap"]:
        yield "swap-candidate"
    yield f"recs-len={'0' if nr == 0 else '1-3' if nr <= 3 else '4-8' if nr <= 8 else '9+'}"


def sample(case, obs):
    return {"case": {k: v for k, v in case.items() if k != "pop"},
            "metrics": [mkey(s) for s in metric_specs(case)], "vals": obs["vals"]}


def shrink(case, fails):
    c = dict(case)
    for drop in ("pop",):
        d = {k: v for k, v in c.items() if k != drop}
        if fails(d):
            c = d
    if c.get("swap") is None or fails({**c, "swap": None}):
        c = {**c, "swap": None}
        r2 = common.shrink_list(c["recs"], lambda xs: fails({**c, "recs": xs}), 40)
        if fails({**c, "recs": r2}):
            c = {**c, "recs": r2}
    t2 = common.shrink_list(c["test"], lambda xs: fails({**c, "test": xs}), 40)
    if fails({**c, "test": t2}):
        c = {**c, "test": t2}
    return c
