"""C06 -- ranking metrics equal their definitions (DESIGN.md section 4, C06)."""

from __future__ import annotations

import math
from fractions import Fraction

import common
from common import cbool, clist, cnat, copt, cq, cz, fjson, fparse, frac_of_float
from framework import TranslateError  # noqa: F401

PID = "C06"
PROPS_FILE = "Props/C06.v"
GEN_FILES = ["Gen/C06_metrics.v"]
MODEL_FILES = ["Model/C06_ranking.v"]
MODEL_INDEPENDENT_OF_GEN = True      # the case files evaluate the hand-written reference model
ALLOWED_AXIOMS: list[str] = []
CASE_HEADER = ("From Coq Require Import ZArith QArith.\nFrom LK Require Import Lib.QLib Model.C06_ranking.\n"
               "Open Scope Q_scope.")
SHARD = 60
TRUSTED = [
    "Coq 8.16.1 kernel + vm_compute (no native_compute); Print Assumptions of every theorem in Props/C06.v: closed under the global context",
    "translator harness/translate/c06.py (+ pyq.py helpers): Python ast -> Gallina for RankingMetricBase.truncate, every "
    "measure_list of Hit/Precision/Recall/RecipRank/RBP/DCG/NDCG/MeanPopRank, array_dcg, fixed_dcg; the NumPy/pandas vocabulary it "
    "maps to (Model/C06_ranking.v part 1: np.isin, mask sum/any/nonzero, np.power, np.arange, mask indexing, slices, np.maximum, "
    "np.reciprocal, np.dot, np.sum, Series.reindex/nlargest/sort_values/mean) is a hand-written contract",
    "modelling assumptions written into the translation: np.require(x, float32) and np.nan_to_num are the identity (gains finite "
    "and float32-representable; the harness uses tolerance 2^-20 where a gain is not), NumPy scalar division never raises",
    "hand-written reference model (Model/C06_ranking.v part 2, proved equal to the generated functions in Proofs/C06_gen.v) tied to the "
    "running code by correspondence cases evaluated inside Coq on exact rationals (tolerance 2^-40 relative for float64 results)",
    "MeanPopRank.__init__ (pandas rank(method='average')) is modelled by hand (quantile), its statement order is pattern-checked by the "
    "translator; item_stats counts are recomputed by the harness from the generated interactions",
    "NumPy / pandas / ItemList / Dataset internals are exercised, not verified; the discount function is tabulated by calling it",
    "the model takes identifier lists and gains: that the result does not depend on how the ItemLists store them (numbers, vocabularies, "
    "field dtype / backing) nor on earlier calls, and that measure_list leaves its arguments unchanged, is observed by the harness "
    "(oracle keys definition:*, repeat:*, inputs-mutated:*), not proved; the translator rejects vocabulary / numbers access and "
    "np.require(..., requirements=) in the metric bodies",
    "the model has no rank column and no object identity: that an explicit rank column (gaps, offset, ties) does not change which "
    "entries are the first k, and that a metric object reused over short-lived lists returns what a new one returns, is observed "
    "(definition:*, reuse:*), not proved; for lists longer than 64 entries the correspondence cases evaluated in Coq cover hit, "
    "precision, recall, reciprocal rank and popularity only (sums of hundreds of exact powers do not fit un-normalised Q), RBP / "
    "DCG / nDCG of long lists are compared with the Python definition (exact Fractions) alone",
]
ASSUMPTIONS = [
    "recommendation lists and test lists have distinct item ids (pandas reindex rejects duplicate test ids)",
    "gains are finite and non-negative; patience lies in [0, 1] for the consequence theorems",
    "consequence theorems (unit interval, swap) assume the clamped discount max(d(r), 1) is non-decreasing; the definitional equalities hold for every discount",
    "k >= 1 or None (k = 0 is modelled and compared but the property makes no claim about it)",
]
RULE = ("structured generator: ordered recommendation list of 0-14 ids and a test list of 0-9 ids from a pool of 18 "
        "(relations: empty truth, disjoint, overlapping, containing, ideal order), optional graded gains (half steps with ties and "
        "zeros, or float32-inexact values), cutoff k from {none, 1..16} placed below, between and above the two lengths (0 rarely), "
        "patience from dyadic values, the default 0.85, 0 and 1, discounts log2 (default), ln, rank (integer-valued), sqrt, a persistent "
        "table view and a non-monotone one; integer or string ids; a small interaction data set for MeanPopRank; malformed stream: "
        "unordered lists with a cutoff, graded metrics without a gain field.  Representation of the two lists (the metrics are "
        "functions of identifiers and gains alone): identifiers only / identifiers + Vocabulary / item numbers + Vocabulary per list, "
        "the same Vocabulary object, an equal copy, a differently numbered one or a vocabulary on one list only, identifiers the "
        "vocabulary does not know on either or both lists; gain field float64 / writable float32 / read-only float32 NumPy, Arrow, "
        "torch, Python list, via from_df or from_arrow; recommendations with or without a score field.  Every case measures 10-12 "
        "metric instances in a call sequence: each on lists never used before, then all on ONE pair of list objects three times over, "
        "with an ideal ranking, an exchanged ranking and another test list measured in between; every call is compared with the "
        "definition and the lists are compared with never-measured twins afterwards.  Ordered recommendation lists carry the "
        "implicit ranks or an EXPLICIT rank column (1..n spelled out, gaps, not starting at 1, ties: the first k recommendations "
        "are the first k entries); a few LONG lists per run (8 quick / 40 thorough; 150-2400 entries, longer than an integer "
        "constant >= 64 found in metrics/ranking/*.py if there is one, relevant items near the top and deep in the list, patience "
        "0.9-0.999, large or no cutoff; Coq evaluates the counting metrics of these, the Python definition all); in a quarter of "
        "the cases the metric OBJECTS then measure seven further pairs of lists that are created for the call and dropped after "
        "it (recycled addresses), each value compared with a metric object made for that call and with the definition.  "
        "non-trivial = ordered list of >= 3 recommendations with at least one relevant and one irrelevant item, >= 2 test items, "
        "no error outcome; distinct = by hash of the case")

POOL = list(range(1, 19))
DYADIC_PATIENCE = ["1/2", "3/4", "7/8", "1/4", "15/16"]


# ---------------------------------------------------------------------------------------------
# translation (tie A)
# ---------------------------------------------------------------------------------------------

def translate():
    from translate import c06 as t
    from translate.pyq import TranslateError as TE
    try:
        return t.translate(common.SRC)
    except TE as e:
        raise TranslateError(str(e))


# ---------------------------------------------------------------------------------------------
# generator
# ---------------------------------------------------------------------------------------------

def gen_case(rng, malformed=False, big=False):
    relation = rng.weighted([("overlap", 8), ("empty-test", 1), ("disjoint", 2), ("contains", 2), ("ideal", 2), ("empty-recs", 1)])
    maxr = 22 if big else 14
    nrec = 0 if relation == "empty-recs" else rng.randint(1, maxr) if rng.chance(1, 4) else rng.randint(3, 8)
    ntest = 0 if relation == "empty-test" else rng.randint(1, 9) if rng.chance(1, 3) else rng.randint(2, 5)
    pool = rng.shuffle(POOL + (list(range(19, 40)) if big else []))
    if relation == "disjoint":
        recs, test_ids = pool[:nrec], pool[nrec:nrec + ntest]
    elif relation == "contains":
        recs = pool[:nrec]
        test_ids = rng.shuffle(recs + pool[nrec:nrec + rng.randint(0, 3)])
    elif relation == "ideal":
        test_ids = pool[:ntest]
        recs = list(test_ids) + pool[ntest:ntest + rng.randint(0, 3)]
    else:
        recs = pool[:nrec]
        test_ids = rng.sample(pool[: nrec + 4], min(ntest, nrec + 4)) if nrec else pool[:ntest]
    recs = recs[:maxr]
    gstyle = rng.weighted([("half", 5), ("binaryish", 2), ("inexact", 1), ("allzero", 1)])
    gains = []
    for _ in test_ids:
        if gstyle == "half":
            gains.append(fjson(Fraction(rng.randint(0, 8), 2)))
        elif gstyle == "binaryish":
            gains.append(fjson(Fraction(rng.choice([0, 1, 1, 2]))))
        elif gstyle == "inexact":
            gains.append(fjson(frac_of_float(rng.choice([0.1, 0.3, 1 / 3, 2.7, 4.9, 0.7]) * rng.randint(1, 3))))
        else:
            gains.append("0/1")
    if relation == "ideal":
        order = sorted(range(len(test_ids)), key=lambda j: -fparse(gains[j]))
        recs = [test_ids[j] for j in order] + recs[len(test_ids):]
    has_gain = True
    ordered = True
    if malformed:
        which = rng.choice(["unordered", "nogain", "both"])
        ordered = which == "nogain"
        has_gain = which == "unordered"
    lens = sorted({len(recs), len(test_ids)})
    kopts = [(None, 3), (1, 1), (2, 1), (3, 1), (5, 1), (16, 1)]
    lo, hi = lens[0], lens[-1]
    if hi - lo >= 2:
        kopts.append((rng.randint(lo + 1, hi - 1), 4))       # between the two lengths
    if lo >= 2:
        kopts.append((rng.randint(1, lo - 1), 3))            # below both
    kopts.append((hi + rng.randint(0, 2), 2))                # at or above both
    if malformed or rng.chance(1, 40):
        kopts.append((0, 1))
    k = rng.weighted(kopts)
    if malformed and not ordered and k is None and rng.chance(2, 3):
        k = rng.randint(1, 6)
    pat = rng.weighted([(None, 2), ("dyadic", 6), ("0/1", 1), ("1/1", 1)])
    if pat == "dyadic":
        pat = rng.choice(DYADIC_PATIENCE)
    if pat is None and len(recs) > 9:
        pat = rng.choice(DYADIC_PATIENCE)       # keeps the exact powers of the 53-bit default small
    disc = rng.weighted([("log2", 5), ("ln", 2), ("rank", 2), ("sqrt", 1), ("table", 2), ("nonmono", 1)])
    case = {
        "recs": recs, "ordered": ordered, "test": [[i, g] for i, g in zip(test_ids, gains)], "has_gain": has_gain,
        "k": k, "patience": pat, "discount": disc, "idkind": rng.weighted([("int", 3), ("str", 1)]),
        "relation": relation, "gstyle": gstyle, "malformed": malformed,
    }
    if case["idkind"] == "int" and rng.chance(1, 3):
        nu = rng.randint(1, 6)
        items = rng.sample(POOL, rng.randint(1, 10))
        inter = []
        for it in items:
            for u in rng.sample(list(range(1, nu + 1)), rng.randint(1, nu)):
                inter.append([u, it])
        case["pop"] = {"inter": inter, "extra": rng.sample([i for i in POOL if i not in items], rng.randint(0, 3)),
                       "count": rng.choice(["users", "interactions"])}
    # a swap candidate for the metamorphic check: an earlier item with no more gain than a later one
    tg = {i: fparse(g) for i, g in case["test"]}
    pairs = [(p, q) for p in range(len(recs)) for q in range(p + 1, len(recs))
             if recs[p] not in tg and recs[q] in tg]
    case["swap"] = list(rng.choice(pairs)) if pairs else None
    case["rep"] = gen_rep(rng.fork("rep"), case)
    # one metric OBJECT measuring several short-lived pairs of lists (run_impl: _life)
    case["life"] = rng.fork("life").chance(1, 4)
    return case


HIGH_PATIENCE = [0.99, 0.999, 0.9, 0.995]
_steer = None


def steer_sizes():
    """Integer constants >= 64 in metrics/ranking/*.py (depth limits, block sizes, table lengths): the long lists are made
    longer than each of them, with relevant items on both sides."""
    global _steer
    if _steer is None:
        import ast
        found = set()
        for f in sorted((common.SRC / "lenskit" / "metrics" / "ranking").glob("*.py")):
            try:
                tree = ast.parse(f.read_text())
            except SyntaxError:
                continue
            for n in ast.walk(tree):
                if isinstance(n, ast.Constant) and type(n.value) is int and 64 <= n.value <= 4000:
                    found.add(n.value)
        _steer = sorted(found)
    return _steer


def gen_long_case(rng):
    """A LONG recommendation list (300-2000 items; longer than an integer constant of the metric sources if there is
    one), relevant items near the top AND deep in the list, high patience, large or no cutoff."""
    consts = steer_sizes()
    c = rng.choice(consts) if consts and rng.chance(3, 4) else rng.choice([150, 256, 300, 512, 1000])
    nrec = min(c + rng.randint(max(8, c // 8), max(16, c)), 2400)
    nuni = nrec + 60
    recs = rng.shuffle(list(range(1, nuni)))[:nrec]
    deep = [recs[p] for p in sorted(rng.sample(list(range(c, nrec)), min(nrec - c, rng.randint(1, 6))))]
    top = [recs[p] for p in rng.sample(list(range(0, min(c, nrec))), rng.randint(0, 5))]
    out = rng.sample([i for i in range(1, nuni) if i not in set(recs)], rng.randint(0, 3))
    test_ids = rng.shuffle(deep + top + out)
    gstyle = rng.weighted([("half", 3), ("binaryish", 2)])
    gains = [fjson(Fraction(rng.randint(0, 8), 2)) if gstyle == "half" else fjson(Fraction(rng.choice([0, 1, 1, 2])))
             for _ in test_ids]
    k = rng.weighted([(None, 3), (c + rng.randint(1, nrec - c), 3), (nrec + 5, 1), (rng.randint(2, c), 1)])
    pat = rng.weighted([("high", 6), (None, 1), ("dyadic", 1)])
    if pat == "high":
        pat = fjson(frac_of_float(rng.choice(HIGH_PATIENCE)))
    elif pat == "dyadic":
        pat = rng.choice(["127/128", "1023/1024", "15/16"])
    case = {
        "recs": recs, "ordered": True, "test": [[i, g] for i, g in zip(test_ids, gains)], "has_gain": True,
        "k": k, "patience": pat, "discount": rng.weighted([("log2", 4), ("ln", 1), ("sqrt", 1), ("table", 1)]),
        "idkind": rng.weighted([("int", 3), ("str", 1)]), "relation": "long", "gstyle": gstyle, "malformed": False,
        "nuni": nuni, "long": True,
    }
    tg = set(test_ids)
    rel = [q for q in range(1, nrec) if recs[q] in tg and any(recs[p] not in tg for p in range(max(0, q - 40), q))]
    case["swap"] = None
    if rel:
        q = rng.choice(rel)
        case["swap"] = [rng.choice([p for p in range(max(0, q - 40), q) if recs[p] not in tg]), q]
    case["rep"] = gen_rep(rng.fork("rep"), case)
    case["life"] = rng.chance(1, 3)
    return case


def universe(case):
    return UNIVERSE if not case.get("nuni") else list(range(1, case["nuni"]))


def is_long(case):
    return len(case["recs"]) > 64 or len(case["test"]) > 64


UNIVERSE = list(range(1, 40))          # every id a generated list can contain (POOL and the thorough tier's extension)
PLAIN_REP = {"style": "plain", "recs": "ids", "test": "ids", "vocab": None, "vocab2": None, "gdtype": "f64", "rscores": False,
             "ranks": None}
GDTYPES = [("f64", 4), ("f32w", 4), ("f32ro", 1), ("arrow32", 1), ("arrow64", 1), ("torch32", 1), ("list", 1),
           ("df32", 1), ("df64", 1), ("tbl32", 1), ("tbl64", 1)]


def gen_ranks(rng):
    """An EXPLICIT rank column for the ordered recommendation lists of the case (None = the implicit ranks 1..n), as a
    first rank and a cycle of increments: the ranks 1..n spelled out, ranks with gaps (a post-filtered list), ranks not
    starting at 1, ranks with ties.  "The first k recommendations" are the first k entries of the list."""
    style = rng.weighted([(None, 5), ("one-to-n", 1), ("gaps", 3), ("offset", 1), ("ties", 1)])
    if style is None:
        return None
    m = rng.randint(3, 7)
    if style == "one-to-n":
        return {"style": style, "first": 1, "inc": [1]}
    if style == "gaps":
        inc = [rng.choice([1, 1, 2, 3, 5]) for _ in range(m)]
        if all(i == 1 for i in inc):
            inc[rng.below(m)] = rng.randint(2, 4)
        return {"style": style, "first": 1, "inc": inc}
    if style == "offset":
        return {"style": style, "first": rng.choice([0, 2, 3, 11]), "inc": [rng.choice([1, 1, 2]) for _ in range(m)]}
    inc = [rng.choice([0, 1, 1]) for _ in range(m)]
    inc[rng.below(m)] = 0
    return {"style": style, "first": 1, "inc": inc}


def rank_column(spec, n):
    out, r = [], spec["first"]
    for j in range(n):
        out.append(r)
        r += spec["inc"][j % len(spec["inc"])]
    return out


def gen_rep(rng, case):
    """How the two lists are REPRESENTED (the metrics are functions of the identifiers and gains alone):
    per list `ids` (identifiers only), `idv` (identifiers + a Vocabulary, which need not know all of them) or `numv`
    (item numbers + a Vocabulary, no identifiers); the two vocabularies are the same object (`shared`), equal copies
    (`copy`) or number the items differently (`diff`); `mixed` = only one list has one.  The gain field is a float64 /
    writable float32 / read-only float32 NumPy array, an Arrow array, a torch tensor, a Python list, or comes from
    ItemList.from_df / from_arrow; the recommendations optionally carry a score field."""
    recs, tids = list(case["recs"]), [i for i, _ in case["test"]]
    style = rng.weighted([("plain", 5), ("shared", 5), ("copy", 1), ("diff", 2), ("mixed", 1)])
    rep = dict(PLAIN_REP)
    rep["style"] = style
    rep["gdtype"] = rng.weighted(GDTYPES)
    rep["rscores"] = rng.chance(1, 3)
    rep["ranks"] = gen_ranks(rng.fork("ranks"))
    if style == "plain":
        return rep
    st = lambda: rng.weighted([("idv", 2), ("numv", 1)])  # noqa: E731
    if style == "mixed":
        if rng.chance(1, 2):
            rep["recs"] = st()
        else:
            rep["test"] = st()
    else:
        rep["recs"], rep["test"] = st(), st()
    # identifiers the vocabulary does not know: only lists that keep their identifiers can contain them
    can_r = recs if rep["recs"] == "idv" else []
    can_t = tids if rep["test"] == "idv" else []
    must = set(recs if rep["recs"] == "numv" else []) | set(tids if rep["test"] == "numv" else [])
    mode = rng.weighted([("none", 2), ("both-sides", 4), ("random", 2)])
    unknown = set()
    if mode == "both-sides":
        if can_r:
            unknown.add(can_r[0] if rng.chance(1, 2) else rng.choice(can_r))
            if rng.chance(1, 3):
                unknown.add(rng.choice(can_r))
        if can_t:
            unknown.update(rng.sample(can_t, min(len(can_t), rng.randint(1, 2))))
    elif mode == "random":
        cand = sorted(set(can_r) | set(can_t))
        if cand:
            unknown.update(rng.sample(cand, min(len(cand), rng.randint(1, 4))))
    unknown -= must
    keys = [i for i in universe(case) if i not in unknown]
    if rng.chance(1, 2):
        keys = rng.shuffle(keys)                   # numbers are not in identifier order
    rep["vocab"] = keys
    if style == "diff":
        k2 = list(reversed(keys))
        if rng.chance(1, 2):
            k2 = rng.shuffle(k2 + sorted(unknown))  # the second vocabulary knows every item
        rep["vocab2"] = k2
    return rep


def rep_of(case):
    return case.get("rep") or PLAIN_REP


def unknown_ids(case):
    """(identifiers of the recommendations, of the test list) that the list's own vocabulary does not know."""
    rep = rep_of(case)
    vr = rep["vocab"] if rep["recs"] != "ids" else None
    vt = (rep["vocab2"] or rep["vocab"]) if rep["test"] != "ids" else None
    ur = [i for i in case["recs"] if vr is not None and i not in vr]
    ut = [i for i, _ in case["test"] if vt is not None and i not in vt]
    return ur, ut


def gen_cases(rng, tier):
    n = 900 if tier == "quick" else 9000
    out = []
    for j in range(n):
        out.append(gen_case(rng.fork(j), malformed=(j % 10 == 9), big=(tier != "quick" and j % 7 == 3)))
    nl = 8 if tier == "quick" else 40
    step = n // nl
    for j in range(nl):                       # a few long lists per run, spread over the shards
        out.insert(j * step + j, gen_long_case(rng.fork(("long", j))))
    return out


# ---------------------------------------------------------------------------------------------
# metric instances of a case
# ---------------------------------------------------------------------------------------------

def metric_specs(case):
    ms = [{"m": "hit"}, {"m": "precision"}, {"m": "recall"}, {"m": "recip"},
          {"m": "rbp", "norm": False}, {"m": "rbp", "norm": True},
          {"m": "dcg", "graded": False}, {"m": "dcg", "graded": True},
          {"m": "ndcg", "graded": False}, {"m": "ndcg", "graded": True}]
    if case["patience"] is None:
        ms.append({"m": "rbp", "norm": True, "explicit_default": True})     # RBP(patience=0.85) spelled out
    if "pop" in case:
        ms.append({"m": "pop"})
    return ms


def mkey(s):
    if s["m"] == "rbp":
        return "rbp-norm" if s["norm"] else "rbp"
    if s["m"] in ("dcg", "ndcg"):
        return s["m"] + ("-graded" if s["graded"] else "-binary")
    return s["m"]


# ---------------------------------------------------------------------------------------------
# implementation driver
# ---------------------------------------------------------------------------------------------

_ready = False
_TABLE = None


def _setup():
    global _ready, np, pd, pa, ItemList, Vocabulary, R, DatasetBuilder, _TABLE
    if _ready:
        return
    common.use_repo()
    import numpy as np
    import pandas as pd
    import pyarrow as pa
    from lenskit.data import DatasetBuilder, ItemList, Vocabulary
    from lenskit.metrics import ranking as R
    _TABLE = np.log2(np.arange(1, 4097)) + 0.5
    import warnings
    from lenskit.diagnostics import DataWarning
    warnings.filterwarnings("ignore", category=DataWarning)   # "ranks do not begin with 1"
    _ready = True


def _discount(kind):
    if kind == "log2":
        return None
    if kind == "ln":
        return np.log
    if kind == "rank":
        return lambda r: r                      # integer-valued
    if kind == "sqrt":
        return np.sqrt
    if kind == "table":
        return lambda r: _TABLE[: len(r)]       # a view of a persistent table
    if kind == "nonmono":
        return lambda r: 1.0 + (r % 3) * 0.75
    raise ValueError(kind)


def _ids(ids, kind):
    if kind == "str":
        return np.array([f"i{i:03d}" for i in ids], dtype=object if not ids else None)
    return np.array(ids, dtype=np.int64)


def _snap(x):
    """JSON-able copy of something the caller handed to lenskit (to see whether a measurement changed it)."""
    if isinstance(x, np.ndarray):
        return [x.dtype.str, x.tolist()]
    if isinstance(x, pd.DataFrame):
        return {c: [str(x[c].dtype), x[c].tolist()] for c in x.columns}
    if isinstance(x, pa.Table):
        return {c: [str(x.schema.field(c).type), x.column(c).to_pylist()] for c in x.column_names}
    if isinstance(x, (pa.Array, pa.ChunkedArray)):
        return [str(x.type), x.to_pylist()]
    if isinstance(x, Vocabulary):
        return x.ids().tolist()
    if hasattr(x, "detach"):
        return [str(x.dtype), x.detach().tolist()]
    return list(x)


def _view(il, fields):
    """What a caller sees of an item list through its public interface."""
    out = {"len": len(il), "ordered": bool(il.ordered), "ids": il.ids().tolist(),
           "vocab": None if il.vocabulary is None else id(il.vocabulary),
           "ranks": il.ranks().tolist() if il.ordered else None}
    for f in fields:
        a = il.field(f)
        out[f] = None if a is None else [np.asarray(a).dtype.str, np.asarray(a).tolist()]
    return out


class _Lists:
    """Builds the item lists of one case in the representation the case prescribes; every list of the case shares the
    case's Vocabulary objects."""

    def __init__(self, case):
        self.case, self.rep, self.kind = case, rep_of(case), case["idkind"]
        rep = self.rep
        self.vr = self.vt = None
        self.keys_r = self.keys_t = None
        if rep["vocab"] is not None:
            mk = lambda keys: Vocabulary(_ids(list(keys), self.kind), name="item", reorder=False)  # noqa: E731
            self.vr = mk(rep["vocab"])
            self.keys_r = rep["vocab"]
            if rep["style"] == "copy":
                self.vt, self.keys_t = mk(rep["vocab"]), rep["vocab"]
            elif rep["vocab2"] is not None:
                self.vt, self.keys_t = mk(rep["vocab2"]), rep["vocab2"]
            else:
                self.vt, self.keys_t = self.vr, self.keys_r
        self.vsnap = [None if v is None else _snap(v) for v in (self.vr, self.vt)]

    def make(self, which, ids, ordered=None, gains=None, scores=False):
        """-> (ItemList, caller-owned buffers by name, field names)"""
        rep, kind = self.rep, self.kind
        store = rep[which]
        V, keys = (self.vr, self.keys_r) if which == "recs" else (self.vt, self.keys_t)
        if store == "numv" and any(i not in keys for i in ids):
            store = "idv"                       # numbers exist for known items only
        cols, bufs = {}, {}
        if store == "numv":
            pos = {k: n for n, k in enumerate(keys)}
            cols["item_num"] = np.array([pos[i] for i in ids], dtype=np.int32)
        else:
            cols["item_id"] = _ids(list(ids), kind)
        gd = rep["gdtype"] if which == "test" else "f64"
        fields = []
        if gains is not None:
            vals = [float(fparse(g)) for g in gains]
            f32 = gd.endswith("32") or gd in ("f32w", "f32ro")
            if gd.startswith("arrow"):
                g = pa.array(vals, pa.float32() if f32 else pa.float64())
            elif gd == "torch32":
                import torch
                g = torch.tensor(vals, dtype=torch.float32)
            elif gd == "list":
                g = list(vals)
            else:
                g = np.array(vals, dtype=np.float32 if f32 else np.float64)
                if gd == "f32ro":
                    g.setflags(write=False)
            cols["rating"] = g
            fields.append("rating")
        if scores:
            cols["score"] = np.arange(len(ids), 0, -1).astype(np.float32) / 4
            fields.append("score")
        if which == "recs" and rep.get("ranks") and (self.case["ordered"] if ordered is None else ordered):
            cols["rank"] = np.array(rank_column(rep["ranks"], len(ids)), dtype=np.int32)
        if which == "test" and gd.startswith("df"):
            df = pd.DataFrame(cols)
            bufs["frame"] = df
            il = ItemList.from_df(df, vocabulary=V if store != "ids" else None)
        elif which == "test" and gd.startswith("tbl"):
            arrs = {}
            for c, a in cols.items():
                if c == "item_id":
                    arrs[c] = pa.array(a.tolist(), pa.string() if kind == "str" else pa.int64())
                else:
                    arrs[c] = pa.array(a)
            tbl = pa.table(arrs)
            bufs["table"] = tbl
            il = ItemList.from_arrow(tbl, vocabulary=V if store != "ids" else None)
        else:
            bufs.update(cols)
            kw = {("item_nums" if c == "item_num" else "item_ids" if c == "item_id" else c): a for c, a in cols.items()}
            if store != "ids":
                kw["vocabulary"] = V
            il = ItemList(ordered=self.case["ordered"] if ordered is None else ordered, **kw) if which == "recs" else ItemList(**kw)
        return il, bufs, fields

    def recs(self, ids, ordered=None):
        return self.make("recs", ids, ordered=ordered, scores=self.rep["rscores"])

    def test(self, pairs=None):
        pairs = self.case["test"] if pairs is None else pairs
        return self.make("test", [i for i, _ in pairs], gains=[g for _, g in pairs] if self.case["has_gain"] else None)


class _Watched:
    """An item list together with what the caller gave lenskit to build it and an identical twin that is never measured."""

    def __init__(self, built, twin, name):
        self.il, self.bufs, self.fields = built
        self.twin, self.name = twin[0], name
        self.snaps = {k: _snap(b) for k, b in self.bufs.items()}

    def buffers_changed(self):
        return [f"{self.name}.{k}" for k, b in self.bufs.items() if _snap(b) != self.snaps[k]]

    def changed(self):
        out = self.buffers_changed()
        a, b = _view(self.il, self.fields), _view(self.twin, self.fields)
        out += [f"{self.name}.{k}() {b[k]} -> {a[k]}" for k in a if a[k] != b[k]]
        return out


def _instances(case, pop=None):
    """The metric objects of the case (`pop`: an already built MeanPopRank to use instead of building the data set again)."""
    k = case["k"]
    pat = {} if case["patience"] is None else {"patience": float(fparse(case["patience"]))}
    d = _discount(case["discount"])
    dk = {} if d is None else {"discount": d}
    out = []
    for s in metric_specs(case):
        m = s["m"]
        if m == "hit":
            out.append(R.Hit(k))
        elif m == "precision":
            out.append(R.Precision(k))
        elif m == "recall":
            out.append(R.Recall(k))
        elif m == "recip":
            out.append(R.RecipRank(k))
        elif m == "rbp":
            if s.get("explicit_default"):
                out.append(R.RBP(k, patience=0.85, normalize=True))
            else:
                out.append(R.RBP(k, normalize=s["norm"], **pat))
        elif m == "dcg":
            out.append(R.DCG(k, gain="rating" if s["graded"] else None, **dk))
        elif m == "ndcg":
            out.append(R.NDCG(k, gain="rating" if s["graded"] else None, **dk))
        elif m == "pop" and pop is not None:
            out.append(pop)
        elif m == "pop":
            p = case["pop"]
            b = DatasetBuilder()
            df = pd.DataFrame({"user_id": [u for u, _ in p["inter"]], "item_id": [i for _, i in p["inter"]]})
            b.add_interactions("click", df, entities=["user", "item"], missing="insert", default=True)
            if p["extra"]:
                b.add_entities("item", list(p["extra"]))
            out.append(R.MeanPopRank(b.build(), k, count=p["count"]))
    return out


def _measure(m, recs, test):
    try:
        v = m.measure_list(recs, test)
    except ValueError:
        return [1, None]
    except KeyError:
        return [2, None]
    except Exception as e:  # anything else is reported, not hidden
        return [9, type(e).__name__]
    return [0, fjson(frac_of_float(v))]


def ideal_order(case):
    t = sorted(case["test"], key=lambda ig: -fparse(ig[1]))
    return [i for i, _ in t]


def alt_test(case):
    """Another test list for the same recommendations: the first test item replaced by an item that was not one."""
    tids = {i for i, _ in case["test"]}
    extra = [i for i in universe(case) if i not in tids][:1]
    return [list(p) for p in case["test"][1:]] + [[i, "3/2"] for i in extra]


def ideal_recs(case):
    return ideal_order(case) + [i for i in POOL if i not in {j for j, _ in case["test"]}][:2]


def life_variants(case):
    """(recommendation ids, test pairs) of the short-lived pairs of lists ONE metric object measures in a row."""
    recs, test = list(case["recs"]), [list(p) for p in case["test"]]
    rs = set(recs)
    other = [[i, "1/1"] for i in universe(case) if i not in rs][:3]
    return [(recs, test), (recs, alt_test(case)), (recs[1:] + recs[:1], list(reversed(test))[:-1] if len(test) > 1 else test),
            (recs, other), (recs, test), (list(reversed(recs)), alt_test(case)), (recs, test[: max(1, len(test) // 2)])]


def _life(case, L, ms):
    """An evaluation loop: the metric objects `ms` (already used) measure pairs of lists that are created for the call
    and dropped after it (so that addresses are recycled); each value is paired with that of a metric object made for
    this one call."""
    import gc
    rows, hg, seen, recycled = [], [], set(), 0
    spare = _instances(case)[-1] if "pop" in case else None
    for j, (rids, tp) in enumerate(life_variants(case)):
        if j % 2:
            t = L.test(tp)[0]
            r = L.recs(rids)[0]
        else:
            r = L.recs(rids)[0]
            t = L.test(tp)[0]
        recycled += id(t) in seen
        seen.add(id(t))
        hg.append(t.field("rating") is not None)
        once = _instances(case, pop=spare)
        rows.append([[_measure(m, r, t), _measure(f, r, t)] for m, f in zip(ms, once)])
        del r, t, once
        if j == 2:
            gc.collect()
    return {"rows": rows, "has_gain": hg, "recycled": recycled}


def run_impl(case):
    _setup()
    ms = _instances(case)
    keys = [mkey(s) for s in metric_specs(case)]
    L = _Lists(case)
    obs = {}
    # every metric on a pair of lists that nothing has touched before (pristine representation), inputs compared afterwards
    obs["fresh"], obs["fresh_mut"] = [], []
    for m in ms:
        r, t = _Watched(L.recs(case["recs"]), L.recs(case["recs"]), "recs"), _Watched(L.test(), L.test(), "test")
        obs["fresh"].append(_measure(m, r.il, t.il))
        obs["fresh_mut"].append((r.changed() + t.changed()) or None)
    # the call sequence of an evaluation run: ONE pair of list objects, every metric one after another, then all of
    # them again, then other rankings against the same test list and another test list for the same ranking
    r, t = _Watched(L.recs(case["recs"]), L.recs(case["recs"]), "recs"), _Watched(L.test(), L.test(), "test")
    first = None

    def seq(tag, recs, test):
        nonlocal first
        out = []
        for m, key in zip(ms, keys):
            out.append(_measure(m, recs, test))
            if first is None and (r.buffers_changed() or t.buffers_changed()):
                first = [key, tag]
        return out

    obs["vals"] = seq("first pass", r.il, t.il)
    obs["again"] = seq("second pass", r.il, t.il)
    if case["test"]:
        obs["ideal"] = seq("ideal ranking", L.recs(ideal_recs(case), ordered=True)[0], t.il)
    if case["swap"]:
        p, q = case["swap"]
        sw = list(case["recs"])
        sw[p], sw[q] = sw[q], sw[p]
        obs["swapped"] = seq("exchanged ranking", L.recs(sw)[0], t.il)
    obs["alt"] = seq("other test list", r.il, L.test(alt_test(case))[0])
    # does a test list built this way have the gain field at all (asked of lists that are never measured: an empty
    # Arrow-backed field counts as absent in ItemList) -- for the test list and for the other test list
    obs["has_gain"] = [x.field("rating") is not None for x in (t.twin, L.test(alt_test(case))[0])]
    obs["third"] = seq("third pass", r.il, t.il)
    changed = r.changed() + t.changed()
    changed += [f"vocabulary {n}" for n, v, sn in zip(("recs", "test"), (L.vr, L.vt), L.vsnap) if v is not None and _snap(v) != sn]
    obs["seq_mut"] = [first, changed] if (changed or first) else None
    if case.get("life"):
        obs["life"] = _life(case, L, ms)
    # the discount as the configured function evaluates it
    n = max(len(case["recs"]), len(case["test"]), 1) + 3
    d = _discount(case["discount"])
    vals = (np.log2 if d is None else d)(np.arange(1, n + 1))
    obs["disc"] = [fjson(Fraction(int(v)) if isinstance(v, (int, np.integer)) else frac_of_float(v)) for v in list(vals)]
    if "pop" in case:
        st = ms[-1].item_ranks
        obs["item_ranks"] = sorted([int(i), fjson(frac_of_float(v))] for i, v in st.items())
    return obs


# ---------------------------------------------------------------------------------------------
# model side
# ---------------------------------------------------------------------------------------------

def pop_counts(case):
    p = case["pop"]
    cnt = {}
    for u, i in p["inter"]:
        cnt.setdefault(i, set()).add(u)
    out = [[i, len(us)] for i, us in cnt.items()] + [[i, 0] for i in p["extra"]]
    return sorted(out)


def patience_q(case, s):
    if s.get("explicit_default") or case["patience"] is None:
        return frac_of_float(0.85)
    return fparse(case["patience"])


def c_metric(case, s):
    m = s["m"]
    if m in ("hit", "precision", "recall", "recip"):
        return {"hit": "MHit", "precision": "MPrecision", "recall": "MRecall", "recip": "MRecip"}[m]
    if m == "rbp":
        return f"(MRBP {cq(patience_q(case, s))} {cbool(s['norm'])})"
    if m == "dcg":
        return f"(MDCG {cbool(s['graded'])})"
    if m == "ndcg":
        return f"(MNDCG {cbool(s['graded'])})"
    return "(MPop " + clist(pop_counts(case), lambda e: f"({cz(e[0])}, {cnat(e[1])})") + ")"


def inexact32(case):
    import struct
    for _, g in case["test"]:
        f = float(fparse(g))
        if struct.unpack("f", struct.pack("f", f))[0] != f:
            return True
    return False


def coq_term(case, obs):
    if any(e == 9 for e, _ in obs["vals"]):
        return "false"
    tol = "tol32" if inexact32(case) else "tol64"
    k = copt(case["k"], cnat)
    recs = f"{{| il_ordered := {cbool(case['ordered'])}; il_ids := {clist(case['recs'], cz)} |}}"
    t = ("{| tl_items := " + clist(case["test"], lambda e: f"({cz(e[0])}, {cq(fparse(e[1]))})")
         + f"; tl_has_gain := {cbool((obs.get('has_gain') or [case['has_gain']])[0])} |}}")
    specs = metric_specs(case)
    idx = list(range(len(specs)))
    dvals = obs["disc"]
    if is_long(case):
        # sums of hundreds of exact rationals (powers of a 53-bit patience, float discounts) do not fit the kernel's
        # un-normalised Q arithmetic: for long lists Coq evaluates the counting metrics, the Python definition all of them
        idx = [j for j, s in enumerate(specs) if s["m"] in ("hit", "precision", "recall", "recip", "pop")]
        dvals = dvals[:4]
    disc = "(tbl_disc " + clist(dvals, lambda v: cq(fparse(v))) + ")"
    ms = clist([specs[j] for j in idx], lambda s: c_metric(case, s))
    def agree(vals):
        vals = [vals[j] for j in idx]
        ob = clist(vals, lambda ev: f"({cnat(ev[0])}, {copt(None if ev[1] is None else fparse(ev[1]), cq)})")
        return f"agree_all {tol} {disc} {k} {recs} {t} {ms} {ob}"

    # the model is a function of identifiers and gains: the representation of the lists and the position of a call
    # in the sequence do not enter it, so every call on these two lists is compared with the same model value
    term = agree(obs["vals"])
    for stage in ("fresh", "again", "third"):
        if stage in obs and obs[stage] != obs["vals"]:
            if any(e == 9 for e, _ in obs[stage]):
                return "false"
            term = f"andb ({term}) ({agree(obs[stage])})"
    return term


# ---------------------------------------------------------------------------------------------
# the property as a predicate on implementation output (independent of the Coq model)
# ---------------------------------------------------------------------------------------------

def disc_value(kind, r):
    if kind == "log2":
        return Fraction(math.log2(r))
    if kind == "ln":
        return Fraction(math.log(r))
    if kind == "rank":
        return Fraction(r)
    if kind == "sqrt":
        return Fraction(math.sqrt(r))
    if kind == "table":
        return Fraction(math.log2(r) + 0.5)
    if kind == "nonmono":
        return Fraction(1.0 + (r % 3) * 0.75)
    raise ValueError(kind)


def disc_monotone(kind):
    return kind != "nonmono"


def pop_quantiles(case):
    counts = dict((i, c) for i, c in pop_counts(case))
    pos = sorted(c for c in counts.values() if c > 0)
    q = {}
    for i, c in counts.items():
        if c > 0:
            less = sum(1 for x in pos if x < c)
            eq = sum(1 for x in pos if x == c)
            q[i] = (Fraction(less) + Fraction(eq + 1, 2)) / len(pos)
        else:
            q[i] = Fraction(0)
    return q


def definition(case, s, recs, ordered=None, test=None, has_gain=None):
    """(error, value) the documentation prescribes; value None = undefined (NaN)."""
    k, m = case["k"], s["m"]
    test = case["test"] if test is None else test
    ordered = case["ordered"] if ordered is None else ordered
    tids = [i for i, _ in test]
    tg = {i: fparse(g) for i, g in test}

    def trunc():
        if k is not None and not ordered:
            return None
        return recs if k is None else recs[:k]

    if m in ("hit", "recip") and not tids:
        return 0, None
    L = trunc()
    if L is None:
        return 1, None
    good = [i in tg for i in L]
    if m == "hit":
        return 0, Fraction(1 if any(good) else 0)
    if m == "precision":
        return 0, (Fraction(sum(good), len(L)) if L else None)
    if m == "recall":
        den = len(tids) if k is None else min(len(tids), k)
        return 0, (Fraction(sum(good), den) if den else None)
    if m == "recip":
        for r, g in enumerate(good, 1):
            if g:
                return 0, Fraction(1, r)
        return 0, Fraction(0)
    if m == "rbp":
        if not tids:
            return 0, None
        g = patience_q(case, s)
        tot = sum((g ** (r - 1) for r, ok in enumerate(good, 1) if ok), Fraction(0))
        if not s["norm"]:
            return 0, tot * (1 - g)
        mx = sum((g ** (r - 1) for r in range(1, min(len(tids), len(L)) + 1)), Fraction(0))
        return 0, (tot / mx if mx else None)
    if m in ("dcg", "ndcg"):
        if s["graded"] and not (case["has_gain"] if has_gain is None else has_gain):
            return 2, None
        w = lambda r: 1 / max(disc_value(case["discount"], r), Fraction(1))  # noqa: E731
        gain = (lambda i: tg.get(i, Fraction(0))) if s["graded"] else (lambda i: Fraction(1 if i in tg else 0))
        dcg = sum((gain(i) * w(r) for r, i in enumerate(L, 1)), Fraction(0))
        if m == "dcg":
            return 0, dcg
        gs = sorted((tg[i] if s["graded"] else Fraction(1) for i in tids), reverse=True)
        if k:
            gs = gs[:k]
        idcg = sum((g * w(r) for r, g in enumerate(gs, 1)), Fraction(0))
        return 0, (dcg / idcg if idcg else None)
    if m == "pop":
        if not L:
            return 0, None
        q = pop_quantiles(case)
        return 0, sum((q.get(i, Fraction(0)) for i in L), Fraction(0)) / len(L)
    raise ValueError(m)


def _num(ev):
    return None if ev[1] is None else float(fparse(ev[1]))


def _close(a, b, rel):
    if a is None or b is None:
        return a is None and b is None
    return abs(a - b) <= rel * max(1.0, abs(b))


def _vs_definition(case, s, ev, rel, recs, where, ordered=None, test=None, has_gain=None):
    """One call of one metric against its documented definition -> list of (key, what)."""
    key = mkey(s)
    e, val = ev
    if e == 9:
        return [(f"exception:{key}", f"{key} raised {val} ({where})")]
    we, wv = definition(case, s, recs, ordered=ordered, test=test, has_gain=has_gain)
    if e != we:
        return [(f"error:{key}", f"{key}: outcome code {e}, the documented behaviour gives {we} ({where})")]
    if e:
        return []
    got, want = _num(ev), (None if wv is None else float(wv))
    if not _close(got, want, rel):
        nt = len(case["test"] if test is None else test)
        return [(f"definition:{key}", f"{key} returned {got}, its documented definition gives {want} "
                                      f"(k={case['k']}, {len(recs)} recs, {nt} test items; {where})")]
    return []


def oracle(case, obs):
    v = []
    specs = metric_specs(case)
    rel = 2e-6 if inexact32(case) else 1e-9
    claimed = case["k"] != 0        # the property speaks about k >= 1 or none
    tg = {i: fparse(g) for i, g in case["test"]}
    nonneg_pos = any(g > 0 for g in tg.values())
    hg = obs.get("has_gain") or [case["has_gain"], case["has_gain"]]
    swapped = None
    if case["swap"]:
        swapped = list(case["recs"])
        swapped[case["swap"][0]], swapped[case["swap"][1]] = swapped[case["swap"][1]], swapped[case["swap"][0]]
    for j, s in enumerate(specs):
        key = mkey(s)
        e, val = obs["vals"][j]
        # a measurement must leave the two lists as it found them
        if obs.get("fresh_mut") and obs["fresh_mut"][j]:
            v.append((f"inputs-mutated:{key}", f"{key}.measure_list changed its inputs: " + "; ".join(obs["fresh_mut"][j])[:600]))
        if e == 9:
            v.append((f"exception:{key}", f"{key} raised {val}"))
            continue
        # the same call on the same objects again (a metric must not depend on how often, or after what, it was evaluated)
        for stage, what in (("again", "second"), ("third", "third")):
            if stage in obs and obs[stage][j] != obs["vals"][j]:
                v.append((f"repeat:{key}", f"{key} returned {obs[stage][j]} on the {what} identical call on the same list objects, "
                                           f"{obs['vals'][j]} on the first"))
                break
        if not claimed:
            continue
        # every call against the definition: the first in the sequence, the one on untouched lists, the other rankings
        # measured against the same test list object, another test list against the same ranking object
        d0 = _vs_definition(case, s, obs["vals"][j], rel, case["recs"], "first call of the sequence", has_gain=hg[0])
        v += d0
        if "fresh" in obs:
            v += _vs_definition(case, s, obs["fresh"][j], rel, case["recs"], "lists never used before", has_gain=hg[0])
        if "ideal" in obs:
            v += _vs_definition(case, s, obs["ideal"][j], rel, ideal_recs(case), "an ideal ranking, same test list object", ordered=True, has_gain=hg[0])
        if "swapped" in obs:
            v += _vs_definition(case, s, obs["swapped"][j], rel, swapped, "the exchanged ranking, same test list object", has_gain=hg[0])
        if "alt" in obs:
            v += _vs_definition(case, s, obs["alt"][j], rel, case["recs"], "another test list, same ranking object", test=alt_test(case), has_gain=hg[1])
        if d0 and d0[0][0].startswith("error:"):
            continue
        if e:
            continue
        got = _num(obs["vals"][j])
        # consequences
        mono = disc_monotone(case["discount"])
        normalised = key in ("recall", "rbp-norm") or (s["m"] == "ndcg" and mono)
        if normalised and case["test"] and got is not None and not (-1e-12 <= got <= 1 + 1e-9):
            v.append((f"range:{key}", f"{key} = {got} outside [0, 1]"))
        if key == "recall" and case["test"] and got is None:
            v.append(("range:recall", "recall undefined although the test list is not empty"))
        if s["m"] == "ndcg" and case["test"] and got is None and (not s["graded"] or nonneg_pos):
            v.append((f"range:{key}", f"{key} undefined although a test item has positive gain"))
        if "ideal" in obs and (key in ("recall", "rbp-norm") or s["m"] == "ndcg"):
            ie, _ = obs["ideal"][j]
            iv = _num(obs["ideal"][j])
            defined = not (s["m"] == "ndcg" and s["graded"] and not nonneg_pos)
            if ie == 0 and defined and not _close(iv, 1.0, rel):
                v.append((f"ideal:{key}", f"{key} of an ideal ranking of the test items is {iv}, not 1"))
        if "swapped" in obs and key != "pop" and (s["m"] not in ("dcg", "ndcg") or mono):
            se, _ = obs["swapped"][j]
            sv = _num(obs["swapped"][j])
            if se == 0 and got is not None and sv is not None and sv < got - 1e-12 * max(1.0, abs(got)):
                v.append((f"swap:{key}", f"{key} fell from {got} to {sv} after moving relevant item "
                                         f"{case['recs'][case['swap'][1]]} up past irrelevant {case['recs'][case['swap'][0]]}"))
            if se == 0 and (got is None) != (sv is None):
                v.append((f"swap:{key}", f"{key} defined on one of the two exchanged rankings only"))
    if obs.get("seq_mut"):
        first, changed = obs["seq_mut"]
        where = f"{first[0]}" if first else "sequence"
        v.append((f"inputs-mutated:{where}", "after measuring every metric on one pair of list objects the inputs differ from identical "
                  "lists that were never measured" + (f" (first seen after {first[0]}, {first[1]})" if first else "") + ": "
                  + "; ".join(changed)[:600]))
    if obs.get("life") and claimed:
        lf = obs["life"]
        for n, ((rids, tp), row, hgn) in enumerate(zip(life_variants(case), lf["rows"], lf["has_gain"])):
            for s, (reused, once) in zip(specs, row):
                key = mkey(s)
                where = f"one metric object measuring short-lived lists, pair {n + 1}"
                if reused != once and not (reused[0] == once[0] == 0 and _close(_num(reused), _num(once), 1e-12)):
                    v.append((f"reuse:{key}", f"{key}: the metric object used before returned {reused}, a metric object made for "
                                              f"this call {once} on the same two lists ({where})"))
                v += _vs_definition(case, s, reused, rel, rids, where, test=tp, has_gain=hgn)
    if "pop" in case and claimed:
        q = pop_quantiles(case)
        got = {i: float(fparse(x)) for i, x in obs["item_ranks"]}
        for i, qi in q.items():
            if i not in got or not _close(got[i], float(qi), 1e-9):
                v.append(("definition:pop-quantile", f"popularity quantile of item {i} is {got.get(i)}, definition gives {float(qi)}"))
                break
    seen, out = set(), []
    for k_, w in v:
        if k_ not in seen:
            seen.add(k_)
            out.append((k_, w))
    return out


def nontrivial(case, obs):
    if not case["ordered"] or any(e for e, _ in obs["vals"]):
        return False
    tids = {i for i, _ in case["test"]}
    L = case["recs"] if case["k"] is None else case["recs"][: case["k"]]
    rel = sum(1 for i in L if i in tids)
    return len(case["recs"]) >= 3 and len(tids) >= 2 and 0 < rel < len(L)


def counters(case, obs):
    yield "relation=" + case["relation"]
    yield "gains=" + case["gstyle"]
    yield "discount=" + case["discount"]
    yield "ids=" + case["idkind"]
    k, nr, nt = case["k"], len(case["recs"]), len(case["test"])
    lo, hi = min(nr, nt), max(nr, nt)
    if k is None:
        yield "k=none"
    elif k == 0:
        yield "k=0"
    elif k < lo:
        yield "k=below-both-lengths"
    elif k < hi:
        yield "k=between-the-lengths"
    else:
        yield "k=at-or-above-both"
    tids = {i for i, _ in case["test"]}
    if k and any(i in tids for i in case["recs"][k:]):
        yield "relevant-item-beyond-k"
    gs = [g for _, g in case["test"]]
    if len(set(gs)) < len(gs):
        yield "ties-in-gain"
    p = case["patience"]
    yield "patience=" + ("default" if p is None else "0-or-1" if p in ("0/1", "1/1") else "dyadic" if p in DYADIC_PATIENCE else "other")
    if case["malformed"]:
        yield "malformed"
    for e in sorted({e for e, _ in obs["vals"]}):
        yield f"outcome-code={e}"
    if any(e == 0 and x is None for e, x in obs["vals"]):
        yield "some-metric-undefined(NaN)"
    if "pop" in case:
        yield "pop=" + case["pop"]["count"]
    if case["swap"]:
        yield "swap-candidate"
    yield f"recs-len={'0' if nr == 0 else '1-3' if nr <= 3 else '4-8' if nr <= 8 else '9+'}"
    rep = rep_of(case)
    rk = rep.get("ranks")
    yield "rank-column=" + (rk["style"] if rk and case["ordered"] else "implicit")
    if rk and case["ordered"] and k and k < nr and rank_column(rk, nr)[k - 1] != k:
        yield "rank-of-kth-entry-differs-from-k"
    if is_long(case):
        yield "long-list"
        deep = [p for p, i in enumerate(case["recs"], 1) if i in tids and (not k or p <= k)]
        if deep and max(deep) > 256:
            yield "long-list:relevant-item-below-position-256-within-k"
        if p and p not in ("0/1", "1/1") and fparse(p) >= Fraction(9, 10):
            yield "long-list:high-patience"
    if obs.get("life"):
        yield "metric-object-reused-over-short-lived-lists"
        if obs["life"]["recycled"]:
            yield "metric-object-reused:test-list-address-recycled"
    yield "lists=" + rep["style"]
    yield "recs-stored=" + rep["recs"]
    yield "test-stored=" + rep["test"]
    if case["has_gain"]:
        yield "gain-field=" + rep["gdtype"]
    if rep["rscores"]:
        yield "recs-with-scores"
    ur, ut = unknown_ids(case)
    yield "ids-unknown-to-vocabulary=" + ("both-lists" if ur and ut else "recs" if ur else "test" if ut else "none")
    top = case["recs"] if not k else case["recs"][:k]
    if rep["style"] == "shared" and ut and any(i in ur for i in top) and not any(i in tids for i in top):
        yield "shared-vocab:unknown-id-in-top-k-and-in-test,no-hit"
    if case["has_gain"] and rep["gdtype"] == "f32w" and gs != sorted(gs, key=fparse):
        yield "writable-float32-gains-not-ascending"


def sample(case, obs):
    return {"case": {k: v for k, v in case.items() if k != "pop"},
            "metrics": [mkey(s) for s in metric_specs(case)], "vals": obs["vals"]}


_shrunk = 0


def shrink(case, fails):
    global _shrunk
    _shrunk += 1
    if _shrunk > 5:                     # a broken tree fails on hundreds of cases; five shrunk replays are enough
        return case
    c = dict(case)
    for drop in ("pop",):
        d = {k: v for k, v in c.items() if k != drop}
        if fails(d):
            c = d
    if c.get("life") and fails({**c, "life": False}):
        c = {**c, "life": False}
    # the simplest representation that still fails
    for edit in (lambda r: PLAIN_REP, lambda r: {**r, "ranks": None}, lambda r: {**r, "gdtype": "f64"}, lambda r: {**r, "rscores": False},
                 lambda r: {**r, "style": "shared", "vocab2": None} if r["vocab2"] is not None or r["style"] == "copy" else r,
                 lambda r: {**r, "vocab": sorted(r["vocab"])} if r["vocab"] else r):
        cur = rep_of(c)
        simpler = dict(edit(cur))
        if simpler != cur and fails({**c, "rep": simpler}):
            c = {**c, "rep": simpler}
    if c.get("swap") is None or fails({**c, "swap": None}):
        c = {**c, "swap": None}
        r2 = common.shrink_list(c["recs"], lambda xs: fails({**c, "recs": xs}), 40)
        if fails({**c, "recs": r2}):
            c = {**c, "recs": r2}
    t2 = common.shrink_list(c["test"], lambda xs: fails({**c, "test": xs}), 40)
    if fails({**c, "test": t2}):
        c = {**c, "test": t2}
    return c
