"""Deterministic synthetic scorer component for the C03 correspondence runs.

Import only after common.use_repo().  The score of an item is a hash of (seed, user, item, history
length) reduced to a few quarter-step levels (so ties are frequent) with a configurable share of
NaN; `scores=False` returns the item list without a score field at all (malformed stream).
"""

from __future__ import annotations

import hashlib
from dataclasses import dataclass

import numpy as np

from lenskit.data import ItemList, QueryInput, RecQuery
from lenskit.pipeline import Component


@dataclass
class SynthConfig:
    seed: int = 0
    levels: int = 4
    nan_num: int = 0          # NaN odds out of nan_den
    nan_den: int = 8          # (a large denominator with nan_num close to it: a model that can score only a handful of a long list)
    mode: str = "item"        # "item" | "user" | "hist"
    scores: bool = True
    f32: bool = False


def _h(*parts) -> int:
    return int.from_bytes(hashlib.sha256("|".join(str(p) for p in parts).encode()).digest()[:8], "big")


def _plain(x):
    return x.item() if hasattr(x, "item") else x


class SynthScorer(Component[ItemList]):
    config: SynthConfig

    def __call__(self, query: QueryInput, items: ItemList) -> ItemList:
        q = RecQuery.create(query)
        c = self.config
        if not c.scores:
            return ItemList(item_ids=items.ids())
        user = "" if c.mode == "item" or q.user_id is None else _plain(q.user_id)
        hl = "" if c.mode != "hist" or q.user_items is None else len(q.user_items)
        vals = []
        for i in items.ids().tolist():
            h = _h(c.seed, user, _plain(i), hl)
            if h % c.nan_den < c.nan_num:
                vals.append(np.nan)
            else:
                vals.append(((h >> 8) % c.levels) / 4.0 - 0.5 + (0.1 if c.f32 else 0.0))
        arr = np.array(vals, dtype=np.float32 if c.f32 else np.float64)
        return ItemList(items, scores=arr)
