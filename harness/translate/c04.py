"""Regenerates coq/Gen/C04_sites.v: the table of vocabulary look-ups and result constructions of every
scorer `__call__` and fold-in helper (DESIGN 2.3 A).  Fail-closed: an unlisted scorer class, a look-up whose
receiver cannot be classified, a non-constant `missing=` argument or a listed function that has disappeared
raise TranslateError; a look-up with the wrong policy or a result that is not `ItemList(<items>, scores=...)`
is recorded as such and makes theorem `sites_tolerant` fail.

Also regenerates coq/Gen/C04_numbers.v: the rule `ItemList.numbers(vocabulary=V)` applies when V is not the list's own
vocabulary object (what every scorer calls on its candidates and histories).  `ItemList.ids` and `ItemList.numbers` are
compared statement by statement (ast.unparse-normalised) with what Model/C04_repr.v models; anything else raises
TranslateError."""

from __future__ import annotations

import ast
from pathlib import Path

from .pyq import TranslateError, dotted, parse

HEADER = """(* GENERATED on every run by harness/translate/c04.py from the scorer sources under
   src/lenskit -- do not edit. *)
From Coq Require Import String List.
From LK Require Import Model.C04_scatter.
Import ListNotations.
Open Scope string_scope.

"""

C, H, U = "SCandidates", "SHistory", "SUser"

# (file, class or None, function, {receiver -> subject of a `.numbers(` call}, is a scorer entry point,
#  name of the parameter holding the candidate list)
FUNCS = [
    ("basic/bias.py", "BiasScorer", "__call__", {}, True, "items"),
    ("basic/bias.py", "BiasModel", "compute_for_items", {"items": C, "user_items": H}, False, "items"),
    ("basic/popularity.py", "PopScorer", "__call__", {"items": C}, True, "items"),
    ("basic/history.py", "KnownRatingScorer", "__call__", {}, True, "items"),
    ("knn/item.py", "ItemKNNScorer", "__call__", {"items": C, "ratings": H}, True, "items"),
    ("knn/user.py", "UserKNNScorer", "__call__", {"items": C}, True, "items"),
    ("knn/user.py", "UserKNNScorer", "_get_user_data", {"query.user_items": H}, False, None),
    ("als/_common.py", "ALSBase", "__call__", {"items": C}, True, "items"),
    ("als/_common.py", "ALSBase", "finalize_scores", {}, True, "items"),
    ("als/_explicit.py", "BiasedMFScorer", "new_user_embedding", {"items": H}, False, None),
    ("als/_explicit.py", "BiasedMFScorer", "finalize_scores", {}, True, "items"),
    ("als/_implicit.py", "ImplicitMFScorer", "new_user_embedding", {"user_items": H}, False, None),
    ("funksvd.py", "FunkSVDScorer", "__call__", {"items": C}, True, "items"),
    ("sklearn/svd.py", "BiasedSVDScorer", "__call__", {"items": C}, True, "items"),
    ("flexmf/_base.py", "FlexMFScorerBase", "__call__", {"items": C}, True, "items"),
    ("implicit.py", "BaseRec", "__call__", {"items": C}, True, "items"),
    ("hpf.py", "HPFScorer", "__call__", {"items": C}, True, "items"),
]
# files in which every class defining __call__(…, items) must be listed above
SCAN = ["basic/bias.py", "basic/popularity.py", "basic/history.py", "knn/item.py", "knn/user.py", "als/_common.py",
        "als/_explicit.py", "als/_implicit.py", "funksvd.py", "sklearn/svd.py", "flexmf/_base.py", "flexmf/_explicit.py",
        "flexmf/_implicit.py", "implicit.py", "hpf.py"]

POLICY = {"negative": "PNegative", "error": "PError", "none": "PNone", None: "PNone"}


def find_def(tree: ast.AST, cls: str, name: str) -> ast.FunctionDef:
    """the one implementation of cls.name (typing overloads are skipped)"""
    cs = [n for n in tree.body if isinstance(n, ast.ClassDef) and n.name == cls]
    if len(cs) != 1:
        raise TranslateError(f"class {cls} not found exactly once")
    fs = [n for n in cs[0].body if isinstance(n, ast.FunctionDef) and n.name == name
          and not any(dotted(d) in ("overload", "typing.overload") for d in n.decorator_list)]
    if len(fs) != 1:
        raise TranslateError(f"function {cls}.{name} not found exactly once")
    return fs[0]


def cstr(s: str) -> str:
    return '"' + s.replace('"', "'") + '"'


def own_nodes(fn: ast.FunctionDef):
    """all nodes of the function body, not descending into nested function or class definitions"""
    todo = list(fn.body)
    while todo:
        n = todo.pop()
        yield n
        for c in ast.iter_child_nodes(n):
            if not isinstance(c, (ast.FunctionDef, ast.AsyncFunctionDef, ast.ClassDef, ast.Lambda)):
                todo.append(c)


def missing_arg(call: ast.Call, positional: int | None):
    for kw in call.keywords:
        if kw.arg == "missing":
            if not isinstance(kw.value, ast.Constant):
                raise TranslateError(f"line {call.lineno}: non-constant missing= argument")
            return kw.value.value, True
        if kw.arg is None:
            raise TranslateError(f"line {call.lineno}: **kwargs in a vocabulary look-up")
    if positional is not None and len(call.args) > positional:
        a = call.args[positional]
        if not isinstance(a, ast.Constant):
            raise TranslateError(f"line {call.lineno}: non-constant positional missing argument")
        return a.value, True
    return "error", False


def is_itemlist_copy(node, items_param, locals_copy):
    """ItemList(<items_param>, scores=...) possibly through a local assigned exactly that"""
    if isinstance(node, ast.Call) and dotted(node.func) == "ItemList":
        if node.args and isinstance(node.args[0], ast.Name) and any(k.arg == "scores" for k in node.keywords):
            return node.args[0].id == items_param
        return False
    return None


def extract(src: Path) -> tuple[list[str], list[str]]:
    sites, calls = [], []
    listed = {(f, c) for f, c, fn, *_ in FUNCS if fn == "__call__"}
    for rel in SCAN:
        tree = parse(src / "lenskit" / rel)
        for cls in [n for n in tree.body if isinstance(n, ast.ClassDef)]:
            for fn in [n for n in cls.body if isinstance(n, ast.FunctionDef) and n.name == "__call__"]:
                params = [a.arg for a in fn.args.args]
                if "items" in params and (rel, cls.name) not in listed:
                    raise TranslateError(f"{rel}: scorer class {cls.name} defines __call__(…, items) but is not in the sites list")
    for rel, cls, fname, subjects, entry, items_param in FUNCS:
        tree = parse(src / "lenskit" / rel)
        fn = find_def(tree, cls, fname)
        where = f"{cstr(rel)} {cstr(cls + '.' + fname)}"
        params = [a.arg for a in fn.args.args]
        if items_param is not None and items_param not in params:
            raise TranslateError(f"{rel}:{cls}.{fname}: no parameter named {items_param}")
        # locals assigned exactly once as ItemList(<items>, scores=...)
        copies = {}
        assigned = {}
        for n in own_nodes(fn):
            if isinstance(n, ast.Assign) and len(n.targets) == 1 and isinstance(n.targets[0], ast.Name):
                assigned[n.targets[0].id] = assigned.get(n.targets[0].id, 0) + 1
                r = is_itemlist_copy(n.value, items_param, {})
                if r is not None:
                    copies[n.targets[0].id] = r
        copies = {k: v for k, v in copies.items() if assigned.get(k) == 1}
        has_guard = any(isinstance(n, ast.Compare) and any(isinstance(o, ast.In) for o in n.ops)
                        and any((dotted(c) or "").endswith("row_vocabulary") for c in n.comparators) for n in own_nodes(fn))
        found = []
        for n in own_nodes(fn):
            if isinstance(n, ast.Call) and isinstance(n.func, ast.Attribute):
                recv = dotted(n.func.value)
                attr = n.func.attr
                if attr == "numbers":
                    if recv is None or recv not in subjects:
                        raise TranslateError(f"{rel}:{cls}.{fname} line {n.lineno}: numbers() on unclassified receiver {recv}")
                    m, _ = missing_arg(n, None)
                    if m not in POLICY:
                        raise TranslateError(f"{rel}:{cls}.{fname} line {n.lineno}: unknown missing policy {m!r}")
                    found.append((n.lineno, f"LookupItems {where} {subjects[recv]} {POLICY[m]}"))
                elif attr == "number":
                    if recv is None or "users" not in recv:
                        raise TranslateError(f"{rel}:{cls}.{fname} line {n.lineno}: number() on unclassified receiver {recv}")
                    m, _ = missing_arg(n, 1)
                    if m not in POLICY:
                        raise TranslateError(f"{rel}:{cls}.{fname} line {n.lineno}: unknown missing policy {m!r}")
                    found.append((n.lineno, f"LookupUser {where} {POLICY[m]}"))
                elif attr == "row_items":
                    if has_guard:
                        found.append((n.lineno, f"Guarded {where} {cstr('row_items behind `in row_vocabulary`')}"))
                    else:
                        found.append((n.lineno, f"LookupUser {where} PError"))
                elif attr == "reindex" and n.args and isinstance(n.args[0], ast.Call) and dotted(n.args[0].func) == f"{items_param}.ids":
                    found.append((n.lineno, f"Reindex {where}"))
                elif attr in ("term", "terms", "id", "ids") and recv is not None and recv.startswith("self.") and n.args:
                    raise TranslateError(f"{rel}:{cls}.{fname} line {n.lineno}: reverse vocabulary look-up {recv}.{attr} in a scorer")
            if entry and isinstance(n, ast.Return):
                v = n.value
                r = is_itemlist_copy(v, items_param, copies) if v is not None else None
                if r is not None:
                    found.append((n.lineno, f"ReturnCopy {where} {'true' if r else 'false'}"))
                elif isinstance(v, ast.Name) and v.id == items_param:
                    found.append((n.lineno, f"ReturnCopy {where} true"))        # hands back the list it was given
                elif isinstance(v, ast.Name) and v.id in copies:
                    found.append((n.lineno, f"ReturnCopy {where} {'true' if copies[v.id] else 'false'}"))
                elif (isinstance(v, ast.Call) and dotted(v.func) == "self.finalize_scores" and len(v.args) >= 2
                      and isinstance(v.args[1], ast.Name) and v.args[1].id in copies):
                    found.append((n.lineno, f"ReturnCopy {where} {'true' if copies[v.args[1].id] else 'false'}"))
                else:
                    found.append((n.lineno, f"ReturnOther {where} {cstr(ast.unparse(v)[:60] if v is not None else 'None')}"))
        if entry:
            calls.append(f"({cstr(rel)}, {cstr(cls + '.' + fname)})")
            if not any(s.startswith("Return") for _, s in found):
                raise TranslateError(f"{rel}:{cls}.{fname}: no return statement found")
        sites += [s for _, s in sorted(found)]
    return sites, calls


# ---------------------------------------------------------------------------------------------
# ItemList.ids() / ItemList.numbers(vocabulary=...): how a list resolves its items for a scorer
# ---------------------------------------------------------------------------------------------

NUMBERS_HEADER = """(* GENERATED on every run by harness/translate/c04.py from src/lenskit/data/items.py
   (ItemList.ids, ItemList.numbers) -- do not edit. *)
From LK Require Import Model.C04_repr.

"""

# the statements Model/C04_repr.v models (`ids_of`, `own_numbers`, `numbers_in`), normalised by ast.unparse
IDS_BODY = [
    "if self._ids is None:\n"
    "    if self._vocab is None:\n"
    "        raise RuntimeError('item IDs not available (no IDs or vocabulary provided)')\n"
    "    assert self._numbers is not None\n"
    "    self._ids = self._vocab.ids(self._numbers.numpy())",
    "return self._ids",
]
FOREIGN_TEST = "vocabulary is not None and vocabulary is not self._vocab"
FOREIGN_THROUGH_IDS = [
    "ids = self.ids()",
    "mta = MTArray(vocabulary.numbers(ids, missing=missing))",
    "return mta.to(format)",
]
OWN_BODY = [
    "if self._numbers is None:\n"
    "    if self._vocab is None:\n"
    "        raise RuntimeError('item numbers not available (no IDs or vocabulary provided)')\n"
    "    assert self._ids is not None\n"
    "    self._numbers = MTArray(self._vocab.numbers(self._ids, missing='negative'))",
    "if missing == 'error' and np.any(self._numbers.numpy() < 0):\n"
    "    raise KeyError('item IDs')",
    "return self._numbers.to(format)",
]


def body_of(fn: ast.FunctionDef) -> list[ast.stmt]:
    b = list(fn.body)
    if b and isinstance(b[0], ast.Expr) and isinstance(b[0].value, ast.Constant) and isinstance(b[0].value.value, str):
        b = b[1:]
    return b


def numbers_rule(src: Path) -> str:
    """Fail-closed reading of ItemList.ids / ItemList.numbers: the only shapes accepted are the ones the model has."""
    rel = "data/items.py"
    tree = parse(src / "lenskit" / rel)
    ids = [ast.unparse(s) for s in body_of(find_def(tree, "ItemList", "ids"))]
    if ids != IDS_BODY:
        raise TranslateError(f"{rel}: ItemList.ids is not the modelled statement list: {ids}")
    body = body_of(find_def(tree, "ItemList", "numbers"))
    if not body or not isinstance(body[0], ast.If) or body[0].orelse or ast.unparse(body[0].test) != FOREIGN_TEST:
        raise TranslateError(f"{rel}: ItemList.numbers does not start with the foreign-vocabulary test `{FOREIGN_TEST}`")
    foreign = [ast.unparse(s) for s in body[0].body]
    if foreign != FOREIGN_THROUGH_IDS:
        raise TranslateError(f"{rel}: ItemList.numbers, foreign-vocabulary branch is not `translate the identifiers` "
                             f"(ids = self.ids(); vocabulary.numbers(ids, missing=missing)): {foreign}")
    own = [ast.unparse(s) for s in body[1:]]
    if own != OWN_BODY:
        raise TranslateError(f"{rel}: ItemList.numbers, own-vocabulary part is not the modelled statement list: {own}")
    return (NUMBERS_HEADER + "(* ItemList.numbers(vocabulary=V) with V not the list's own vocabulary object: "
            + "; ".join(FOREIGN_THROUGH_IDS) + " *)\n"
            "Definition foreign_rule_in_source : foreign_rule := ThroughIds.\n")


# ---------------------------------------------------------------------------------------------
# integer fields of the scorers' configuration classes (block sizes, batch sizes, neighbourhood limits ...)
# ---------------------------------------------------------------------------------------------


def is_int_annotation(ann: ast.expr) -> bool:
    """`int`, `int | None`, `Optional[int]`, `Annotated[int, ...]`, `PositiveInt` ... -- anything that mentions an integer type
    outside a Literal[...]"""
    todo = [ann]
    while todo:
        n = todo.pop()
        if isinstance(n, ast.Subscript) and (dotted(n.value) or "").split(".")[-1] == "Literal":
            continue
        if isinstance(n, ast.Constant) and isinstance(n.value, str):          # a quoted annotation
            try:
                todo.append(ast.parse(n.value, mode="eval").body)
            except SyntaxError:
                raise TranslateError(f"line {ann.lineno}: unreadable quoted annotation {n.value!r}")
            continue
        name = (dotted(n) or "").split(".")[-1] if isinstance(n, (ast.Name, ast.Attribute)) else ""
        if name == "int" or name.endswith("Int"):
            return True
        todo.extend(ast.iter_child_nodes(n))
    return False


def config_int_fields(src: Path) -> list[tuple[str, str]]:
    """(declaring class, field) for every integer field declared in a configuration class of the scorer files: the classes named
    `*Config*` and every class a `config:` annotation of those files refers to, with their bases as far as they are defined in
    the scorer files (pydantic BaseModel / object end the walk; any other unresolvable base fails closed)."""
    classes: dict[str, ast.ClassDef] = {}
    wanted: set[str] = set()
    for rel in SCAN:
        tree = parse(src / "lenskit" / rel)
        for cls in [n for n in ast.walk(tree) if isinstance(n, ast.ClassDef)]:
            if cls.name in classes and "Config" in cls.name:
                raise TranslateError(f"{rel}: configuration class {cls.name} defined twice in the scorer files")
            classes.setdefault(cls.name, cls)
            if "Config" in cls.name:
                wanted.add(cls.name)
            for st in cls.body:
                if isinstance(st, ast.AnnAssign) and isinstance(st.target, ast.Name) and st.target.id == "config":
                    ref = dotted(st.annotation)
                    if ref is None:
                        raise TranslateError(f"{rel}:{cls.name}: `config:` annotation is not a class name: {ast.unparse(st.annotation)}")
                    wanted.add(ref.split(".")[-1])
    out, done, todo = [], set(), sorted(wanted)
    while todo:
        name = todo.pop(0)
        if name in done:
            continue
        done.add(name)
        if name not in classes:
            raise TranslateError(f"configuration class {name} is not defined in the scorer files")
        for b in classes[name].bases:
            bn = (dotted(b) or ast.unparse(b)).split(".")[-1]
            if bn in ("BaseModel", "object"):
                continue
            if bn not in classes:
                raise TranslateError(f"configuration class {name}: base {bn} is not defined in the scorer files")
            todo.append(bn)
        for st in classes[name].body:
            if isinstance(st, ast.AnnAssign) and isinstance(st.target, ast.Name) and is_int_annotation(st.annotation):
                out.append((name, st.target.id))
    return sorted(out)


def translate(src: Path) -> dict[str, str]:
    sites, calls = extract(src)
    text = HEADER
    text += "Definition sites : list site :=\n  [ " + "\n  ; ".join(sites) + " ].\n\n"
    text += "(* the scorer entry points inspected (every class of the scorer files that defines __call__(…, items)) *)\n"
    text += "Definition entry_points : list (string * string) :=\n  [ " + "\n  ; ".join(calls) + " ].\n\n"
    text += ("(* every integer field declared in a configuration class of the scorer files (declaring class, field): each may gate an\n"
             "   internal path (blocks, batches, truncated neighbourhoods) and must be among the fields the generator sets to small values *)\n")
    text += ("Definition config_int_fields : list (string * string) :=\n  [ "
             + "\n  ; ".join(f"({cstr(c)}, {cstr(f)})" for c, f in config_int_fields(src)) + " ].\n")
    return {"Gen/C04_sites.v": text, "Gen/C04_numbers.v": numbers_rule(src)}
