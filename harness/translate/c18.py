"""Regenerates coq/Gen/C18_frames.v from every Trainable class of /repo/src/lenskit and from
Pipeline.train (DESIGN 2.3 A, property C18).  Fail closed: anything outside the grammar below raises
TranslateError, the generated file is replaced by a stub and the theorems that Require it stop compiling.

What is extracted, per trainable class and per *configuration variant* (a valuation of the tests that
read nothing but `self.config...`; such tests are constant during the life of a component):

  guard       the already-trained test at the top of train():  hasattr(self, "<a>") / self.<a> > 0,
              conjoined with `not options.retrain`, body `return`
  wmust       attributes of self assigned on EVERY normally-terminating path of train() below the guard,
              following self.<method>() / super().<method>() calls through the MRO (training_loop,
              prepare_data, initialize_params, finalize_training, ... are reached this way)
  wmay        attributes assigned on SOME path
  exposed     attributes of self that train() reads before it has (definitely) assigned them in this
              call: old state that can leak into the new model
  reads       attributes of self read by __call__ and everything it reaches through self
  callwrites  attributes of self assigned by __call__ (scoring must not change the model)
  static      class-level constants read (never instance-assigned)

Flow rules: `if`/`match`/`try`/loops on data-dependent tests join (wmust: intersection over live
branches; everything else: union, dead branches included); `return` ends the method, `raise` ends the
path (a training that raises is outside the property); loop bodies may run zero times; generator
bodies are analysed at the call that creates them (sound here because IterativeTraining.train exhausts
the loop it creates -- a `break` in a loop over a generator fails closed).  `self` may not escape:
it may only be used as `self.<attr>`, returned, or handed to a logger.
"""

from __future__ import annotations

import ast
import re
from pathlib import Path

from .pyq import TranslateError, strip_doc

EXTERNAL_OK = {"ABC", "Protocol", "Generic", "object"}
NOT_COMPONENTS = {"Pipeline", "Trainable", "IterativeTraining"}  # define `train` but are not component classes
LOGGER_NAMES = {"_log", "log", "_logger", "clog", "blog", "elog", "logger"}
SELF_OK_FUNCS = {"isinstance", "type", "id", "repr", "str", "super"}
MAX_VARIANTS = 64


def fail(node, why):
    raise TranslateError(f"line {getattr(node, 'lineno', '?')}: {why}")


# ---------------------------------------------------------------------------------------------
# class index and MRO
# ---------------------------------------------------------------------------------------------


class Cls:
    def __init__(self, module: str, node: ast.ClassDef):
        self.module, self.node, self.name = module, node, node.name
        self.bases = []
        for b in node.bases:
            if isinstance(b, ast.Subscript):
                b = b.value
            if isinstance(b, ast.Attribute):
                self.bases.append(b.attr)
            elif isinstance(b, ast.Name):
                self.bases.append(b.id)
            else:
                fail(b, f"class {node.name}: unsupported base expression")
        self.methods, self.props, self.consts, self.decls = {}, {}, set(), set()
        for st in node.body:
            if isinstance(st, (ast.FunctionDef, ast.AsyncFunctionDef)):
                decos = {deco_name(d) for d in st.decorator_list}
                if decos & {"property", "cached_property"}:
                    self.props[st.name] = st
                elif any(d and d.endswith((".setter", ".deleter")) for d in decos):
                    fail(st, f"{node.name}.{st.name}: property setters are outside the grammar")
                elif "overload" in decos:
                    continue
                else:
                    self.methods[st.name] = st
            elif isinstance(st, ast.Assign):
                for t in st.targets:
                    if isinstance(t, ast.Name):
                        self.consts.add(t.id)
            elif isinstance(st, ast.AnnAssign) and isinstance(st.target, ast.Name):
                (self.consts if st.value is not None else self.decls).add(st.target.id)


def deco_name(d):
    if isinstance(d, ast.Call):
        d = d.func
    if isinstance(d, ast.Name):
        return d.id
    if isinstance(d, ast.Attribute):
        base = deco_name(d.value)
        return (base + "." if base else "") + d.attr
    return None


def build_index(src: Path) -> dict[str, list[Cls]]:
    idx: dict[str, list[Cls]] = {}
    root = src / "lenskit"
    for f in sorted(root.rglob("*.py")):
        rel = str(f.relative_to(src))
        if rel.startswith("lenskit/testing/"):
            continue
        tree = ast.parse(f.read_text(), filename=str(f))
        for n in tree.body:
            if isinstance(n, ast.ClassDef):
                idx.setdefault(n.name, []).append(Cls(rel, n))
    return idx


def resolve(idx, name: str, frm: Cls) -> Cls | None:
    cands = idx.get(name, [])
    if not cands:
        return None
    if len(cands) == 1:
        return cands[0]
    same = [c for c in cands if c.module == frm.module]
    if len(same) == 1:
        return same[0]
    raise TranslateError(f"base class {name} of {frm.name} is ambiguous ({[c.module for c in cands]})")


def mro(idx, c: Cls, trainable_root=False) -> list[Cls]:
    """C3 linearisation over the classes defined in the package."""
    parents = []
    for b in c.bases:
        p = resolve(idx, b, c)
        if p is None:
            continue
        parents.append(p)
    seqs = [mro(idx, p) for p in parents] + [list(parents)]
    out = [c]
    while any(seqs):
        seqs = [s for s in seqs if s]
        for s in seqs:
            h = s[0]
            if not any(h in t[1:] for t in seqs):
                break
        else:
            raise TranslateError(f"no consistent MRO for {c.name}")
        out.append(h)
        seqs = [[x for x in s if x is not h] for s in seqs]
    return out


def external_bases(idx, c: Cls) -> set[str]:
    out = set()
    for k in mro(idx, c):
        for b in k.bases:
            if resolve(idx, b, k) is None:
                out.add(b)
    return out


# ---------------------------------------------------------------------------------------------
# the analysis
# ---------------------------------------------------------------------------------------------


class NeedFork(Exception):
    def __init__(self, atom):
        self.atom = atom


class AbstractClass(Exception):
    pass


class St:
    __slots__ = ("must", "may", "reads", "exposed", "static", "dead")

    def __init__(self):
        self.must, self.may, self.reads, self.exposed, self.static = set(), set(), set(), set(), set()
        self.dead = None  # None | "return" | "raise" | "loop"

    def copy(self):
        s = St()
        s.must, s.may, s.reads, s.exposed, s.static = set(self.must), set(self.may), set(self.reads), set(self.exposed), set(self.static)
        s.dead = self.dead
        return s

    def assign(self, o):
        self.must, self.may, self.reads, self.exposed, self.static, self.dead = o.must, o.may, o.reads, o.exposed, o.static, o.dead


def join(states: list[St]) -> St:
    out = St()
    live = [s for s in states if s.dead is None]
    for s in states:
        out.may |= s.may
        out.reads |= s.reads
        out.exposed |= s.exposed
        out.static |= s.static
    if live:
        out.must = set.intersection(*[s.must for s in live])
    else:
        out.must = set.union(*[s.must for s in states]) if states else set()
        kinds = {s.dead for s in states}
        out.dead = "raise" if kinds == {"raise"} else ("return" if "return" in kinds else next(iter(kinds), "raise"))
    return out


def cfg_chain(node) -> str | None:
    """`self.config.a.b` -> 'self.config.a.b' (None if not such a chain)."""
    parts = []
    while isinstance(node, ast.Attribute):
        parts.append(node.attr)
        node = node.value
    if isinstance(node, ast.Name) and node.id == "self" and parts and parts[-1] == "config":
        return "self." + ".".join(reversed(parts))
    return None


def is_self(node) -> bool:
    return isinstance(node, ast.Name) and node.id == "self"


def is_self_attr(node) -> str | None:
    if isinstance(node, ast.Attribute) and is_self(node.value):
        return node.attr
    return None


class Analysis:
    def __init__(self, idx, cls: Cls, assume: dict[str, bool]):
        self.idx, self.cls, self.assume = idx, cls, assume
        self.mro = mro(idx, cls)
        self.stack: list[tuple[str, str]] = []
        self.frames: list[list[St]] = []   # exits of the methods being inlined
        self.owner: list[Cls] = []
        self.writes_in_call = False

    # -- attribute classification ----------------------------------------------------------
    def find_method(self, name, after: Cls | None = None):
        ks = self.mro
        if after is not None:
            ks = ks[ks.index(after) + 1:]
        for k in ks:
            if name in k.methods:
                return k, k.methods[name], "method"
            if name in k.props:
                return k, k.props[name], "prop"
        return None

    def is_const(self, name) -> bool:
        return any(name in k.consts for k in self.mro)

    # -- configuration-only tests (three-valued, forking through NeedFork) -------------------
    def cfg_atom(self, node):
        """canonical (key, negated) of an atomic configuration test, or None."""
        ch = cfg_chain(node)
        if ch is not None and ch != "self.config":
            return ch, False
        if isinstance(node, ast.Compare) and len(node.ops) == 1:
            l, r, op = node.left, node.comparators[0], node.ops[0]
            lc = cfg_chain(l)
            if lc is not None and lc != "self.config" and isinstance(r, ast.Constant) and isinstance(op, (ast.Eq, ast.NotEq, ast.Is, ast.IsNot)):
                return f"{lc} == {r.value!r}", isinstance(op, (ast.NotEq, ast.IsNot))
        return None

    def eval_atom(self, key: str, negated: bool) -> bool:
        if key in self.assume:
            v = self.assume[key]
        else:
            v = None
            if " == " in key:
                lhs, const = key.split(" == ", 1)
                for k2, v2 in self.assume.items():
                    if k2.startswith(lhs + " == ") and v2 and k2 != key:
                        v = False  # equal to a different constant
            if v is None:
                raise NeedFork(key)
        return (not v) if negated else v

    # -- reads / writes ---------------------------------------------------------------------
    def read_attr(self, name: str, st: St, node):
        if name == "config" or name.startswith("__"):
            return
        hit = self.find_method(name)
        if hit is not None:
            k, f, kind = hit
            if kind == "prop":
                self.inline(k, f, st, node)
            else:
                # a bound method used as a value (callback): whatever it does may happen
                self.inline(k, f, st, node)
            return
        if name not in st.must and name not in st.may and self.is_const(name):
            st.static.add(name)
            return
        st.reads.add(name)
        if name not in st.must:
            st.exposed.add(name)

    def write_attr(self, name: str, st: St, node):
        if name == "config" or self.find_method(name) is not None:
            fail(node, f"{self.cls.name}: assignment to self.{name} (configuration, method or property)")
        st.must.add(name)
        st.may.add(name)

    # -- expressions ------------------------------------------------------------------------
    def expr(self, n, st: St, test=False):
        """Walk an expression in evaluation order.  In test position (`test=True`: the condition of an
        if / conditional expression / while, and the operands of and/or/not inside one) a test that reads
        nothing but the configuration is decided under the current assumptions (True/False; an undecided
        atom forks the variant); everything else yields None."""
        if n is None:
            return None
        at = self.cfg_atom(n) if test else None
        if at is not None:
            return self.eval_atom(*at)
        if isinstance(n, ast.Constant):
            return None
        if isinstance(n, ast.Name):
            if n.id == "self":
                fail(n, f"{self.cls.name}: bare `self` escapes")
            return None
        if isinstance(n, ast.Attribute):
            a = is_self_attr(n)
            if a is not None:
                if not isinstance(n.ctx, ast.Load):
                    fail(n, f"{self.cls.name}: self.{a} in a non-load context inside an expression")
                self.read_attr(a, st, n)
                return None
            self.expr(n.value, st)
            return None
        if isinstance(n, ast.BoolOp):
            is_and = isinstance(n.op, ast.And)
            unknown = False
            for v in n.values:
                r = self.expr(v, st, test)
                if r is None:
                    unknown = True
                elif r != is_and:          # False in an `and`, True in an `or`: decided, the rest is not evaluated
                    return r
            return None if unknown else is_and
        if isinstance(n, ast.UnaryOp):
            r = self.expr(n.operand, st, test and isinstance(n.op, ast.Not))
            if isinstance(n.op, ast.Not) and r is not None:
                return not r
            return None
        if isinstance(n, ast.IfExp):
            r = self.expr(n.test, st, True)
            if r is True:
                self.expr(n.body, st)
            elif r is False:
                self.expr(n.orelse, st)
            else:
                self.expr(n.body, st)
                self.expr(n.orelse, st)
            return None
        if isinstance(n, ast.Call):
            return self.call(n, st)
        if isinstance(n, (ast.Lambda,)):
            self.no_self_writes(n)
            self.expr(n.body, st)
            return None
        if isinstance(n, (ast.ListComp, ast.SetComp, ast.GeneratorExp, ast.DictComp)):
            for g in n.generators:
                self.expr(g.iter, st)
                for c in g.ifs:
                    self.expr(c, st)
            if isinstance(n, ast.DictComp):
                self.expr(n.key, st)
                self.expr(n.value, st)
            else:
                self.expr(n.elt, st)
            return None
        if isinstance(n, (ast.Yield, ast.YieldFrom, ast.Await, ast.Starred, ast.FormattedValue)):
            self.expr(n.value, st)
            return None
        if isinstance(n, ast.NamedExpr):
            self.expr(n.value, st)
            return None
        # generic: children in field order
        for ch in ast.iter_child_nodes(n):
            if isinstance(ch, ast.expr):
                self.expr(ch, st)
            elif isinstance(ch, (ast.keyword,)):
                self.expr(ch.value, st)
            elif isinstance(ch, ast.comprehension):
                self.expr(ch.iter, st)
        return None

    def is_logger_call(self, f) -> bool:
        if isinstance(f, ast.Attribute):
            v = f.value
            if isinstance(v, ast.Name) and v.id in LOGGER_NAMES:
                return True
            if isinstance(v, ast.Attribute) and v.attr in ("log", "logger"):
                return True
            if isinstance(v, ast.Call):
                return self.is_logger_call(v.func)
        return False

    def call(self, n: ast.Call, st: St):
        f = n.func
        args = list(n.args) + [k.value for k in n.keywords]
        # hasattr / getattr on self with a constant name
        if isinstance(f, ast.Name) and f.id in ("hasattr", "getattr") and n.args and is_self(n.args[0]):
            if len(n.args) >= 2 and isinstance(n.args[1], ast.Constant) and isinstance(n.args[1].value, str):
                self.read_attr(n.args[1].value, st, n)
                for a in n.args[2:]:
                    self.expr(a, st)
                return None
            fail(n, f"{self.cls.name}: {f.id}(self, <non-constant>)")
        if isinstance(f, ast.Name) and f.id in ("setattr", "delattr", "vars", "object.__setattr__") and any(is_self(a) for a in args):
            fail(n, f"{self.cls.name}: {f.id} on self")
        # self.method(...) / super().method(...)
        target = None
        if isinstance(f, ast.Attribute) and is_self(f.value):
            target = self.find_method(f.attr)
            if target is None:
                # a data attribute holding a callable (e.g. self.model(...))
                for a in args:
                    self.arg(a, st, n)
                self.read_attr(f.attr, st, n)
                return None
        elif (isinstance(f, ast.Attribute) and isinstance(f.value, ast.Call) and isinstance(f.value.func, ast.Name)
              and f.value.func.id == "super" and not f.value.args):
            target = self.find_method(f.attr, after=self.owner[-1])
            if target is None:
                fail(n, f"{self.cls.name}: super().{f.attr} not found in the package")
        if target is not None:
            for a in args:
                self.arg(a, st, n)
            k, fn, kind = target
            decos = {deco_name(d) for d in fn.decorator_list}
            if "staticmethod" in decos:
                return None
            self.inline(k, fn, st, n)
            return None
        # any other call: self may be handed to loggers only
        if not isinstance(f, ast.Name):
            self.expr(f, st)
        for a in args:
            if is_self(a):
                if not (self.is_logger_call(f) or (isinstance(f, ast.Name) and f.id in SELF_OK_FUNCS)):
                    fail(n, f"{self.cls.name}: `self` passed to {ast.unparse(f)} (object escapes the analysis)")
            else:
                self.expr(a, st)
        return None

    def arg(self, a, st, n):
        if is_self(a):
            fail(n, f"{self.cls.name}: `self` passed as an argument")
        self.expr(a, st)

    def no_self_writes(self, n):
        for x in ast.walk(n):
            if isinstance(x, ast.Attribute) and is_self(x.value) and isinstance(x.ctx, (ast.Store, ast.Del)):
                fail(x, f"{self.cls.name}: nested function assigns self.{x.attr}")

    # -- statements -------------------------------------------------------------------------
    def target(self, t, st: St):
        a = is_self_attr(t)
        if a is not None:
            self.write_attr(a, st, t)
        elif isinstance(t, (ast.Tuple, ast.List)):
            for e in t.elts:
                self.target(e, st)
        elif isinstance(t, ast.Starred):
            self.target(t.value, st)
        elif isinstance(t, ast.Name):
            if t.id == "self":
                fail(t, "assignment to self")
        elif isinstance(t, (ast.Attribute, ast.Subscript)):
            # in-place change of an object: reading the holder is what matters
            self.expr(t.value, st)
            if isinstance(t, ast.Subscript):
                self.expr(t.slice, st)
        else:
            fail(t, "unsupported assignment target")

    def block(self, stmts, st: St):
        for s in stmts:
            if st.dead is not None:
                return
            self.stmt(s, st)

    def branches(self, st: St, bodies: list):
        outs = []
        for b in bodies:
            s2 = st.copy()
            self.block(b, s2)
            outs.append(s2)
        st.assign(join(outs))

    def stmt(self, s, st: St):
        if isinstance(s, ast.Expr):
            self.expr(s.value, st)
        elif isinstance(s, ast.Assign):
            self.expr(s.value, st)
            for t in s.targets:
                self.target(t, st)
        elif isinstance(s, ast.AnnAssign):
            if s.value is not None:
                self.expr(s.value, st)
                self.target(s.target, st)
        elif isinstance(s, ast.AugAssign):
            a = is_self_attr(s.target)
            if a is not None:
                self.read_attr(a, st, s)
                self.expr(s.value, st)
                self.write_attr(a, st, s)
            else:
                self.expr(s.value, st)
                self.target(s.target, st)
        elif isinstance(s, ast.Return):
            if s.value is not None and not is_self(s.value):
                self.expr(s.value, st)
            self.frames[-1].append(st.copy())
            st.dead = "return"
        elif isinstance(s, ast.Raise):
            if s.exc is not None:
                self.expr(s.exc, st)
            st.dead = "raise"
        elif isinstance(s, ast.If):
            r = self.expr(s.test, st, True)
            if r is True:
                self.block(s.body, st)
            elif r is False:
                self.block(s.orelse, st)
            else:
                self.branches(st, [s.body, s.orelse])
        elif isinstance(s, (ast.For, ast.While)):
            if isinstance(s, ast.For):
                self.expr(s.iter, st)
                self.target(s.target, st)
            else:
                self.expr(s.test, st)
            before = st.copy()
            body = st.copy()
            self.block(s.body, body)
            if body.dead == "loop":
                body.dead = None
            if isinstance(s, ast.While):
                self.expr(s.test, body)
            st.assign(join([before, body]))
            self.block(s.orelse, st)
        elif isinstance(s, (ast.With, ast.AsyncWith)):
            for it in s.items:
                self.expr(it.context_expr, st)
                if it.optional_vars is not None:
                    self.target(it.optional_vars, st)
            self.block(s.body, st)
        elif isinstance(s, ast.Try):
            outs = []
            b = st.copy()
            self.block(s.body, b)
            self.block(s.orelse, b)
            outs.append(b)
            for h in s.handlers:
                hs = st.copy()
                hs.may |= b.may
                hs.reads |= b.reads
                hs.exposed |= b.exposed
                self.block(h.body, hs)
                outs.append(hs)
            st.assign(join(outs))
            self.block(s.finalbody, st)
        elif isinstance(s, ast.Match):
            self.expr(s.subject, st)
            bodies = [c.body for c in s.cases]
            for c in s.cases:
                if c.guard is not None:
                    self.expr(c.guard, st)
            self.branches(st, bodies + [[]])
        elif isinstance(s, ast.Assert):
            self.expr(s.test, st)
            if s.msg is not None:
                self.expr(s.msg, st)
        elif isinstance(s, (ast.Break, ast.Continue)):
            st.dead = "loop"
        elif isinstance(s, (ast.Pass, ast.Import, ast.ImportFrom)):
            pass
        elif isinstance(s, (ast.FunctionDef, ast.Lambda)):
            self.no_self_writes(s)
            for x in s.body:
                self.stmt_reads_only(x, st)
        elif isinstance(s, ast.Delete):
            for t in s.targets:
                if is_self_attr(t) is not None or (isinstance(t, (ast.Attribute, ast.Subscript)) and any(is_self(x) for x in ast.walk(t))):
                    fail(s, f"{self.cls.name}: del on self")
        elif isinstance(s, (ast.Global, ast.Nonlocal)):
            fail(s, f"{self.cls.name}: global/nonlocal state")
        else:
            fail(s, f"{self.cls.name}: statement {type(s).__name__} outside the grammar")

    def stmt_reads_only(self, s, st: St):
        for x in ast.walk(s):
            a = is_self_attr(x)
            if a is not None:
                self.read_attr(a, st, x)

    # -- inlining ---------------------------------------------------------------------------
    def inline(self, k: Cls, fn, st: St, node, body=None):
        decos = {deco_name(d) for d in fn.decorator_list}
        stmts = strip_doc(fn.body) if body is None else body
        only_raises = len(stmts) == 1 and isinstance(stmts[0], ast.Raise) and "NotImplementedError" in ast.dump(stmts[0])
        only_dots = all(isinstance(x, ast.Expr) and isinstance(x.value, ast.Constant) for x in stmts)
        if "abstractmethod" in decos or "abc.abstractmethod" in decos or only_raises or (only_dots and not stmts == []):
            if "abstractmethod" in decos or "abc.abstractmethod" in decos or only_raises:
                raise AbstractClass(f"{k.name}.{fn.name}")
        key = (k.name, fn.name)
        if key in self.stack:
            fail(node, f"{self.cls.name}: recursion through {k.name}.{fn.name}")
        if len(self.stack) > 24:
            fail(node, "call depth")
        if fn.name == "train" and body is None and self.stack:
            # a nested train (super().train(data, options)): its guard must be the outer one, still undecided
            g = guard_of(fn)
            if g is None or g != self.guard or guard_attr(g) in st.may:
                fail(node, f"{self.cls.name}: nested train() with a different or already-invalidated guard")
            stmts = stmts[1:]
        self.stack.append(key)
        self.frames.append([])
        self.owner.append(k)
        self.block(stmts, st)
        exits = self.frames.pop()
        self.owner.pop()
        self.stack.pop()
        # normal terminations: every `return` (saved live) and the fall-through state if it is live
        alls = exits + [st.copy()]
        if any(e.dead is None for e in alls):
            st.assign(join(alls))
        else:
            j = join(alls)
            st.assign(j)
            st.dead = "raise"


def guard_of(fn) -> tuple | None:
    body = strip_doc(fn.body)
    if not body or not isinstance(body[0], ast.If):
        return None
    g = body[0]
    if g.orelse or len(g.body) != 1 or not isinstance(g.body[0], ast.Return) or g.body[0].value is not None:
        return None
    t = g.test
    if not (isinstance(t, ast.BoolOp) and isinstance(t.op, ast.And) and len(t.values) == 2):
        return None
    a, b = t.values
    if not (isinstance(b, ast.UnaryOp) and isinstance(b.op, ast.Not) and isinstance(b.operand, ast.Attribute)
            and b.operand.attr == "retrain" and isinstance(b.operand.value, ast.Name) and b.operand.value.id == "options"):
        return None
    if (isinstance(a, ast.Call) and isinstance(a.func, ast.Name) and a.func.id == "hasattr" and len(a.args) == 2
            and is_self(a.args[0]) and isinstance(a.args[1], ast.Constant) and isinstance(a.args[1].value, str)):
        return ("hasattr", a.args[1].value)
    if (isinstance(a, ast.Compare) and len(a.ops) == 1 and isinstance(a.ops[0], ast.Gt) and is_self_attr(a.left)
            and isinstance(a.comparators[0], ast.Constant) and a.comparators[0].value == 0):
        return ("positive", is_self_attr(a.left))
    return None


def guard_attr(g):
    return g[1]


def analyse_variant(idx, cls: Cls, assume: dict[str, bool]):
    """One configuration variant: returns dict or raises NeedFork / AbstractClass / TranslateError."""
    an = Analysis(idx, cls, assume)
    hit = an.find_method("train")
    if hit is None:
        raise TranslateError(f"{cls.name}: no train() in the package MRO")
    k, fn, _ = hit
    params = [a.arg for a in fn.args.posonlyargs + fn.args.args]
    if params[:3] != ["self", "data", "options"]:
        raise TranslateError(f"{k.name}.train: unexpected parameters {params}")
    g = guard_of(fn)
    if g is None:
        raise TranslateError(f"{k.name}.train: first statement is not `if <trained> and not options.retrain: return`")
    an.guard = g
    st = St()
    an.stack.append(("<entry>", "train"))
    an.inline(k, fn, st, fn, body=strip_doc(fn.body)[1:])
    an.stack.pop()
    if st.dead == "raise":
        return None   # this configuration is rejected by train() itself (always raises)
    train = st
    # scoring
    call = St()
    hit = an.find_method("__call__")
    if hit is not None:
        k2, fn2, _ = hit
        an2 = Analysis(idx, cls, assume)
        an2.guard = g
        an2.stack.append(("<entry>", "__call__"))
        an2.inline(k2, fn2, call, fn2)
    static = (train.static | call.static) - train.may
    return {
        "guard": g,
        "wmust": sorted(train.must),
        "wmay": sorted(train.may),
        "exposed": sorted((train.exposed - {"config"})),
        "reads": sorted(call.reads | (call.static & train.may)),
        "callwrites": sorted(call.may),
        "static": sorted(static),
    }


def variants_of(idx, cls: Cls):
    """All configuration variants: list of (assumptions, frame dict)."""
    out, todo = [], [dict()]
    while todo:
        a = todo.pop()
        if len(out) + len(todo) > MAX_VARIANTS:
            raise TranslateError(f"{cls.name}: more than {MAX_VARIANTS} configuration variants")
        try:
            fr = analyse_variant(idx, cls, a)
            if fr is not None:
                out.append((a, fr))
        except NeedFork as f:
            todo.append({**a, f.atom: False})
            todo.append({**a, f.atom: True})
    out.sort(key=lambda p: sorted(p[0].items()))
    return out


def trainable_classes(idx) -> list[Cls]:
    out = []
    for name, cs in sorted(idx.items()):
        for c in cs:
            names = [k.name for k in mro(idx, c)]
            if "Trainable" in names and c.name not in NOT_COMPONENTS:
                bad = external_bases(idx, c) - EXTERNAL_OK
                if bad:
                    raise TranslateError(f"trainable class {c.name} has bases outside the package: {sorted(bad)}")
                out.append(c)
            elif "train" in c.methods and c.name not in NOT_COMPONENTS:
                raise TranslateError(f"class {c.name} ({c.module}) defines train() without deriving from Trainable")
    return out


def options_generator_shape(src: Path) -> bool:
    """TrainingOptions.random_generator must hand the configured rng to lenskit.random.random_generator as it is:
    the child SeedSequence a pipeline passes in is then the seed of the generator the component obtains."""
    tree = ast.parse((src / "lenskit" / "training.py").read_text())
    cls = [n for n in tree.body if isinstance(n, ast.ClassDef) and n.name == "TrainingOptions"]
    if len(cls) != 1:
        raise TranslateError("class TrainingOptions not found")
    fs = [n for n in cls[0].body if isinstance(n, ast.FunctionDef) and n.name == "random_generator"]
    if len(fs) != 1:
        raise TranslateError("TrainingOptions.random_generator not found")
    body = [ast.unparse(x) for x in strip_doc(fs[0].body)]
    if body != ["return random_generator(self.rng)"]:
        raise TranslateError(f"TrainingOptions.random_generator is {body}, expected ['return random_generator(self.rng)'] "
                             "(the seed a component uses would no longer be the seed it was given)")
    return True


def extract(src: Path) -> dict:
    idx = build_index(src)
    classes, abstract = [], []
    for c in trainable_classes(idx):
        try:
            vs = variants_of(idx, c)
        except AbstractClass as e:
            abstract.append((c.name, str(e)))
            continue
        classes.append({"class": c.name, "module": c.module,
                        "variants": [{"assume": a, **fr} for a, fr in vs]})
    if not classes:
        raise TranslateError("no trainable classes found")
    return {"classes": classes, "abstract": abstract, "pipeline": pipeline_shape(src), "options_passthrough": options_generator_shape(src),
            "outside": outside_state(src, idx)}


# ---------------------------------------------------------------------------------------------
# state OUTSIDE the components: what a training could leave behind in the process
# ---------------------------------------------------------------------------------------------
# The frames above describe the instance dictionary.  A training could also remember something elsewhere: in a
# module-level (or class-level) table, behind a memoising decorator, in a default argument, in a table keyed by the
# identity (`id()`) of an object whose address is recycled once it has been dropped.  Such state survives the dataset it
# stems from and every retraining.  The scan covers every module that is import-reachable from a module defining a
# trainable class, from pipeline/_impl.py and from training.py (imports inside functions and under TYPE_CHECKING
# included), and reports
#   * a function carrying a memoising decorator (functools.cache / lru_cache / cached_property, cachetools, memoize ...);
#   * a call of the builtin id();
#   * a module-level name assigned through `global` inside a function;
#   * a module-level or class-level container (display, comprehension, dict / list / set / deque / Counter / *Dict / *Cache
#     constructor) that a function of the module writes (subscript store / delete, mutating method);
#   * a container-valued default argument that the function writes.
# PROCESS_STATE_ALLOWED lists, by module and name, the process-wide state of the unchanged tree that is configuration or
# display bookkeeping and never data a model is computed from; everything else goes to `outside_state`, which the
# theorems need empty.

CACHE_DECO = re.compile(r"(^|\.)(lru_cache|cache|cached_property|cachedmethod|cached|memoize|memoized|memo)$", re.I)
MUTATORS = {"append", "extend", "insert", "add", "update", "setdefault", "pop", "popitem", "clear", "remove", "discard",
            "appendleft", "extendleft", "__setitem__", "__delitem__"}
CONTAINER = re.compile(r"(dict|Dict|list|List|^set$|Set$|deque|Counter|Cache|ChainMap)")
PROCESS_STATE_ALLOWED = {
    "lenskit/logging/": "logging, progress-bar and task bookkeeping: display state, never read by a training",
    "lenskit/parallel/config.py:_config": "process-wide thread / process counts, initialised once from the environment",
    "lenskit/parallel/invoker.py:_backend": "which parallel backend is in use (set_backend)",
    "lenskit/parallel/ray.py:_worker_parallel": "parallel configuration of Ray workers",
    "lenskit/parallel/worker.py:__work_context": "context of a pool worker process, set when the worker starts",
    "lenskit/random.py:_global_rng": "the global generator; only set_global_rng assigns it, no training does",
    "lenskit/data/collection/_keys.py:KEY_CACHE": "named-tuple classes for list keys, keyed by the tuple of field names (content, not identity)",
}


def _is_container(v) -> str | None:
    if isinstance(v, (ast.Dict, ast.List, ast.Set, ast.DictComp, ast.ListComp, ast.SetComp)):
        return type(v).__name__
    if isinstance(v, ast.Call):
        n = deco_name(v.func)
        if n and CONTAINER.search(n.split(".")[-1]):
            return n
    return None


def _modfile(src: Path, dotted: str) -> Path | None:
    p = src / Path(*dotted.split("."))
    if p.with_suffix(".py").exists():
        return p.with_suffix(".py")
    if (p / "__init__.py").exists():
        return p / "__init__.py"
    return None


def _imports_of(src: Path, f: Path) -> set[Path]:
    tree = ast.parse(f.read_text(), filename=str(f))
    pkg = list(f.relative_to(src).with_suffix("").parts[:-1])
    out = set()

    def add(dotted):
        parts = dotted.split(".")
        for k in range(1, len(parts) + 1):
            m = _modfile(src, ".".join(parts[:k]))
            if m:
                out.add(m)
    for n in ast.walk(tree):
        if isinstance(n, ast.Import):
            for a in n.names:
                if a.name.split(".")[0] == "lenskit":
                    add(a.name)
        elif isinstance(n, ast.ImportFrom):
            if n.level:
                dotted = ".".join(pkg[: len(pkg) - (n.level - 1)] + (n.module.split(".") if n.module else []))
            else:
                dotted = n.module or ""
            if dotted.split(".")[0] != "lenskit":
                continue
            add(dotted)
            for a in n.names:
                add(dotted + "." + a.name)
    return out


def _bindings(body):
    for st in body:
        if isinstance(st, ast.Assign):
            for t in st.targets:
                yield t, st.value
        elif isinstance(st, ast.AnnAssign) and st.value is not None:
            yield st.target, st.value


def _functions(node, prefix=""):
    for ch in ast.iter_child_nodes(node):
        if isinstance(ch, (ast.FunctionDef, ast.AsyncFunctionDef)):
            yield prefix + ch.name, ch
            yield from _functions(ch, prefix + ch.name + ".")
        elif isinstance(ch, ast.ClassDef):
            yield from _functions(ch, prefix + ch.name + ".")
        elif not isinstance(ch, ast.expr):
            yield from _functions(ch, prefix)


def _scan_module(src: Path, f: Path) -> list[tuple[str, str]]:
    """(key `module:name`, description) of everything in this module that can hold state between calls."""
    rel = str(f.relative_to(src))
    tree = ast.parse(f.read_text(), filename=str(f))
    out = []
    modvars, clsvars = {}, {}
    for t, v in _bindings(tree.body):
        if isinstance(t, ast.Name) and _is_container(v):
            modvars[t.id] = _is_container(v)
    for st in ast.walk(tree):
        if isinstance(st, ast.ClassDef):
            for t, v in _bindings(st.body):
                if isinstance(t, ast.Name) and _is_container(v):
                    clsvars[t.id] = (st.name, _is_container(v))
    for name, fn in _functions(tree):
        for d in fn.decorator_list:
            dn = deco_name(d)
            if dn and CACHE_DECO.search(dn):
                out.append((f"{rel}:{name}", f"memoising decorator @{dn}"))
        nodes = [x for st in fn.body for x in ast.walk(st)]
        globs = set().union(*[set(x.names) for x in nodes if isinstance(x, ast.Global)] or [set()])
        for x in nodes:
            if isinstance(x, ast.Call) and isinstance(x.func, ast.Name) and x.func.id == "id" and len(x.args) == 1 and not x.keywords:
                out.append((f"{rel}:{name}", "takes the identity of an object with id()"))
            if isinstance(x, ast.Name) and isinstance(x.ctx, ast.Store) and x.id in globs:
                out.append((f"{rel}:{x.id}", f"module-level name assigned through `global` in {name}"))
            b = how = None
            if isinstance(x, ast.Subscript) and isinstance(x.ctx, (ast.Store, ast.Del)):
                b, how = x.value, "written"
            elif isinstance(x, ast.Call) and isinstance(x.func, ast.Attribute) and x.func.attr in MUTATORS:
                b, how = x.func.value, f"changed by .{x.func.attr}()"
            if isinstance(b, ast.Name) and b.id in modvars:
                out.append((f"{rel}:{b.id}", f"module-level {modvars[b.id]} {how} in {name}"))
            elif isinstance(b, ast.Attribute) and b.attr in clsvars:
                out.append((f"{rel}:{clsvars[b.attr][0]}.{b.attr}", f"class-level {clsvars[b.attr][1]} {how} in {name}"))
        a = fn.args
        pos = a.posonlyargs + a.args
        defaults = list(zip(pos[len(pos) - len(a.defaults):], a.defaults)) + [(p, d) for p, d in zip(a.kwonlyargs, a.kw_defaults) if d is not None]
        for prm, d in defaults:
            if not _is_container(d):
                continue
            for x in nodes:
                tgt = x.value if isinstance(x, ast.Subscript) and isinstance(x.ctx, (ast.Store, ast.Del)) else (
                    x.func.value if isinstance(x, ast.Call) and isinstance(x.func, ast.Attribute) and x.func.attr in MUTATORS else None)
                if isinstance(tgt, ast.Name) and tgt.id == prm.arg:
                    out.append((f"{rel}:{name}", f"default argument {prm.arg} ({_is_container(d)}) written by the function"))
                    break
    return sorted(set(out))


def outside_state(src: Path, idx) -> dict:
    roots = {src / c.module for c in trainable_classes(idx)} | {src / "lenskit" / "pipeline" / "_impl.py", src / "lenskit" / "training.py"}
    seen, todo = set(), list(roots)
    while todo:
        f = todo.pop()
        if f in seen or not f.exists():
            continue
        seen.add(f)
        todo.extend(_imports_of(src, f) - seen)
    flagged, allowed = [], []
    for f in sorted(seen):
        if str(f.relative_to(src)).startswith("lenskit/testing/"):
            continue
        for key, what in _scan_module(src, f):
            ok = any(key == k or (k.endswith("/") and key.startswith(k)) for k in PROCESS_STATE_ALLOWED)
            (allowed if ok else flagged).append(f"{key}: {what}")
    return {"flagged": flagged, "allowed": allowed, "modules": len(seen)}


# ---------------------------------------------------------------------------------------------
# Pipeline.train
# ---------------------------------------------------------------------------------------------

# KSeedZero: a supplied seed that is false in a truth test (the number zero as int or numpy integer).  Seeds are values:
# a test by VALUE (`not rng`, `if rng`, `rng == 0`) splits the seed-like inputs, and the model follows the split.
KINDS = ["KNone", "KGenerator", "KBitGenerator", "KSeedSequence", "KSeedLike", "KSeedZero"]
FALSY_KINDS = {"KNone", "KSeedZero"}      # generators, bit generators and SeedSequence objects are always true; a sequence of
#                                          numbers given as a seed is assumed non-empty


def _is_rng(n, alias: set[str]) -> bool:
    return ast.unparse(n) == "options.rng" or (isinstance(n, ast.Name) and n.id in alias)


def _rng_test_kinds(t, alias: set[str] = frozenset()) -> set[str]:
    """kinds of options.rng for which the test holds"""
    if isinstance(t, ast.BoolOp):
        parts = [_rng_test_kinds(v, alias) for v in t.values]
        return set.union(*parts) if isinstance(t.op, ast.Or) else set.intersection(*parts)
    if isinstance(t, ast.UnaryOp) and isinstance(t.op, ast.Not):
        return set(KINDS) - _rng_test_kinds(t.operand, alias)
    if _is_rng(t, alias):                                    # truth value of the seed itself
        return set(KINDS) - FALSY_KINDS
    if isinstance(t, ast.Compare) and len(t.ops) == 1 and _is_rng(t.left, alias) and isinstance(t.comparators[0], ast.Constant):
        op, c = t.ops[0], t.comparators[0].value
        if c is None and isinstance(op, (ast.Is, ast.IsNot)):
            return {"KNone"} if isinstance(op, ast.Is) else set(KINDS) - {"KNone"}
        if type(c) is int and c == 0 and isinstance(op, (ast.Eq, ast.NotEq)):
            return {"KSeedZero"} if isinstance(op, ast.Eq) else set(KINDS) - {"KSeedZero"}
    if (isinstance(t, ast.Call) and isinstance(t.func, ast.Name) and t.func.id == "isinstance" and len(t.args) == 2
            and _is_rng(t.args[0], alias)):
        names = [e.id for e in (t.args[1].elts if isinstance(t.args[1], ast.Tuple) else [t.args[1]]) if isinstance(e, ast.Name)]
        m = {"SeedSequence": "KSeedSequence", "Generator": "KGenerator", "BitGenerator": "KBitGenerator"}
        if names and all(x in m for x in names):
            return {m[x] for x in names}
    fail(t, f"Pipeline.train: unrecognised test on options.rng: {ast.unparse(t)}")


def _seed_plan(stmts, alias: set[str] = frozenset()) -> str:
    if len(stmts) == 1 and isinstance(stmts[0], ast.Assign) and len(stmts[0].targets) == 1 and ast.unparse(stmts[0].targets[0]) == "seed":
        v = stmts[0].value
        if _is_rng(v, alias):
            return "PlanUseGiven"
        if ast.unparse(v) == "None":
            return "PlanNoSeed"
        if (isinstance(v, ast.Call) and ast.unparse(v.func) == "SeedSequence" and len(v.args) == 1 and not v.keywords
                and _is_rng(v.args[0], alias)):
            return "PlanWrap"
    fail(stmts[0] if stmts else None, "Pipeline.train: unrecognised seed assignment")


def pipeline_shape(src: Path) -> dict:
    tree = ast.parse((src / "lenskit" / "pipeline" / "_impl.py").read_text())
    cls = [n for n in tree.body if isinstance(n, ast.ClassDef) and n.name == "Pipeline"]
    if len(cls) != 1:
        raise TranslateError("class Pipeline not found")
    fns = [n for n in cls[0].body if isinstance(n, ast.FunctionDef) and n.name == "train"]
    if len(fns) != 1:
        raise TranslateError("Pipeline.train not found exactly once")
    fn = fns[0]
    body = strip_doc(fn.body)
    # local names for options.rng (`rng = options.rng`, assigned once, after `options` has its final value)
    alias = {s.targets[0].id for s in body if isinstance(s, ast.Assign) and len(s.targets) == 1 and isinstance(s.targets[0], ast.Name)
             and ast.unparse(s.value) == "options.rng"}
    for a in alias:
        if sum(1 for x in ast.walk(fn) if isinstance(x, ast.Name) and x.id == a and isinstance(x.ctx, (ast.Store, ast.Del))) != 1:
            raise TranslateError(f"Pipeline.train: {a} (a name for options.rng) is assigned more than once")
    # seed selection: the if/elif/else chain on options.rng
    chain = [s for s in body if isinstance(s, ast.If) and any(_is_rng(x, alias) for x in ast.walk(s.test))]
    if len(chain) != 1:
        raise TranslateError("Pipeline.train: expected exactly one if-chain on options.rng")
    plan, remaining, node = {}, set(KINDS), chain[0]
    while True:
        ks = _rng_test_kinds(node.test, alias) & remaining
        p = _seed_plan(node.body, alias)
        for k in ks:
            plan[k] = p
        remaining -= ks
        if len(node.orelse) == 1 and isinstance(node.orelse[0], ast.If):
            node = node.orelse[0]
            continue
        p = _seed_plan(node.orelse, alias) if node.orelse else fail(node, "Pipeline.train: seed chain without else")
        for k in remaining:
            plan[k] = p
        break
    # the loop
    loops = [s for s in body if isinstance(s, ast.For)]
    if len(loops) != 1 or ast.unparse(loops[0].iter) != "self.nodes()" or not isinstance(loops[0].target, ast.Name):
        raise TranslateError("Pipeline.train: expected one `for node in self.nodes()` loop")
    loop = loops[0]
    nodevar = loop.target.id
    # ... and `self.nodes()` is every node of the graph, whatever it is wired to: a walk from the declared outputs
    # (default node, aliases) or any other selection would leave components on side branches untrained
    nfns = [n for n in cls[0].body if isinstance(n, ast.FunctionDef) and n.name == "nodes"]
    if len(nfns) != 1:
        raise TranslateError("Pipeline.nodes not found exactly once")
    nbody = strip_doc(nfns[0].body)
    if len(nbody) != 1 or not isinstance(nbody[0], ast.Return) or nbody[0].value is None or ast.unparse(nbody[0].value) != "list(self._nodes.values())":
        raise TranslateError("Pipeline.nodes: expected `return list(self._nodes.values())` (every node of the graph)")
    if len(loop.body) != 1 or not isinstance(loop.body[0], ast.Match) or ast.unparse(loop.body[0].subject) != nodevar:
        raise TranslateError("Pipeline.train: loop body is not a single `match node`")
    cases = loop.body[0].cases
    comp_case = [c for c in cases if isinstance(c.pattern, ast.MatchClass) and ast.unparse(c.pattern.cls) == "ComponentInstanceNode"]
    if len(comp_case) != 1 or len(comp_case[0].pattern.patterns) != 2:
        raise TranslateError("Pipeline.train: no `case ComponentInstanceNode(name, comp)`")
    compvar = comp_case[0].pattern.patterns[1].name
    for c in cases:
        if c is not comp_case[0] and any(isinstance(x, ast.Call) for st_ in c.body for x in ast.walk(st_)):
            raise TranslateError("Pipeline.train: another case performs calls")
    ifs = [s for s in comp_case[0].body if isinstance(s, ast.If)]
    if len(ifs) != 1 or ast.unparse(ifs[0].test) != f"isinstance({compvar}, Trainable)":
        raise TranslateError("Pipeline.train: component case is not guarded by isinstance(comp, Trainable)")
    tb = ifs[0].body
    assigns = [s for s in tb if isinstance(s, ast.Assign)]
    if len(assigns) != 1:
        raise TranslateError("Pipeline.train: expected one assignment of the component options")
    optvar = ast.unparse(assigns[0].targets[0])
    want = "options if seed is None else replace(options, rng=seed.spawn(1)[0])"
    if ast.unparse(assigns[0].value) != want:
        raise TranslateError(f"Pipeline.train: component options are `{ast.unparse(assigns[0].value)}`, expected `{want}`")
    trains = [x for x in ast.walk(fn) if isinstance(x, ast.Call) and isinstance(x.func, ast.Attribute) and x.func.attr == "train"]
    if len(trains) != 1 or ast.unparse(trains[0]) != f"{compvar}.train(data, {optvar})":
        raise TranslateError("Pipeline.train: expected exactly one call comp.train(data, c_opts)")
    if not any(trains[0] in list(ast.walk(s)) for s in tb):
        raise TranslateError("Pipeline.train: the train call is not under the Trainable test")
    # nothing in the loop may touch `seed` or `data` otherwise
    for x in ast.walk(loop):
        if isinstance(x, ast.Name) and isinstance(x.ctx, ast.Store) and x.id in ("seed", "data", "options"):
            raise TranslateError(f"Pipeline.train: loop reassigns {x.id}")
    spawns = [x for x in ast.walk(fn) if isinstance(x, ast.Call) and isinstance(x.func, ast.Attribute) and x.func.attr == "spawn"]
    if len(spawns) != 1:
        raise TranslateError("Pipeline.train: expected exactly one spawn call")
    return {"plan": plan, "spawn_width": 1, "spawn_pick": 0, "all_nodes": True}


# ---------------------------------------------------------------------------------------------
# Gallina
# ---------------------------------------------------------------------------------------------

HEADER = """(* GENERATED on every run by harness/translate/c18.py from every Trainable class under
   src/lenskit and from Pipeline.train (src/lenskit/pipeline/_impl.py) -- do not edit. *)
From Coq Require Import List ZArith.
From Coq Require String.
Import String.StringSyntax.
From LK Require Import Model.C18_retrain.
Import ListNotations.
Local Open Scope string_scope.

"""


def cs(s: str) -> str:
    return '"' + s.replace('"', "'") + '"'


def cl(xs) -> str:
    return "[" + "; ".join(cs(x) for x in xs) + "]"


def label(assume: dict) -> str:
    return "; ".join(f"{k} = {'T' if v else 'F'}" for k, v in sorted(assume.items()))


def to_gallina(info: dict) -> str:
    out = [HEADER]
    rows = []
    for c in info["classes"]:
        for v in c["variants"]:
            g = v["guard"]
            gq = f"(GHasAttr {cs(g[1])})" if g[0] == "hasattr" else f"(GPositive {cs(g[1])})"
            rows.append(
                f"  {{| fr_class := {cs(c['class'])}; fr_variant := {cs(label(v['assume']))};\n"
                f"     fr_guard := {gq};\n"
                f"     fr_wmust := {cl(v['wmust'])};\n"
                f"     fr_wmay := {cl(v['wmay'])};\n"
                f"     fr_reads := {cl(v['reads'])};\n"
                f"     fr_exposed := {cl(v['exposed'])};\n"
                f"     fr_callwrites := {cl(v['callwrites'])};\n"
                f"     fr_static := {cl(v['static'])} |}}"
            )
    out.append("Definition frames : list frame := [\n" + ";\n".join(rows) + "\n].\n\n")
    out.append("(* classes whose training reaches an abstract method: no frame of their own *)\n")
    out.append("Definition abstract_classes : list String.string := " + cl([a for a, _ in info["abstract"]]) + ".\n\n")
    p = info["pipeline"]
    out.append("(* Pipeline.train: how the supplied options.rng becomes the per-component seed *)\n")
    out.append("Definition pt_seed_plan (k : rng_kind) : seed_plan :=\n  match k with\n")
    for k in KINDS:
        out.append(f"  | {k} => {p['plan'][k]}\n")
    out.append("  end.\n")
    out.append(f"Definition pt_spawn_width : nat := {p['spawn_width']}.   (* seed.spawn(1) *)\n")
    out.append(f"Definition pt_spawn_pick : nat := {p['spawn_pick']}.    (* [0] *)\n")
    out.append("(* the training loop is `for node in self.nodes()` and Pipeline.nodes returns every node of the graph, whatever it is wired to *)\n")
    out.append(f"Definition pt_iterates_all_nodes : bool := {'true' if p['all_nodes'] else 'false'}.\n")
    out.append("(* TrainingOptions.random_generator is `return random_generator(self.rng)`: the generator a component obtains is\n"
               "   made from exactly the rng it was handed *)\n")
    out.append(f"Definition options_rng_passthrough : bool := {'true' if info['options_passthrough'] else 'false'}.\n")
    o = info["outside"]
    out.append(f"\n(* state OUTSIDE the components, scanned over the {o['modules']} modules import-reachable from the trainable classes, from\n"
               "   Pipeline.train and from training.py: memoising decorators, id() calls, module-level names assigned through `global`,\n"
               "   module- / class-level containers and container defaults written by functions.  `outside_state` is what is NOT on the\n"
               "   list of process-wide configuration / display state (harness/translate/c18.py: PROCESS_STATE_ALLOWED). *)\n")
    out.append("Definition outside_state : list String.string := " + cl(o["flagged"]) + ".\n")
    out.append("Definition process_state_allowed : list String.string := [\n  " + ";\n  ".join(cs(x) for x in o["allowed"]) + "\n].\n")
    out.append("(* does a training remember anything outside the instance dictionary of the component? *)\n")
    out.append("Definition train_keeps_outside : bool := negb (is_nil outside_state).\n")
    return "".join(out)


def translate(src: Path) -> dict:
    return {"Gen/C18_frames.v": to_gallina(extract(src))}


if __name__ == "__main__":
    import json
    import sys
    info = extract(Path(sys.argv[1] if len(sys.argv) > 1 else "/repo/src"))
    print(json.dumps(info, indent=1, default=str))
