"""Regenerates coq/Gen/C05_holdout.v from splitting/holdout.py (DESIGN 2.3 A).

The four `__call__` bodies (SampleN, SampleFrac, LastN, LastFrac) are translated statement by
statement: the size guard, the count expression, the random draw, the ordering, and the index /
slice expression (Python slice semantics through SplitLib.py_slice, so `ordered[-0:]` means
"from position 0").  Anything outside the grammar below raises TranslateError (fail closed).

Kinds: Z (Python int), Idx (index array -> list nat), OptCol / Col (items.field(...) before / after
the `is None` test), Items (the parameter).
"""

from __future__ import annotations

import ast

from . import pyq
from .pyq import TranslateError, fail

HEADER = """(* GENERATED on every run by harness/translate/c05.py from
   src/lenskit/splitting/holdout.py -- do not edit.
   Each function is the `__call__` body of the class of the same name.  Library calls are
   parameters: round_mul len f = round(len * f); choice a n = rng.choice(a, n, replace=False)
   (None: numpy raised ValueError); argsort = np.argsort.  `len` is len(items); `col` is
   items.field(self.field); the result lists the selected positions of `items`. *)
From Coq Require Import ZArith List Bool.
From LK Require Import Lib.SplitLib.
Import ListNotations.
Open Scope Z_scope.

"""

CLASSES = ["SampleN", "SampleFrac", "LastN", "LastFrac"]
# the configured attribute of each class (reading any other attribute fails closed)
ATTR = {"SampleN": "n", "SampleFrac": "fraction", "LastN": "n", "LastFrac": "fraction"}
SIG = ("{{F : Type}} (round_mul : Z -> F -> option Z) (choice : Z -> Z -> option (list nat)) "
       "(argsort : list Z -> list nat) {attr} (len : Z) (col : option (list Z))")


class Body:
    def __init__(self, items_name: str, attr: str):
        self.items = items_name
        self.attr = attr
        self.fresh = 0

    # ---- integer expressions ---------------------------------------------------------------
    def int_expr(self, n, env) -> str:
        if isinstance(n, ast.Constant) and isinstance(n.value, int) and not isinstance(n.value, bool):
            return f"({n.value})"
        if isinstance(n, ast.Name):
            if n.id in env and env[n.id][1] == "Z":
                return env[n.id][0]
            fail(n, f"name {n.id} is not a known integer")
        if isinstance(n, ast.Attribute):
            if pyq.dotted(n) == "self.n" and self.attr == "n":
                return "self_n"
            fail(n, "unsupported attribute in an integer expression")
        if isinstance(n, ast.UnaryOp) and isinstance(n.op, ast.USub):
            return f"(- {self.int_expr(n.operand, env)})"
        if isinstance(n, ast.BinOp) and type(n.op) in (ast.Add, ast.Sub, ast.Mult):
            op = {ast.Add: "+", ast.Sub: "-", ast.Mult: "*"}[type(n.op)]
            return f"({self.int_expr(n.left, env)} {op} {self.int_expr(n.right, env)})"
        if isinstance(n, ast.Call) and isinstance(n.func, ast.Name) and not n.keywords:
            if n.func.id == "len" and len(n.args) == 1 and isinstance(n.args[0], ast.Name):
                a = n.args[0].id
                if a == self.items:
                    return "len"
                if a in env and env[a][1] in ("Idx", "Col"):
                    return f"(Z.of_nat (length {env[a][0]}))"
                fail(n, "len() of something that is not the item list, an index array or the column")
            if n.func.id in ("max", "min") and len(n.args) == 2:
                f = "Z.max" if n.func.id == "max" else "Z.min"
                return f"({f} {self.int_expr(n.args[0], env)} {self.int_expr(n.args[1], env)})"
        fail(n, "unsupported integer expression")

    def cond(self, n, env) -> str:
        if not (isinstance(n, ast.Compare) and len(n.ops) == 1):
            fail(n, "unsupported condition")
        a = self.int_expr(n.left, env)
        b = self.int_expr(n.comparators[0], env)
        tbl = {ast.LtE: f"({a} <=? {b})", ast.Lt: f"({a} <? {b})", ast.GtE: f"({b} <=? {a})",
               ast.Gt: f"({b} <? {a})", ast.Eq: f"({a} =? {b})"}
        if type(n.ops[0]) not in tbl:
            fail(n, "unsupported comparison")
        return tbl[type(n.ops[0])]

    # ---- index expressions -------------------------------------------------------------------
    def idx_expr(self, n, env) -> str:
        if isinstance(n, ast.Name):
            if n.id in env and env[n.id][1] == "Idx":
                return env[n.id][0]
            fail(n, f"name {n.id} is not an index array")
        if isinstance(n, ast.Subscript) and isinstance(n.slice, ast.Slice):
            if n.slice.step is not None:
                fail(n, "slice with a step")
            v = self.idx_expr(n.value, env)
            lo = "None" if n.slice.lower is None else f"(Some {self.int_expr(n.slice.lower, env)})"
            hi = "None" if n.slice.upper is None else f"(Some {self.int_expr(n.slice.upper, env)})"
            return f"(py_slice {v} {lo} {hi})"
        fail(n, "unsupported index expression")

    # ---- statements ------------------------------------------------------------------------------
    def block(self, stmts, env) -> str:
        if not stmts:
            raise TranslateError("control reaches the end of __call__ without a return")
        s, rest = stmts[0], stmts[1:]
        if isinstance(s, ast.Expr) and isinstance(s.value, ast.Constant) and isinstance(s.value.value, str):
            return self.block(rest, env)
        if isinstance(s, ast.Return):
            if rest:
                fail(s, "statements after a return")
            v = s.value
            if isinstance(v, ast.Name) and v.id == self.items:
                return "HOk (all_idx len)"
            if (isinstance(v, ast.Subscript) and isinstance(v.value, ast.Name) and v.value.id == self.items
                    and not isinstance(v.slice, ast.Slice)):
                return f"HOk {self.idx_expr(v.slice, env)}"
            fail(s, "return of something other than items or items[<index array>]")
        if isinstance(s, ast.Raise):
            if rest:
                fail(s, "statements after a raise")
            exc = s.exc
            name = exc.func.id if isinstance(exc, ast.Call) and isinstance(exc.func, ast.Name) else None
            code = {"TypeError": "EType", "ValueError": "EValue", "RuntimeError": "ERuntime"}.get(name)
            if code is None:
                fail(s, "raise of an unknown exception")
            return f"HErr {code}"
        if isinstance(s, ast.If):
            t = s.test
            if (isinstance(t, ast.Compare) and len(t.ops) == 1 and isinstance(t.ops[0], ast.Is)
                    and isinstance(t.left, ast.Name) and isinstance(t.comparators[0], ast.Constant)
                    and t.comparators[0].value is None):
                nm = t.left.id
                if nm not in env or env[nm][1] != "OptCol" or s.orelse:
                    fail(s, "`is None` test on something other than the ordering column")
                then = self.block(s.body, env)
                env2 = dict(env)
                self.fresh += 1
                v = f"{nm}_{self.fresh}"
                env2[nm] = (v, "Col")
                return f"match {env[nm][0]} with\n  | None => {then}\n  | Some {v} =>\n  {self.block(rest, env2)}\n  end"
            c = self.cond(t, env)
            then = self.block(s.body, env)
            if s.orelse:
                if rest:
                    fail(s, "statements after an if/else")
                other = self.block(s.orelse, env)
            else:
                other = self.block(rest, env)
            return f"if {c} then {then}\n  else {other}"
        if isinstance(s, ast.Assign):
            if len(s.targets) != 1 or not isinstance(s.targets[0], ast.Name):
                fail(s, "assignment target is not a single name")
            nm = s.targets[0].id
            if nm == self.items:
                fail(s, "assignment to the item list parameter")
            v = s.value
            env2 = dict(env)
            d = pyq.dotted(v.func) if isinstance(v, ast.Call) else None
            if d == "round":
                if not (len(v.args) == 1 and not v.keywords and isinstance(v.args[0], ast.BinOp)
                        and isinstance(v.args[0].op, ast.Mult) and pyq.dotted(v.args[0].right) == "self.fraction" and self.attr == "fraction"):
                    fail(s, "round() of something other than <int> * self.fraction")
                a = self.int_expr(v.args[0].left, env)
                env2[nm] = (nm, "Z")
                return f"match round_mul {a} self_fraction with\n  | None => HErr EValue\n  | Some {nm} =>\n  {self.block(rest, env2)}\n  end"
            if d == "self.rng.choice":
                kw = v.keywords
                if not (len(v.args) == 2 and len(kw) == 1 and kw[0].arg == "replace"
                        and isinstance(kw[0].value, ast.Constant) and kw[0].value.value is False):
                    fail(s, "rng.choice call is not choice(<int>, <int>, replace=False)")
                a = self.int_expr(v.args[0], env)
                b = self.int_expr(v.args[1], env)
                env2[nm] = (nm, "Idx")
                return f"match choice {a} {b} with\n  | None => HErr EValue\n  | Some {nm} =>\n  {self.block(rest, env2)}\n  end"
            if d == f"{self.items}.field":
                if not (len(v.args) == 1 and not v.keywords and pyq.dotted(v.args[0]) == "self.field"):
                    fail(s, "items.field() of something other than self.field")
                env2[nm] = ("col", "OptCol")
                return self.block(rest, env2)
            if d == "np.argsort":
                if not (len(v.args) == 1 and not v.keywords and isinstance(v.args[0], ast.Name)
                        and v.args[0].id in env and env[v.args[0].id][1] == "Col"):
                    fail(s, "np.argsort of something other than the (non-None) ordering column")
                env2[nm] = (nm, "Idx")
                return f"let {nm} := argsort {env[v.args[0].id][0]} in\n  {self.block(rest, env2)}"
            e = self.int_expr(v, env)
            env2[nm] = (nm, "Z")
            return f"let {nm} := {e} in\n  {self.block(rest, env2)}"
        fail(s, "unsupported statement")


def translate(src) -> dict:
    tree = pyq.parse(src / "lenskit" / "splitting" / "holdout.py")
    out = [HEADER]
    for cls in CLASSES:
        f = pyq.find_def(tree, cls, "__call__")
        params = [a.arg for a in f.args.posonlyargs + f.args.args]
        if len(params) != 2 or params[0] != "self" or f.args.kwonlyargs or f.args.vararg or f.args.kwarg:
            raise TranslateError(f"{cls}.__call__: unexpected parameters {params}")
        b = Body(params[1], ATTR[cls])
        code = b.block(pyq.strip_doc(f.body), {})
        sig = SIG.format(attr="(self_n : Z)" if ATTR[cls] == "n" else "(self_fraction : F)")
        out.append(f"Definition {cls}_call {sig} : hres :=\n  {code}.\n")
    return {"Gen/C05_holdout.v": "\n".join(out)}
